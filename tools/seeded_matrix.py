#!/usr/bin/env python3
"""Runs every seeded change against the check of its property (and extra properties given in EXTRA), records the result in
seeded/<id>/meta.json and prints the table for DESIGN.md section 9.
usage: seeded_matrix.py [--tree <scratch worktree of /repo>] [ids...]
Without --tree the change is applied to /repo itself (and reverted); with --tree it is applied to that scratch worktree
and the checks run with DZNPY_TREE pointing there (several streams can then run side by side; the evidence of those runs
goes to a scratch directory)."""
import json
import os
import subprocess
import sys
import time

VERIF = os.path.dirname(os.path.dirname(os.path.abspath(__file__)))
EXTRA = {'C10-m2': ['C01'], 'C13-m1': ['C03'], 'C12-m2': ['C08'], 'C08-m2': ['C12'], 'C19-m1': ['C17'], 'C17-m1': ['C19'],
         'C07-m2': ['C01']}


def sh(cmd, **kw):
    return subprocess.run(cmd, shell=True, capture_output=True, text=True, **kw)


def main():
    argv = sys.argv[1:]
    tree = '/repo'
    env = None
    if argv[:1] == ['--tree']:
        tree = argv[1]
        argv = argv[2:]
        env = dict(os.environ, DZNPY_TREE=tree, PYVC_EVIDENCE_DIR='/tmp/ev-seeded-' + os.path.basename(tree))
    ids = argv or sorted(os.listdir(os.path.join(VERIF, 'seeded')))
    rows = []
    for sid in ids:
        d = os.path.join(VERIF, 'seeded', sid)
        patch = os.path.join(d, 'patch.diff')
        if not os.path.exists(patch):
            continue
        meta = json.load(open(os.path.join(d, 'meta.json'))) if os.path.exists(os.path.join(d, 'meta.json')) else {}
        props = [meta.get('property', sid[:3])] + EXTRA.get(sid, [])
        assert not sh(f'git -C {tree} status --porcelain').stdout.strip(), f'{tree} not clean'
        r = sh(f'git -C {tree} apply {patch}')
        if r.returncode != 0:
            rows.append((sid, props[0], 'patch does not apply', ''))
            continue
        res = {}
        try:
            for p in props:
                t0 = time.time()
                pr = sh(f'./check {p}', cwd=VERIF, env=env)
                lines = [l for l in pr.stdout.splitlines() if l.startswith('VIOLATION') or 'failed obligation' in l]
                res[p] = {'exit': pr.returncode, 'seconds': round(time.time() - t0, 1),
                          'first_failed_obligation': next((l for l in lines if 'failed obligation' in l), '')[:300],
                          'first_violation_line': next((l for l in lines if l.startswith('VIOLATION')), '')[:300]}
        finally:
            sh(f'git -C {tree} checkout -- .')
        meta['checks_run'] = res
        meta['caught_by'] = [p for p, v in res.items() if v['exit'] == 1]
        json.dump(meta, open(os.path.join(d, 'meta.json'), 'w'), indent=1)
        for p, v in res.items():
            rows.append((sid, p, {0: 'MISSED (exit 0)', 1: 'caught', 2: 'undecided (exit 2) - miss', 3: 'checker error'}.get(
                v['exit'], str(v['exit'])), v['first_failed_obligation'].split(':', 1)[-1][:110]))
        print(sid, {p: v['exit'] for p, v in res.items()}, flush=True)
    print('\n| change | check | result | first failed obligation |')
    print('|---|---|---|---|')
    for r in rows:
        print(f'| {r[0]} | {r[1]} | {r[2]} | {r[3]} |')


main()
