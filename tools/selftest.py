#!/usr/bin/env python3
"""setup / self-test: byte-compiles the engine and cross-checks the symbolic executor against CPython on
concrete inputs (the stdlib models are trusted; this validates them, it is not evidence for any property)."""
import os
import subprocess
import sys

VERIF = os.path.dirname(os.path.dirname(os.path.abspath(__file__)))
sys.path.insert(0, VERIF)
import compileall  # noqa: E402

ok = compileall.compile_dir(os.path.join(VERIF, 'pyvc'), quiet=1, force=False)
from tools import xcheck  # noqa: E402
bad = xcheck.run(verbose=False)
print('selftest: cross-check mismatches:', bad)
sys.exit(0 if bad == 0 else 3)
