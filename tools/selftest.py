#!/usr/bin/env python3
"""setup / self-test: byte-compiles the engine and cross-checks the symbolic executor against CPython on
concrete inputs (the stdlib models are trusted; this validates them, it is not evidence for any property)."""
import os
import subprocess
import sys

VERIF = os.path.dirname(os.path.dirname(os.path.abspath(__file__)))
sys.path.insert(0, VERIF)
import compileall  # noqa: E402

ok = compileall.compile_dir(os.path.join(VERIF, 'pyvc'), quiet=1, force=False)
from tools import xcheck  # noqa: E402
bad = xcheck.run(verbose=False)
print('selftest: cross-check mismatches:', bad)

# the z3 unsoundness the engine works around (pyvc/path.py: len_lemmas): the raw query is satisfiable (tl = []), z3 5.1.0 /
# 4.8.12 answer unsat; with the length lemma the answer must not be unsat, otherwise the work-around no longer holds
import z3  # noqa: E402
from pyvc.path import len_lemmas  # noqa: E402
TL = z3.Const('tl', z3.SeqSort(z3.StringSort()))
k = z3.Int('k')
e = z3.SubString(TL[k], z3.Length(TL[k]) - 1, 1)
q = [z3.Length(TL) <= 0, z3.Implies(z3.And(k >= 0, k < z3.Length(TL)), z3.Length(e) <= 1)]
raw = z3.Solver()
raw.add(*q)
fixed = z3.Solver()
fixed.add(*q)
fixed.add(*len_lemmas(q))
r_raw, r_fixed = raw.check(), fixed.check()
print(f'selftest: z3 {z3.get_version_string()} on the known-unsound query: raw {r_raw} (correct: sat), with length lemmas '
      f'{r_fixed}')
if r_fixed == z3.unsat:
    bad += 1
sys.exit(0 if bad == 0 else 3)
