#!/usr/bin/env python3
"""False-alarm test: applies each behaviour-preserving refactoring (a directory of bNN.diff files written by a sub-agent
that saw only the repository) to a scratch worktree and runs the checks of the properties anchored in the touched
files.  Every run must exit 0.   usage: benign_matrix.py <patch-dir> <worktree> [ids...]"""
import os
import subprocess
import sys
import time

VERIF = os.path.dirname(os.path.dirname(os.path.abspath(__file__)))
CHECKS = {'b01': ['C01', 'C02', 'C07'], 'b02': ['C01', 'C04', 'C10'], 'b03': ['C10'], 'b04': ['C04', 'C13'],
          'b05': ['C03', 'C13', 'C07'], 'b06': ['C03', 'C13'], 'b07': ['C01', 'C02', 'C12'], 'b08': ['C19', 'C08', 'C12'],
          'b09': ['C14', 'C07'], 'b10': ['C14', 'C07'], 'b11': ['C17', 'C18', 'C19'], 'b12': ['C17', 'C19'],
          'b13': ['C19', 'C20'], 'b14': ['C05', 'C15', 'C16']}


def sh(cmd, **kw):
    return subprocess.run(cmd, shell=True, capture_output=True, text=True, **kw)


def main():
    pdir, wt = sys.argv[1], sys.argv[2]
    ids = sys.argv[3:] or sorted(CHECKS)
    env = dict(os.environ, DZNPY_TREE=wt, PYVC_EVIDENCE_DIR='/tmp/ev-benign')
    bad = 0
    for b in ids:
        assert not sh(f'git -C {wt} status --porcelain').stdout.strip(), 'worktree not clean'
        r = sh(f'git -C {wt} apply {pdir}/{b}.diff')
        if r.returncode != 0:
            print(b, 'does not apply', r.stderr[:200], flush=True)
            continue
        try:
            for p in CHECKS[b]:
                t0 = time.time()
                pr = sh(f'./check {p}', cwd=VERIF, env=env)
                tail = [l for l in pr.stdout.splitlines() if l.startswith('[')][-2:]
                print(b, p, 'exit', pr.returncode, f'{time.time() - t0:.0f}s', '' if pr.returncode == 0 else tail, flush=True)
                bad += pr.returncode != 0
        finally:
            sh(f'git -C {wt} checkout -- .')
    print('non-zero exits:', bad)


main()
