#!/usr/bin/env python3
"""Confirm a seeded change: applies patch in a scratch worktree, runs both test suites and the demo
with and without the change; writes meta.json next to the patch.  usage: confirm_seeded.py <dir> <property> [name]"""
import json, os, re, subprocess, sys, tempfile, shutil

def sh(cmd, cwd=None, env=None, timeout=900):
    p = subprocess.run(cmd, shell=True, cwd=cwd, env=env, capture_output=True, text=True, timeout=timeout)
    return p.returncode, (p.stdout + p.stderr)

def main():
    d, prop = os.path.abspath(sys.argv[1]), sys.argv[2]
    wt = tempfile.mkdtemp(prefix='wt-confirm-', dir='/tmp')
    os.rmdir(wt)
    sh(f'git -C /repo worktree add -q --detach {wt} HEAD')
    meta = {'property': prop, 'base_commit': sh('git -C /repo rev-parse HEAD')[1].strip()}
    try:
        env = dict(os.environ, PYTHONPATH=f'{wt}/src', PYTHONDONTWRITEBYTECODE='1')
        demo = os.path.join(d, 'demo.py')
        rc0, out0 = sh(f'/venv/bin/python {demo} {wt}', cwd=wt, env=env)
        meta['demo_without_change_exit'] = rc0
        rc, out = sh(f'git apply {os.path.abspath(d)}/patch.diff', cwd=wt)
        meta['patch_applies'] = rc == 0
        if rc != 0:
            meta['apply_error'] = out[-500:]
        else:
            rc1, out1 = sh(f'/venv/bin/python {demo} {wt}', cwd=wt, env=env)
            meta['demo_with_change_exit'] = rc1
            meta['demo_with_change_tail'] = out1[-600:]
            _, t1 = sh('/venv/bin/python -m pytest -q -p no:cacheprovider --timeout=900 --continue-on-collection-errors 2>&1 | tail -1', cwd=wt, env=dict(os.environ, PYTHONDONTWRITEBYTECODE='1'))
            _, t2 = sh('/venv/bin/python -m pytest -q -p no:cacheprovider --continue-on-collection-errors 2>&1 | tail -1', cwd=f'{wt}/test', env=dict(os.environ, PYTHONDONTWRITEBYTECODE='1'))
            meta['pinned_suite_with_change'] = t1.strip()
            meta['repo_suite_with_change'] = t2.strip()
            meta['confirmed'] = (rc0 == 0 and rc1 != 0 and '181 passed' in t1 and '276 passed' in t2 and 'failed' not in t1 and 'failed' not in t2)
        notes = os.path.join(d, 'notes.md')
        if os.path.exists(notes):
            meta['needs_to_manifest'] = open(notes).read()[:1500]
        meta['ran'] = ['demo without change', 'git apply patch.diff', 'demo with change', 'pinned pytest command', 'cd test && pytest (imports worktree src)']
    finally:
        sh(f'git -C /repo worktree remove --force {wt}')
        shutil.rmtree(wt, ignore_errors=True)
    json.dump(meta, open(os.path.join(d, 'meta.json'), 'w'), indent=1)
    print(d, 'confirmed' if meta.get('confirmed') else 'NOT CONFIRMED', meta.get('demo_without_change_exit'), meta.get('demo_with_change_exit'), meta.get('pinned_suite_with_change'), meta.get('repo_suite_with_change'))

main()
