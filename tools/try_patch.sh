#!/bin/sh
# usage: tools/try_patch.sh <patch.diff> <prop> [<prop>...]   - applies a seeded change to /repo, runs the checks, reverts
cd /verif || exit 3
patch="$(realpath "$1")"; shift
if [ -n "$(git -C /repo status --porcelain)" ]; then echo "/repo not clean"; exit 3; fi
git -C /repo apply "$patch" || { echo "patch does not apply"; exit 3; }
for p in "$@"; do
  ./check "$p" $TRY_ARGS > /tmp/try_$p.out 2>&1; rc=$?
  echo "== $p exit=$rc"; grep -E "VIOLATION|KNOWN-FINDING|failed obligation|UNDECIDED|unsupported|status=" /tmp/try_$p.out | head -${TRY_LINES:-8}
done
git -C /repo checkout -- . ; git -C /repo status --porcelain | head -3
