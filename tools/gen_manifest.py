#!/usr/bin/env python3
"""Regenerates /verif/MANIFEST.json from the table below (single source of truth for the claims)."""
import json
import os

VERIF = os.path.dirname(os.path.dirname(os.path.abspath(__file__)))
BASE = "cd /repo && /venv/bin/python -m pytest -ra -q -p no:cacheprovider --timeout=900 --continue-on-collection-errors"

COMMON_NOTE = ("Trusted base: the pyvc VC generator itself (symbolic executor of the Python subset, DESIGN.md 2.3-2.7 "
               "and Appendix A), its stdlib models (cross-checked against CPython by tools/selftest.py), the engine "
               "meta-rules for comprehension extensionality and hypothesis instantiation, z3 5.1 / cvc5 1.0.3 / z3 "
               "4.8.12. Types of parameters are preconditions; int is mathematical; recursion depth unbounded. ")

CLAIMS = {
    'C03': dict(
        text="Proof: every obligation generated from the current /repo/src sources of PortSelect / PortsSemanticsCfg "
             "/ PortsCfg (constructors and match, all 4x4 selection kinds, arbitrary string sets of any size, loop "
             "invariant for the set loop) is discharged by z3; a refuted obligation is concretised and replayed on "
             "the real functions.",
        note=COMMON_NOTE + "Model validity: port names non-empty, provides/requires names disjoint. The look-up "
             "sites of create_dzn_elements are covered by the builder-level contracts (see evidence functions list).",
        technique="contract-based deductive verification: VCs from symbolic execution of the real AST, loop "
                  "invariant with ghost `seen`, closed case split over selection kinds, z3 sets/arrays",
        ref='3/C03'),
    'C18': dict(
        text="Proof: Indentizer.__post_init__/to_list/to_str and TextBlock.indent refine the ghost specification "
             "specs/text_gen.py for every list of strings of any length, every spaces_count >= 0 and every glyph "
             "(per-line lemma lifted by comprehension extensionality); to_str carries a `decreases: none` "
             "termination obligation.",
        note=COMMON_NOTE + "str.strip/rstrip/ljust/' '*n are uninterpreted functions with instantiated defining "
             "facts (whitespace set of CPython). requires: spaces_count >= 0; bullet glyph non-empty and not "
             "starting with whitespace. Contents are a flat list of str (nesting is C17).",
        technique="contract-based deductive verification: refinement of an executable ghost specification, "
                  "per-element obligations over symbolic sequences, z3 strings + EUF",
        ref='3/C18'),
}

NA = {
    'C06': "C++ compile/link validity of emitted text is a judgement of the C++ language; no contract on a Python "
           "function can express it and no C++ deductive verifier is installed (DESIGN.md section 5)",
    'C11': "thread-interleaving behaviour of constant C++ text inside Python string literals; contract-based "
           "deductive verification of the Python code has no handle on it (DESIGN.md section 5)",
}


def main():
    props = [json.loads(l)['id'] for l in open(os.path.join(VERIF, 'properties.jsonl'))]
    checks = []
    for pid in props:
        if pid in CLAIMS:
            c = CLAIMS[pid]
            checks.append({
                'property_id': pid,
                'quick_cmd': f'./check {pid} --tier quick',
                'thorough_cmd': f'./check {pid} --tier thorough',
                'evidence_file': f'evidence/{pid}.json',
                'replay_cmd_template': f'./check {pid} --replay {{path}}',
                'engine': 'pyvc',
                'level_claimed': {'category': 'proof', 'text': c['text'], 'design_ref': c['ref']},
                'level_note': c['note'],
                'technique': c['technique'],
            })
    na = []
    for pid in props:
        if pid not in CLAIMS:
            na.append({'property_id': pid, 'reason': NA.get(pid, 'check not built yet (work in progress; see '
                                                                 'DESIGN.md section 7 for the build order)')})
    m = {
        'version': 1,
        'setup_cmd': 'python3-vt -B tools/selftest.py',
        'hooks': {'guard': 'DZNPY_VERIF',
                  'enable': 'none needed - the checks read and symbolically execute /repo/src; nothing is instrumented',
                  'baseline_off_cmd': BASE, 'source_commits': [], 'add_only': True},
        'engines': [{'name': 'pyvc', 'path': 'pyvc/', 'serves_properties': sorted(CLAIMS),
                     'kind_free_text': 'verification-condition generator for the Python subset of dznpy (ast -> '
                                       'symbolic execution -> z3/cvc5), sidecar contracts in props/ and specs/'}],
        'checks': checks,
        'not_applicable': na,
        'notes': 'contract-based deductive verification of the real Python sources; see DESIGN.md. Exit codes: 0 all '
                 'obligations proved, 1 VIOLATION (refuted obligation, replayed), 2 undecided (never on the unchanged '
                 'tree), 3 checker self-test failure.',
    }
    json.dump(m, open(os.path.join(VERIF, 'MANIFEST.json'), 'w'), indent=1)
    print('claimed', sorted(CLAIMS), 'n/a', len(na))


main()
