#!/usr/bin/env python3
"""Regenerates /verif/MANIFEST.json from the table below (single source of truth for the claims)."""
import json
import os

VERIF = os.path.dirname(os.path.dirname(os.path.abspath(__file__)))
BASE = "cd /repo && /venv/bin/python -m pytest -ra -q -p no:cacheprovider --timeout=900 --continue-on-collection-errors"

COMMON_NOTE = ("Trusted base: the pyvc VC generator itself (symbolic executor of the Python subset, DESIGN.md 2.3-2.7 "
               "and Appendix A), its stdlib models (cross-checked against CPython by tools/selftest.py), the engine "
               "meta-rules for comprehension extensionality and hypothesis instantiation, z3 5.1 / cvc5 1.0.3 / z3 "
               "4.8.12 (a z3 unsoundness was found and is worked around, DESIGN.md 8.3; z3's unsat verdicts are "
               "cross-checked with cvc5: 10 % sample in the quick tier, all obligations in the thorough tier). Types of parameters are preconditions; int is mathematical; recursion depth unbounded. ")

GEN_NOTE = (COMMON_NOTE + "BOUND: model/configuration STRUCTURE from the shape corpus specs/shapes.py (<= 3 ports, <= 5 events "
            "per interface, <= 2 parameters per event, the listed configuration kinds incl. rejected ones); every name, "
            "type text, file name, copyright/creator text is an unconstrained symbolic string, so each obligation holds "
            "for all contents of its shape. Trusted: the run-time meaning of each emitted C++ statement kind (idiom table "
            "of DESIGN.md section 3) and the constant C++ text of the support headers; model validity (identifiers, "
            "distinct names per scope, MV-1 no line boundary inside model strings). ")
GEN_TECH = ("contract-based deductive verification: (1) unbounded function contracts - the generator functions that "
            "loop over events / parameters / ports refine plain-Python specifications (specs/wiring_unbounded.py) for any "
            "sizes, callees by their contracts; (2) the composition on a bounded structure corpus: symbolic execution of "
            "the real Builder.build cone with symbolic string contents, generated text compared with the wiring "
            "specification specs/wiring.py; z3 sequences/strings, cvc5 cross-check; native replay of counter-models")
UNB = " Unbounded part (any number of events / parameters / ports, any names; DESIGN.md 8.6): "
PARSER_NOTE = (COMMON_NOTE + "BOUND: document STRUCTURE from specs/docs.py (and, for C15, every single-point malformation of "
               "it); all leaves symbolic. orjson.loads is outside the contract. ")


def gen(text, ref):
    return dict(category='other', text=text, note=GEN_NOTE, technique=GEN_TECH, ref=ref)


CLAIMS = {
    'C01': gen("For every string content of every shape: the constructor body (and the source file) contains exactly one "
               "routing statement per (exposed MTS port, event) - the statement of the wiring relation W rendered by R - "
               "none missing, none extra, none duplicated; boundary members are initialised from the same-named port. "
               "Bounded in structure, unbounded in content: reported as 'other', not as a proof for all models." + UNB + "reroute_in_events, reroute_out_events, reroute_multiclient_out_events, stdref_provides_out_events, stdref_requires_in_events: one handler / reference per event of the right direction, in model order, to the same-named event of the same-named port, parameters in declared order, out/inout by reference.", '3/C01'),
    'C02': gen("Per shape, for all contents: route kind follows the configured semantics; accessor name/type/body/member "
               "are Sts<>/wrapped port resp. Mts<>/boundary member; STS ports get no constructor statement; posted "
               "closures capture exactly the in-parameters by value." + UNB + "reroute_in_events (dzn::shell on the dispatcher, result returned), reroute_out_events (posted, in-parameters copied into the closure), create_cpp_portitf (strict-port type, target object and boundary member by semantics / direction / multi-client, any names and namespace depths).", '3/C02'),
    'C03': dict(category='proof',
                text="Proof: every obligation generated from the current sources of PortSelect / PortsSemanticsCfg / "
                     "PortsCfg (constructors and match, all 4x4 selection kinds, arbitrary string sets of any size, loop "
                     "invariant for the set loop) is discharged by z3. The look-up sites of create_dzn_elements (exposed "
                     "port gets sem(), uncovered/unknown names rejected without files, injected ports never exposed) are "
                     "checked on the generator shape corpus (bounded structure, symbolic content) AND by an unbounded contract of "
                     "create_dzn_elements for a component / system with any number of ports (callees by contract): the "
                     "result lists are exactly specs.wiring_unbounded.exposed_ports, every path returns or raises a "
                     "library error, a port without semantics rejects only if it is exposed and uncovered.",
                note=COMMON_NOTE + "Model validity: port names non-empty, provides/requires names disjoint. The second "
                     "part uses the generator harness (its bound applies to that part only).",
                technique="contract-based deductive verification: VCs from symbolic execution of the real AST, loop "
                          "invariant with ghost `seen`, closed case split over selection kinds, z3 sets/arrays",
                ref='3/C03'),
    'C04': gen("Per shape, for all contents: InitializePort<Port> consists of exactly the claim / release / other-event "
               "statements of W for the events NAMED IN THE CONFIGURATION, the claim compares with the configured reply "
               "and selects only then, multi-client out-events go through CurrentClient(); invalid multi-client settings "
               "are rejected with MultiClientCfgError. The C++ selection state machine itself is trusted text." + UNB + "reroute_multiclient_out_events, initialize_port_impl with its claim / release handlers (any number of in-events and parameters), check_multiclient_cfg (any interface, any settings, any lookup result: the configured events and granting reply or MultiClientCfgError).", '3/C04'),
    'C05': dict(category='other',
                text="(1) Unbounded (DESIGN.md 8.7): for WELL-FORMED typed JSON documents of any size and any nesting of "
                     "namespaces, all 29 element parsers, DznJsonAst.parse_element (recursion by contract, structural "
                     "decrease) and DznJsonAst.process return exactly the declarations of specs/parse_spec.py: one entry "
                     "per declaration incl. nested interface types, source order, fully qualified names, all details; "
                     "unknown classes / non-dict elements skipped. (2) For every leaf content of every document of the "
                     "corpus, process() returns exactly expected(D) (independent second specification). Reported as "
                     "'other' because the typed-JSON model (exact key sets, JSON types per field) is an assumption about "
                     "the input, stated in the evidence.",
                note=PARSER_NOTE + "Well-formedness precondition of part (1): legal direction words, scope names of >= 1 "
                     "identifiers, injected? absent or 'injected', out-event rule, enum/subint items carry their payload. "
                     "Callee by contract: NamespaceTree.fqn_member_name (C14).",
                technique="contract-based deductive verification: refinement of an executable ghost specification on "
                          "typed symbolic JSON (z3 datatypes, recursive through Seq), recursion by contract; plus symbolic "
                          "execution on a bounded document corpus; z3, cvc5 cross-check",
                ref='3/C05'),
    'C07': gen("Per shape, for all names: port interface types and parameter type texts are those of the declaration on "
               "the scope chain of the referring scope (decoys in unrelated namespaces never used); missing, ambiguous, "
               "shadowed-by-another-kind and wrong-kind lookups fail with FindError/MultiClientCfgError. The unbounded "
               "lookup contract itself is C14." + UNB + "the reroute functions type every parameter by ghost.extern_of(type name, interface fqn) - the lookup from the interface's own scope, whose result set is C14's proved contract. create_dzn_elements (any number of ports): every port's interface is ghost.lookup(type name, fqn of the scope the component lives in)[0], exactly one Interface or FindError.", '3/C07'),
    'C08': gen("Per shape: content hash == MD5 hex digest of the UTF-8 contents (opaque pure functions); the files are "
               "identical under different set-iteration oracles (2-safety, quick: 2 orders, thorough: all permutations "
               "of <= 3 elements); no write to module-level state (frame). Native corpus adds runs under different "
               "PYTHONHASHSEED.", '3/C08'),
    'C09': gen("Per shape, both origins: facility members and their order, facility part of the member-initialiser list, "
               "locator parameter/accessor presence, FacilitiesCheck conditions, header declaration order facilities < "
               "wrapped component < boundary ports." + UNB + "create_facilities and create_facilities_check_fn for both origins and any shell name.", '3/C09'),
    'C10': gen("Per shape: FinalConstruct body == FinalConstruct() of every multi-client port, check_bindings() of every "
               "other exposed port and of the wrapped component, parent recorded; plus C01's constructor statements (an "
               "unbound component event makes final construction fail)." + UNB + "create_final_construct_fn for any number of provides / requires ports; create_cpp_portitf (the accessor target that is checked is the object handed out).", '3/C10'),
    'C12': gen("Per shape: no object reachable from the configuration / parsed model and no module-level object is "
               "written during the build (every mutation site is checked by the executor on every path); support files "
               "equal their stand-alone generation.", '3/C12'),
    'C13': gen("Per shape: valid inputs return the 8 files with the specified names; each invalid shape is rejected with "
               "the specified library error type; no builtin/internal exception type escapes on any path." + UNB + "check_multiclient_cfg for any interface / settings / lookup result: a fixture or MultiClientCfgError, never an internal error. create_dzn_elements (any number of ports): returns the exposed ports or raises AdvShellError / MultiClientCfgError / FindError, never an internal error; a missing semantics rejects only for an exposed port.", '3/C13'),
    'C14': dict(category='proof',
                text="Proof, unbounded: NamespaceIds invariant, + / += / str, notation round trips, NamespaceTree.fqn "
                     "(recursion by contract), scope_resolution_order (while-loop invariant, frame), find_fqn == lookup "
                     "and find_any == suffix_search for arbitrary FileContents of any size, get_single_instance / "
                     "has_one_instance for every kind hint.",
                note=COMMON_NOTE + "Trusted law: split(sep.join(L), sep) == L for non-empty L whose elements do not "
                     "contain sep (side conditions proved by the engine). find_any: tail has >= 1 identifier.",
                technique="contract-based deductive verification: refinement of executable ghost specifications, loop "
                          "invariant, comprehension extensionality, exists-atoms, z3 sequences/strings",
                ref='3/C14'),
    'C15': dict(category='other',
                text="(1) Unbounded (DESIGN.md 8.7): for ANY JSON value (null / bool / number / string / list / object of "
                     "arbitrary content, size and nesting) every parser function, DznJsonAst.parse_element (recursion by "
                     "contract) and DznJsonAst.process return or raise DznJsonError / NamespaceIdsTypeError - no path "
                     "ends in another exception; parse_event refuses exactly the out events with a reply value or an "
                     "out parameter (events of any size). (2) Every single-point malformation of the corpus documents (key deleted / value of every other JSON "
                     "kind / class tag changed / ids emptied / non-identifier / junk lists), with symbolic replacement "
                     "contents: process() returns or raises DznJsonError / NamespaceIdsTypeError on every path; out "
                     "events with a reply value or an out parameter are refused.",
                note=PARSER_NOTE + "Part (1): JSON objects are symbolic dicts (key set and values uninterpreted functions "
                     "of the object), a float is represented by one value (the parser only tests types), callees by the "
                     "contract under proof.",
                technique="contract-based deductive verification: only_raises contracts over a generic symbolic JSON "
                          "value (modular, callees by contract, recursion by contract); plus exhaustive single-point "
                          "malformations of a bounded corpus; z3, cvc5 cross-check",
                ref='3/C15'),
    'C16': dict(category='other',
                text="(1) Unbounded (DESIGN.md 8.7): process() on a parser object in an ARBITRARY earlier state (file "
                     "contents of any earlier parse) returns exactly the declarations of the loaded document - "
                     "well-formed documents of any size and nesting, parse_element by the contract proved under C05. "
                     "(2) Per corpus document: processing again gives an equal result, the earlier result and the loaded "
                     "document stay unchanged, other parsers in between have no influence, no module-level state is "
                     "written (frame).",
                note=PARSER_NOTE, technique="contract-based deductive verification: refinement of the document "
                     "specification from an arbitrary initial object state (callee by contract); result-equality and "
                     "frame obligations over symbolic executions of process() on a bounded corpus", ref='3/C16'),
    'C17': dict(category='proof',
                text="Proof for all leaf contents: flatten_to_strlist == flat, TextBlock(...).lines == lines_of, append is "
                     "concatenation, every stored line break-free, str form, round trip, trim_list, chunk - against "
                     "specs/text.py; text blocks and strings are unbounded (any number of lines / any line breaks), the "
                     "NESTING structure of contents and trim lists (<= 4) are enumerated.",
                note=COMMON_NOTE + "Trusted laws of str.splitlines (UF): no line contains a boundary; empty iff no lines; "
                     "splitlines('\\n'.join(L)+'\\n') == L for non-empty break-free L.",
                technique="contract-based deductive verification: refinement of executable ghost specifications, loop "
                          "summarisation, z3 sequences/strings", ref='3/C17'),
    'C18': dict(
        category='proof',
        text="Proof: Indentizer.__post_init__/to_list/to_str and TextBlock.indent refine the ghost specification "
             "specs/text_gen.py for every list of strings of any length, every spaces_count >= 0 and every glyph "
             "(per-line lemma lifted by comprehension extensionality); to_str carries a `decreases: none` "
             "termination obligation.",
        note=COMMON_NOTE + "str.strip/rstrip/ljust/' '*n are uninterpreted functions with instantiated defining "
             "facts (whitespace set of CPython). requires: spaces_count >= 0; bullet glyph non-empty and not "
             "starting with whitespace. Contents are a flat list of str (nesting is C17).",
        technique="contract-based deductive verification: refinement of an executable ghost specification, "
                  "per-element obligations over symbolic sequences, z3 strings + EUF",
        ref='3/C18'),
    'C19': dict(category='proof',
                text="Proof: str(Comment(text)) == comment_text(lines) for ANY text, every rendered line provably starts "
                     "with '//', rendering leaves the object unchanged (frame). In generated files (shape corpus) the "
                     "copyright / creator symbols occur only inside lines proved to be // comment lines.",
                note=COMMON_NOTE + "Part (c) uses the generator harness (bounded structure). How a C++ preprocessor treats "
                     "a trailing backslash in comment text is outside the statement.",
                technique="contract-based deductive verification: per-line lemma over symbolic sequences, frame "
                          "comparison, dependence check on the symbolic output term", ref='3/C19'),
    'C20': dict(category='proof',
                text="Proof for all names / type texts / qualifiers / bodies: as_decl / as_def / __str__ of Param, "
                     "TypeDesc, Function, Constructor, Destructor, Struct, Class, Namespace, MemberVariable refine "
                     "specs/cpp_gen.py (same sub-texts in declaration and definition; defaults and specifiers only on the "
                     "declaration; no definition when initialised; balanced named pairs). Parameter / initialiser lists "
                     "have 0-2 entries (enumerated). 'Accepted by a C++ compiler' is not claimed.",
                note=COMMON_NOTE + "Body texts are arbitrary strings (splitlines laws as in C17).",
                technique="contract-based deductive verification: refinement of executable ghost specifications, closed "
                          "case split over enum/boolean fields, z3 strings", ref='3/C20'),
}

NA = {
    'C06': "C++ compile/link validity of emitted text is a judgement of the C++ language; no contract on a Python "
           "function can express it and no C++ deductive verifier is installed (DESIGN.md section 5)",
    'C11': "thread-interleaving behaviour of constant C++ text inside Python string literals; contract-based "
           "deductive verification of the Python code has no handle on it (DESIGN.md section 5)",
}


def main():
    props = [json.loads(l)['id'] for l in open(os.path.join(VERIF, 'properties.jsonl'))]
    checks = []
    for pid in props:
        if pid in CLAIMS:
            c = CLAIMS[pid]
            checks.append({
                'property_id': pid,
                'quick_cmd': f'./check {pid} --tier quick',
                'thorough_cmd': f'./check {pid} --tier thorough',
                'evidence_file': f'evidence/{pid}.json',
                'replay_cmd_template': f'./check {pid} --replay {{path}}',
                'engine': 'pyvc',
                'level_claimed': {'category': c.get('category', 'proof'), 'text': c['text'], 'design_ref': c['ref']},
                'level_note': c['note'],
                'technique': c['technique'],
            })
    na = []
    for pid in props:
        if pid not in CLAIMS:
            na.append({'property_id': pid, 'reason': NA.get(pid, 'check not built yet (work in progress; see '
                                                                 'DESIGN.md section 7 for the build order)')})
    m = {
        'version': 1,
        'setup_cmd': 'python3-vt -B tools/selftest.py',
        'hooks': {'guard': 'DZNPY_VERIF',
                  'enable': 'none needed - the checks read and symbolically execute /repo/src; nothing is instrumented',
                  'baseline_off_cmd': BASE, 'source_commits': [], 'add_only': True},
        'engines': [{'name': 'pyvc', 'path': 'pyvc/', 'serves_properties': sorted(CLAIMS),
                     'kind_free_text': 'verification-condition generator for the Python subset of dznpy (ast -> '
                                       'symbolic execution -> z3/cvc5), sidecar contracts in props/ and specs/'}],
        'checks': checks,
        'not_applicable': na,
        'notes': 'contract-based deductive verification of the real Python sources; see DESIGN.md. Exit codes: 0 all '
                 'obligations proved, 1 VIOLATION (refuted obligation, replayed), 2 undecided (never on the unchanged '
                 'tree), 3 checker self-test failure.',
    }
    json.dump(m, open(os.path.join(VERIF, 'MANIFEST.json'), 'w'), indent=1)
    print('claimed', sorted(CLAIMS), 'n/a', len(na))


main()
