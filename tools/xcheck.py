"""Encoding cross-check: concrete expressions are evaluated by the symbolic executor (over the ast of /repo/src)
and by CPython importing the same sources; any difference is a checker defect (exit 3), never a verdict."""
import os
import sys
REPO = os.environ.get('DZNPY_TREE', '/repo')
sys.path.insert(0, os.path.dirname(os.path.dirname(os.path.abspath(__file__))))
sys.path.insert(0, os.path.join(REPO, 'src'))
import dznpy
assert os.path.realpath(dznpy.__file__).startswith(os.path.realpath(os.path.join(REPO, 'src'))), dznpy.__file__
from pyvc.interp import Interp, Env
from pyvc.path import Path
from pyvc.values import *
import ast as pyast
I = Interp(os.path.join(REPO, 'src'))
def run_(modname, expr):
    m = I.load_module(modname)
    env = Env(m); env.vars = dict(m.globals)
    p = Path()
    try:
        v = I.eval(pyast.parse(expr, mode='eval').body, env, p)
    except RaiseSignal as rs:
        return ('raise', rs.exc.cls.name)
    return v
import importlib
def native(modname, expr):
    mod = importlib.import_module(modname)
    try: return eval(expr, dict(vars(mod)))
    except Exception as e: return ('raise', type(e).__name__)
def conc(v):
    if isinstance(v, SeqV):
        from pyvc import ops
        assert ops.seq_is_lit(v.term), v
        return [conc(x) for x in ops.seq_lit_items(v.term)]
    if isinstance(v, tuple) and v and v[0]=='raise': return v
    if isinstance(v, tuple): return tuple(conc(x) for x in v)
    return v
tests = [
 ('dznpy.text_gen', "str(TextBlock(['a', 'b\\nc', '', None, [1, 2.5, {'k': 'v\\r\\nw'}]]))"),
 ('dznpy.text_gen', "str(TextBlock(['a', 'b\\nc', '']).indent())"),
 ('dznpy.text_gen', "Indentizer(bullet_list=BulletList()).to_list(['x', '', ' y '])"),
 ('dznpy.text_gen', "Indentizer(spaces_count=2, bullet_list=BulletList(mode=BulletListMode.FIRST_ONLY, glyph='-->')).to_list(['x', '', ' y '])"),
 ('dznpy.text_gen', "Indentizer(indentor=Indentor.TAB, bullet_list=BulletList()).to_str(['x', '', ' y '])"),
 ('dznpy.text_gen', "str(chunk(['a', None, ['b']]))"),
 ('dznpy.text_gen', "chunk([None, '', []])"),
 ('dznpy.text_gen', "str(cond_chunk('pre', [], 'empty'))"),
 ('dznpy.text_gen', "str(cond_chunk('pre', ['x'], 'empty', all_or_nothing=True))"),
 ('dznpy.text_gen', "str(TextBlock(['', 'a', '', '']).trim())"),
 ('dznpy.misc_utils', "trim_list(['', None, 0, 'a', [], ''])"),
 ('dznpy.misc_utils', "plural('box', [1,2])"),
 ('dznpy.misc_utils', "plural('port', [1])"),
 ('dznpy.misc_utils', "plural('', [1])"),
 ('dznpy.scoping', "str(namespaceids_t('a.b.c') + namespaceids_t('d::e'))"),
 ('dznpy.scoping', "namespaceids_t('a.b-c')"),
 ('dznpy.scoping', "[str(x) for x in scope_resolution_order(namespaceids_t('X.Y'), namespaceids_t('a.b.c'))]"),
 ('dznpy.scoping', "str(NamespaceTree(NamespaceTree(NamespaceTree(), namespaceids_t('a')), namespaceids_t('b.c')).fqn_member_name(namespaceids_t('Z')))"),
 ('dznpy.cpp_gen', "str(Comment(['hello', '', '  world \\n x']))"),
 ('dznpy.cpp_gen', "Function(TypeDesc(fqn_t('My.Type'), postfix=TypePostfix.REFERENCE), 'Calc', params=[const_param_ref_t(fqn_t('std.string'), 'msg', '\"\"'), param_t(fqn_t('int'), 'n')], cav='const', scope=Struct('S'), contents='return 1;').as_def"),
 ('dznpy.cpp_gen', "Function(TypeDesc(fqn_t('My.Type'), postfix=TypePostfix.REFERENCE), 'Calc', params=[const_param_ref_t(fqn_t('std.string'), 'msg', '\"\"'), param_t(fqn_t('int'), 'n')], cav='const', scope=Struct('S'), contents='return 1;').as_decl"),
 ('dznpy.cpp_gen', "Constructor(Struct('S'), explicit=True, params=[param_t(fqn_t('int'), 'n', '3')], member_initlist=['a(1)', 'b(2)'], contents='x;').as_def"),
 ('dznpy.cpp_gen', "Constructor(Struct('S'), explicit=True, params=[param_t(fqn_t('int'), 'n', '3')]).as_decl"),
 ('dznpy.cpp_gen', "str(Namespace(ns_ids_t('A.B'), TextBlock('x')))"),
 ('dznpy.cpp_gen', "str(Namespace(ns_ids_t([])))"),
 ('dznpy.cpp_gen', "str(Class('K', TextBlock(['a','b'])))"),
 ('dznpy.cpp_gen', "str(AccessSpecifiedSection(AccessSpecifier.PRIVATE, TextBlock(['a','','b'])))"),
 ('dznpy.cpp_gen', "str(SystemIncludes(['a','b']))"),
 ('dznpy.cpp_gen', "str(Param(TypeDesc(fqn_t('int')), 'x'))"),
 ('dznpy.adv_shell.port_selection', "str(PortsCfg(PortsSemanticsCfg(PortSelect(PortWildcard.NONE), PortSelect(PortWildcard.ALL)), PortsSemanticsCfg(PortSelect({'a'}), PortSelect(PortWildcard.REMAINING)), MultiClientPortCfg('p','c',NamespaceIds(['Ok']),'r')))"),
 ('dznpy.adv_shell.port_selection', "PortsSemanticsCfg(PortSelect({'a','b'}), PortSelect({'b'}))"),
 ('dznpy.adv_shell.port_selection', "sorted(PortsSemanticsCfg(PortSelect({'a'}), PortSelect(PortWildcard.REMAINING)).match({'a','c'}, 'x').items(), key=None) if False else PortsSemanticsCfg(PortSelect({'a'}), PortSelect(PortWildcard.REMAINING)).match({'a'}, 'x')['a'].value"),
 ('dznpy.text_gen', "GeneratedContent('f','abc').filename"),
]


def run(verbose=True):
    bad = 0
    for mod, e in tests:
        a = conc(run_(mod, e)); b = native(mod, e)
        if a != b:
            bad += 1
            print('MISMATCH', e, '\n  interp:', repr(a), '\n  native:', repr(b))
    if verbose:
        print('done', len(tests), 'bad', bad)
    return bad


if __name__ == '__main__':
    sys.exit(0 if run() == 0 else 3)
