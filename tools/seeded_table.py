#!/usr/bin/env python3
"""Prints the table of DESIGN.md section 9 from seeded/*/meta.json (written by tools/seeded_matrix.py) and, with --write,
replaces the text between the SEEDED-TABLE markers of DESIGN.md."""
import json
import os
import re
import sys

VERIF = os.path.dirname(os.path.dirname(os.path.abspath(__file__)))
NAMES = {0: 'MISSED (exit 0)', 1: 'caught', 2: 'undecided (exit 2) - miss', 3: 'checker error'}
rows = ['| change | check | result | seconds | first failed obligation |', '|---|---|---|---|---|']
for sid in sorted(os.listdir(os.path.join(VERIF, 'seeded'))):
    mp = os.path.join(VERIF, 'seeded', sid, 'meta.json')
    if not os.path.exists(mp):
        continue
    meta = json.load(open(mp))
    for p, v in (meta.get('checks_run') or {}).items():
        ob = v.get('first_failed_obligation', '').split(':', 1)[-1].strip()[:120].replace('|', '/')
        rows.append(f"| {sid} | {p} | {NAMES.get(v['exit'], v['exit'])} | {v.get('seconds', '')} | {ob} |")
table = '\n'.join(rows)
if '--write' in sys.argv:
    p = os.path.join(VERIF, 'DESIGN.md')
    s = open(p).read()
    if 'SEEDED_TABLE' in s:
        s = s.replace('SEEDED_TABLE', '<!-- SEEDED-TABLE-BEGIN -->\n' + table + '\n<!-- SEEDED-TABLE-END -->')
    else:
        s = re.sub(r'<!-- SEEDED-TABLE-BEGIN -->.*?<!-- SEEDED-TABLE-END -->',
                   lambda m: '<!-- SEEDED-TABLE-BEGIN -->\n' + table + '\n<!-- SEEDED-TABLE-END -->', s, flags=re.S)
    open(p, 'w').write(s)
else:
    print(table)
