#!/usr/bin/env python3
"""usage: try_edit.py <file under /repo> <old> <new> <prop>...  : one textual edit, run checks, revert"""
import subprocess, sys
f, old, new, props = sys.argv[1], sys.argv[2], sys.argv[3], sys.argv[4:]
path = '/repo/' + f
assert not subprocess.run('git -C /repo status --porcelain', shell=True, capture_output=True, text=True).stdout.strip(), '/repo not clean'
s = open(path).read()
assert s.count(old) == 1, f'{s.count(old)} occurrences'
open(path, 'w').write(s.replace(old, new))
try:
    for p in props:
        r = subprocess.run(['./check', p], cwd='/verif', capture_output=True, text=True)
        lines = [l for l in r.stdout.splitlines() if any(k in l for k in ('VIOLATION', 'KNOWN', 'failed obligation', 'UNDECIDED', 'unsupported', 'status=', 'ERROR'))]
        print(f'== {p} exit={r.returncode}')
        print('\n'.join(lines[:8]))
        if r.returncode not in (0, 1, 2):
            print(r.stderr[-1500:])
finally:
    subprocess.run('git -C /repo checkout -- .', shell=True)
