"""Contract harness: obligations, discharge (z3 first, cvc5 / old z3 binary on what z3 leaves open),
verdicts, counter-models."""
from __future__ import annotations

import os
import subprocess
import tempfile
import time

import z3

from .path import Path, STATS
from .values import Unsupported, Infeasible, RaiseSignal

PROVED, REFUTED, UNDECIDED, ERROR = 'proved', 'refuted', 'undecided', 'error'


class Obligation:
    def __init__(self, oid, kind, function, text=''):
        self.id = oid
        self.kind = kind            # ensures | raises | safety | inv-init | inv-preserve | frame | lemma | vacuity ...
        self.function = function    # qualified name of the function under contract ('' for lemmas)
        self.text = text
        self.status = None
        self.backend = None
        self.seconds = 0.0
        self.model = None           # dict name -> value (string form)
        self.detail = ''
        self.replay = None          # concrete witness for replay (python structure)
        self.smt_size = 0

    def as_dict(self):
        d = {'id': self.id, 'kind': self.kind, 'function': self.function, 'status': self.status,
             'backend': self.backend, 'seconds': round(self.seconds, 4)}
        if self.text:
            d['text'] = self.text
        if self.detail:
            d['detail'] = self.detail[:600]
        if self.model:
            d['model'] = self.model
        if self.smt_size:
            d['smt_chars'] = self.smt_size
        return d


class Ctx:
    """One verification run for one property."""

    def __init__(self, prop, interp, tier='quick', seed=0):
        self.prop, self.interp, self.tier, self.seed = prop, interp, tier, seed
        self.obligations = []
        self.functions = {}       # qualname -> status 'proved'|'inlined'|'assumed'|'bounded'
        self.trusted = []
        self.assumptions = []
        self.timeout_ms = 10000 if tier == 'quick' else 60000
        self.backends = {'z3': 0, 'cvc5': 0, 'z3-4.8.12': 0, 'syntactic': 0}
        self.backend_s = {'z3': 0.0, 'cvc5': 0.0, 'z3-4.8.12': 0.0}
        self.notes = []
        self.cross_checked = 0

    # ---- obligations ---------------------------------------------------------------------------------
    def new(self, oid, kind, function, text=''):
        o = Obligation(f'{self.prop}:{oid}', kind, function, text)
        self.obligations.append(o)
        return o

    def settle(self, o, status, backend='syntactic', detail='', model=None):
        o.status, o.backend, o.detail, o.model = status, backend, detail, model
        if status in (PROVED, REFUTED):
            self.backends[backend] = self.backends.get(backend, 0) + 1
        return o

    def prove(self, oid, kind, function, path: Path, goal, text='', extra_index=(), witness=None):
        """Obligation  pc(path) => goal.  `witness(model)` concretises a counter-model for native replay."""
        o = self.new(oid, kind, function, text)
        o._witness = witness
        if goal is True:
            return self.settle(o, PROVED)
        if goal is False:
            goal = z3.BoolVal(False)
        for t in extra_index:
            path.add_index(t)
        t0 = time.time()
        neg = z3.Not(goal)
        path.timeout_ms = self.timeout_ms
        path._solver = None
        try:
            r = path.check(neg)
        except z3.Z3Exception as e:
            o.seconds = time.time() - t0
            return self.settle(o, ERROR, 'z3', f'z3 exception: {e}')
        o.seconds = time.time() - t0
        self.backend_s['z3'] += o.seconds
        try:
            o.smt_size = len(path._solver.sexpr())
        except Exception:
            pass
        if r == z3.unsat:
            return self.settle(o, PROVED, 'z3')
        if r == z3.sat:
            m = path.model(neg)
            if witness is not None and m is not None:
                try:
                    o.replay = witness(m)
                except Exception as e:  # noqa
                    o.replay = None
                    o.detail = f'witness extraction failed: {type(e).__name__}: {e}'
            return self.settle(o, REFUTED, 'z3', model=model_to_dict(m), detail='counter-model found')
        # unknown: second opinion
        r2, be, secs, txt = self.second_opinion(path, neg)
        o.seconds += secs
        if r2 == 'unsat':
            return self.settle(o, PROVED, be)
        if r2 == 'sat':
            return self.settle(o, REFUTED, be, detail='counter-model found by second solver\n' + txt[:400])
        return self.settle(o, UNDECIDED, 'z3', detail=f'z3: unknown ({path._solver.reason_unknown()}); '
                                                       f'second solver: {r2}')

    def second_opinion(self, path, neg):
        s = z3.Solver()
        for f in path._solver.assertions():
            s.add(f)
        s.add(neg)
        smt = s.to_smt2()
        res = ('unknown', 'none', 0.0, '')
        for (name, cmd) in (('cvc5', ['/usr/bin/cvc5', '--strings-exp', f'--tlimit={self.timeout_ms}']),
                            ('z3-4.8.12', ['/usr/bin/z3', f'-T:{max(1, self.timeout_ms // 1000)}'])):
            with tempfile.NamedTemporaryFile('w', suffix='.smt2', delete=False) as f:
                f.write(smt)
                fn = f.name
            t0 = time.time()
            try:
                p = subprocess.run(cmd + [fn], capture_output=True, text=True, timeout=self.timeout_ms / 1000 + 10)
                out = p.stdout.strip().splitlines()
                verdict = out[0].strip() if out else 'unknown'
            except Exception as e:
                verdict, out = 'unknown', [str(e)]
            finally:
                os.unlink(fn)
            secs = time.time() - t0
            self.backend_s[name] = self.backend_s.get(name, 0.0) + secs
            if verdict in ('sat', 'unsat'):
                return (verdict, name, secs, '\n'.join(out))
            res = (verdict if verdict in ('unknown', 'timeout') else 'unknown', name, secs, '\n'.join(out)[:300])
        return res

    def expect_refuted(self, oid, function, path, goal, text=''):
        """Canary: a deliberately false statement must be refuted, otherwise the engine is vacuous."""
        o = self.new(oid, 'canary', function, text)
        path._solver = None
        path.timeout_ms = self.timeout_ms
        r = path.check(z3.Not(goal)) if goal is not True else z3.unsat
        if r == z3.sat:
            return self.settle(o, PROVED, 'z3', detail='canary refuted as required')
        return self.settle(o, ERROR, 'z3', detail=f'canary NOT refuted ({r}) - engine vacuous?')

    def check_sat(self, oid, function, path, text=''):
        """Vacuity guard: the assumptions of a contract must be satisfiable."""
        o = self.new(oid, 'vacuity', function, text)
        path._solver = None
        r = path.check()
        if r == z3.sat:
            return self.settle(o, PROVED, 'z3', detail='precondition satisfiable')
        if r == z3.unsat:
            return self.settle(o, ERROR, 'z3', detail='precondition UNSATISFIABLE - contract vacuous')
        return self.settle(o, UNDECIDED, 'z3', detail='precondition satisfiability unknown')

    # ---- summary ------------------------------------------------------------------------------------------
    def counts(self):
        c = {PROVED: 0, REFUTED: 0, UNDECIDED: 0, ERROR: 0}
        for o in self.obligations:
            c[o.status] = c.get(o.status, 0) + 1
        return c


def model_to_dict(m, limit=40):
    if m is None:
        return None
    res = {}
    for d in m.decls()[:200]:
        name = d.name()
        if '!' in name and not name.startswith(('in_', 'arg')):
            # engine-internal symbol; keep a few for diagnosis
            if len(res) > limit:
                continue
        try:
            res[name] = str(m[d])[:200]
        except Exception:
            pass
        if len(res) >= limit * 2:
            break
    return res


def eval_model(m, e, default=None):
    try:
        return m.eval(e, model_completion=True)
    except Exception:
        return default


def zstr_value(m, e):
    v = eval_model(m, e)
    if v is None:
        return None
    if z3.is_string_value(v):
        from .ops import _unescape
        return _unescape(v.as_string())
    return None


def strings_in_model(m):
    """every string literal occurring in the model (candidates for set members)"""
    out = set()
    seen = set()

    def walk(e):
        if e.get_id() in seen:
            return
        seen.add(e.get_id())
        if z3.is_string_value(e):
            from .ops import _unescape
            out.add(_unescape(e.as_string()))
        for c in e.children():
            walk(c)
        if z3.is_quantifier(e):
            walk(e.body())
    for d in m.decls():
        v = m[d]
        if isinstance(v, z3.FuncInterp):
            for i in range(v.num_entries()):
                en = v.entry(i)
                for k in range(en.num_args()):
                    walk(en.arg_value(k))
                walk(en.value())
            walk(v.else_value())
        elif z3.is_expr(v):
            walk(v)
    return out


def set_value(m, s, extra=('a', 'b', 'c')):
    """python list of the members of a z3 string set under model m (over the literals of the model + a few extras)"""
    uni = sorted(strings_in_model(m) | set(extra))
    return set_members(m, s, uni)


def set_members(m, s, universe):
    """members of a z3 string set in model m, restricted to a finite candidate universe"""
    res = []
    for u in universe:
        b = eval_model(m, z3.IsMember(z3.StringVal(u), s))
        if b is not None and z3.is_true(b):
            res.append(u)
    return res
