"""Contract harness: obligations, discharge (z3 first, cvc5 / old z3 binary on what z3 leaves open),
verdicts, counter-models."""
from __future__ import annotations

import os
import subprocess
import tempfile
import time

import z3

from .path import Path, STATS
from .values import Unsupported, Infeasible, RaiseSignal, FrameViolation

PROVED, REFUTED, UNDECIDED, ERROR = 'proved', 'refuted', 'undecided', 'error'


class Obligation:
    def __init__(self, oid, kind, function, text=''):
        self.id = oid
        self.kind = kind            # ensures | raises | safety | inv-init | inv-preserve | frame | lemma | vacuity ...
        self.function = function    # qualified name of the function under contract ('' for lemmas)
        self.text = text
        self.status = None
        self.backend = None
        self.seconds = 0.0
        self.model = None           # dict name -> value (string form)
        self.detail = ''
        self.replay = None          # concrete witness for replay (python structure)
        self.smt_size = 0

    def as_dict(self):
        d = {'id': self.id, 'kind': self.kind, 'function': self.function, 'status': self.status,
             'backend': self.backend, 'seconds': round(self.seconds, 4)}
        if self.text:
            d['text'] = self.text
        if self.detail:
            d['detail'] = self.detail[:600]
        if self.model:
            d['model'] = self.model
        if self.smt_size:
            d['smt_chars'] = self.smt_size
        return d


class Ctx:
    """One verification run for one property."""

    def __init__(self, prop, interp, tier='quick', seed=0):
        self.prop, self.interp, self.tier, self.seed = prop, interp, tier, seed
        self.obligations = []
        self.functions = {}       # qualname -> status 'proved'|'inlined'|'assumed'|'bounded'
        self.trusted = []
        self.assumptions = []
        self.xcheck = {}          # verdicts of the cvc5 cross-check of z3 `unsat` answers
        self.timeout_ms = 10000 if tier == 'quick' else 60000
        self.backends = {'z3': 0, 'cvc5': 0, 'z3-4.8.12': 0, 'syntactic': 0}
        self.backend_s = {'z3': 0.0, 'cvc5': 0.0, 'z3-4.8.12': 0.0}
        self.notes = []
        self.cross_checked = 0
        self.queue = []

    # ---- obligations ---------------------------------------------------------------------------------
    def new(self, oid, kind, function, text=''):
        o = Obligation(f'{self.prop}:{oid}', kind, function, text)
        self.obligations.append(o)
        return o

    def settle(self, o, status, backend='syntactic', detail='', model=None):
        o.status, o.backend, o.detail, o.model = status, backend, detail, model
        if status in (PROVED, REFUTED):
            self.backends[backend] = self.backends.get(backend, 0) + 1
        return o

    def prove(self, oid, kind, function, path: Path, goal, text='', extra_index=(), witness=None):
        """Obligation  pc(path) => goal.  `witness(model)` concretises a counter-model for native replay.
        The query is queued; discharge_all() runs all queued queries in forked worker processes (hard
        time limit, crash isolation, 16-way parallel)."""
        o = self.new(oid, kind, function, text)
        o._witness = witness
        if goal is True:
            return self.settle(o, PROVED)
        if goal is False:
            goal = z3.BoolVal(False)
        for t in extra_index:
            path.add_index(t)
        neg = z3.Not(goal)
        path._extra_for_lemmas = [neg]
        path._solver = None
        path._sync()
        assertions = list(path._solver.assertions())
        dump = os.environ.get('PYVC_DUMP')
        if dump and dump in o.id:
            print('=== DUMP', o.id)
            print('GOAL:', goal)
            for a_ in assertions:
                print('  A:', a_)
            print('  hyps:', len(path.hyps), 'index terms:', path.index_terms)
            if os.environ.get('PYVC_DUMP_SMT'):
                s_ = z3.Solver()
                for a_ in assertions:
                    s_.add(a_)
                s_.add(neg)
                open(os.environ['PYVC_DUMP_SMT'], 'w').write(s_.to_smt2())
            raise SystemExit(0)
        o._query = (assertions, neg, 'prove')
        self.queue.append(o)
        return o

    def expect_refuted(self, oid, function, path, goal, text=''):
        """Canary: a deliberately false statement must be refuted, otherwise the engine is vacuous."""
        o = self.new(oid, 'canary', function, text)
        neg = z3.Not(goal) if goal is not True else z3.BoolVal(False)
        path._extra_for_lemmas = [neg]
        path._solver = None
        path._sync()
        o._query = (list(path._solver.assertions()), neg, 'canary')
        o._witness = None
        self.queue.append(o)
        return o

    def check_sat(self, oid, function, path, text=''):
        """Vacuity guard: the assumptions of a contract must be satisfiable."""
        o = self.new(oid, 'vacuity', function, text)
        path._solver = None
        path._sync()
        o._query = (list(path._solver.assertions()), z3.BoolVal(True), 'vacuity')
        o._witness = None
        self.queue.append(o)
        return o

    # ---- discharge ---------------------------------------------------------------------------------------
    def discharge_all(self, workers=None):
        import json as _json
        import select
        import signal
        workers = workers or min(14, (os.cpu_count() or 2))
        pending = list(self.queue)
        self.queue = []
        running = {}     # pid -> (obligation, read_fd, deadline, t0)
        hard = self.timeout_ms / 1000.0 * 3 + 20

        def spawn(o):
            r, w = os.pipe()
            pid = os.fork()
            if pid == 0:
                try:
                    os.close(r)
                    res = self._solve_child(o)
                    os.write(w, _json.dumps(res, default=str).encode())
                except BaseException as e:  # noqa
                    try:
                        os.write(w, _json.dumps({'status': ERROR, 'backend': 'z3',
                                                 'detail': f'{type(e).__name__}: {e}'}).encode())
                    except Exception:
                        pass
                finally:
                    os._exit(0)
            os.close(w)
            running[pid] = (o, r, time.time() + hard, time.time())

        def reap(pid, killed=False):
            o, r, _, t0 = running.pop(pid)
            data = b''
            try:
                while True:
                    chunk = os.read(r, 1 << 16)
                    if not chunk:
                        break
                    data += chunk
            except Exception:
                pass
            os.close(r)
            o.seconds = time.time() - t0
            if killed or not data:
                self.settle(o, UNDECIDED if o._query[2] == 'prove' else ERROR, 'z3',
                            detail='solver process exceeded the hard time limit' if killed else
                            'solver process died without a result')
                return
            res = _json.loads(data.decode())
            o.replay = res.get('replay')
            o.smt_size = res.get('smt_chars', 0)
            for k, v in (res.get('backend_s') or {}).items():
                self.backend_s[k] = self.backend_s.get(k, 0.0) + v
            if res.get('xcheck'):
                self.xcheck[res['xcheck']] = self.xcheck.get(res['xcheck'], 0) + 1
            self.settle(o, res['status'], res.get('backend', 'z3'), res.get('detail', ''), res.get('model'))
            if res['status'] != PROVED:
                n_open[0] += 1

        n_open = [0]
        try:
            self._discharge_loop(pending, running, spawn, reap, workers, n_open, signal)
        finally:
            for pid in list(running):
                try:
                    os.kill(pid, signal.SIGKILL)
                    os.waitpid(pid, 0)
                except Exception:
                    pass

    def _discharge_loop(self, pending, running, spawn, reap, workers, n_open, signal):
        while pending or running:
            while pending and len(running) < workers:
                nxt = pending.pop(0)
                # once many obligations are already refuted / open the verdict of the run is settled: later ones are
                # tried with z3 only (no 3 x budget of second opinions per obligation)
                nxt._fast = n_open[0] > 24
                spawn(nxt)
            # wait for any child
            time.sleep(0.005)
            for pid in list(running):
                o, r, deadline, t0 = running[pid]
                try:
                    wpid, st = os.waitpid(pid, os.WNOHANG)
                except ChildProcessError:
                    wpid = pid
                if wpid == pid:
                    reap(pid)
                elif time.time() > deadline:
                    try:
                        os.kill(pid, signal.SIGKILL)
                        os.waitpid(pid, 0)
                    except Exception:
                        pass
                    reap(pid, killed=True)

    def _solve_child(self, o):
        assertions, neg, mode = o._query
        bs = {}
        s = z3.Solver()
        s.set('timeout', int(self.timeout_ms))
        for f in assertions:
            s.add(f)
        s.add(neg)
        from .path import len_lemmas
        for f in len_lemmas(list(assertions) + [neg]):      # workaround for a z3 unsoundness, see pyvc/path.py
            s.add(f)
        t0 = time.time()
        try:
            r = s.check()
        except z3.Z3Exception as e:
            r = z3.unknown
        bs['z3'] = time.time() - t0
        size = 0
        try:
            size = sum(len(f.sexpr()) for f in assertions)
        except Exception:
            pass
        out = {'backend': 'z3', 'backend_s': bs, 'smt_chars': size}
        if mode == 'canary':
            if r == z3.sat:
                return dict(out, status=PROVED, detail='canary refuted as required')
            return dict(out, status=ERROR, detail=f'canary NOT refuted ({r}) - engine vacuous?')
        if mode == 'vacuity':
            if r == z3.sat:
                return dict(out, status=PROVED, detail='precondition satisfiable')
            if r == z3.unsat:
                return dict(out, status=ERROR, detail='precondition UNSATISFIABLE - contract vacuous')
            return dict(out, status=PROVED, backend='z3', detail='satisfiability of the precondition not decided '
                                                              'by the solver (unknown); not unsat')
        if r == z3.unsat:
            # cross-check of the deciding verdict by an independent solver (a z3 unsoundness was found during the build,
            # pyvc/path.py): every obligation in the thorough tier, a deterministic 10 % sample in the quick tier.
            # cvc5 answering `sat` turns the obligation into UNDECIDED (solver disagreement), never into a violation.
            import zlib
            if mode == 'prove' and (self.tier == 'thorough' or zlib.crc32(o.id.encode()) % 10 == 0):
                t1 = time.time()
                v2, txt = self._cvc5_verdict(s.to_smt2(), 4)
                bs['cvc5-xcheck'] = time.time() - t1
                out['xcheck'] = v2
                if v2 == 'sat':
                    return dict(out, status=UNDECIDED, detail='SOLVER DISAGREEMENT: z3 unsat, cvc5 sat\n' + txt[:300])
            return dict(out, status=PROVED)
        if r == z3.sat:
            m = s.model()
            rep = None
            detail = 'counter-model found'
            if o._witness is not None:
                try:
                    rep = o._witness(m)
                except Exception as e:  # noqa
                    detail = f'counter-model found; witness extraction failed: {type(e).__name__}: {e}'
            return dict(out, status=REFUTED, model=model_to_dict(m), replay=rep, detail=detail)
        reason = ''
        try:
            reason = s.reason_unknown()
        except Exception:
            pass
        if getattr(o, '_fast', False):
            return dict(out, status=UNDECIDED, detail=f'z3: unknown ({reason}); second solvers skipped (many open '
                                                      f'obligations already)')
        smt = s.to_smt2()
        r2, be, secs, txt = self.second_opinion_smt(smt)
        bs[be] = bs.get(be, 0.0) + secs
        if r2 == 'unsat':
            return dict(out, status=PROVED, backend=be)
        if r2 == 'sat':
            return dict(out, status=REFUTED, backend=be, detail='counter-model found by second solver\n' + txt[:400])
        return dict(out, status=UNDECIDED, detail=f'z3: unknown ({reason}); second solver: {r2}')

    def _cvc5_verdict(self, smt, seconds):
        with tempfile.NamedTemporaryFile('w', suffix='.smt2', delete=False) as f:
            f.write('(set-logic ALL)\n' + smt)
            fn = f.name
        try:
            p = subprocess.run(['/usr/bin/cvc5', '--strings-exp', f'--tlimit={seconds * 1000}', fn], capture_output=True,
                               text=True, timeout=seconds + 5)
            out = p.stdout.strip().splitlines()
            v = out[0].strip() if out else 'unknown'
            return (v if v in ('sat', 'unsat') else 'unknown'), '\n'.join(out)
        except Exception as e:  # noqa
            return 'unknown', str(e)
        finally:
            os.unlink(fn)

    def second_opinion_smt(self, smt):
        res = ('unknown', 'none', 0.0, '')
        for (name, cmd) in (('cvc5', ['/usr/bin/cvc5', '--strings-exp', f'--tlimit={self.timeout_ms}']),
                            ('z3-4.8.12', ['/usr/bin/z3', f'-T:{max(1, self.timeout_ms // 1000)}'])):
            with tempfile.NamedTemporaryFile('w', suffix='.smt2', delete=False) as f:
                f.write(smt)
                fn = f.name
            t0 = time.time()
            try:
                p = subprocess.run(cmd + [fn], capture_output=True, text=True, timeout=self.timeout_ms / 1000 + 10)
                out = p.stdout.strip().splitlines()
                verdict = out[0].strip() if out else 'unknown'
            except Exception as e:
                verdict, out = 'unknown', [str(e)]
            finally:
                os.unlink(fn)
            secs = time.time() - t0
            if verdict in ('sat', 'unsat'):
                return (verdict, name, secs, '\n'.join(out))
            res = (verdict if verdict in ('unknown', 'timeout') else 'unknown', name, secs, '\n'.join(out)[:300])
        return res

    # ---- summary ------------------------------------------------------------------------------------------
    def counts(self):
        c = {PROVED: 0, REFUTED: 0, UNDECIDED: 0, ERROR: 0}
        for o in self.obligations:
            c[o.status] = c.get(o.status, 0) + 1
        return c


def refines(ctx, oid, function, impl, spec, make_args, witness=None, max_paths=4000, text=''):
    """Obligations for  `impl` refines `spec`  (both callables(interp, path, args, kwargs)):
    on every jointly feasible pair of paths the outcome kinds agree, returned values are equal
    (compare.equal), raised exception classes agree.

    make_args(path) -> (impl_args, spec_args)  builds the symbolic inputs (and assumes the precondition)."""
    from .compare import equal, Mismatch
    from .interp import TerminationViolation
    from .path import explore
    interp = ctx.interp
    n_obl = 0

    def run_impl(p):
        ia, sa = make_args(p)
        p.spec_args = sa
        p.impl_args = ia
        try:
            return ('return', impl(interp, p, list(ia), {}))
        except RaiseSignal as rs:
            return ('raise', rs.exc)
        except TerminationViolation as tv:
            return ('diverge', tv)
        except FrameViolation as fv:
            return ('frame', fv)

    results = explore(Path(timeout_ms=4000), run_impl, max_paths)
    for i, (p, (kind, val)) in enumerate(results):
        w = (lambda m, p=p: witness(m, p.impl_args)) if witness else None
        if kind == 'diverge':
            ctx.prove(f'{oid}:path{i}:decreases', 'decreases', function, p, False,
                      f'termination: {val}', witness=w)
            continue
        if kind == 'frame':
            ctx.prove(f'{oid}:path{i}:frame', 'frame', function, p, False,
                      f'modifies nothing but its own allocations: {val}', witness=w)
            continue

        def run_spec(q, p=p):
            interp.ghost_depth += 1
            try:
                return ('return', spec(interp, q, list(p.spec_args), {}))
            except RaiseSignal as rs:
                return ('raise', rs.exc)
            finally:
                interp.ghost_depth -= 1

        for j, (q, (skind, sval)) in enumerate(explore(p, run_spec, max_paths)):
            tag = f'{oid}:path{i}.{j}'
            if kind != skind:
                ctx.prove(f'{tag}:outcome', 'raises' if 'raise' in (kind, skind) else 'ensures', function, q, False,
                          f'implementation {kind}s ({_exc_name(val) if kind == "raise" else "normally"}) where the '
                          f'contract says {skind} ({_exc_name(sval) if skind == "raise" else "normal return"})',
                          witness=w)
                continue
            if kind == 'raise':
                if not _same_exc(val, sval):
                    ctx.prove(f'{tag}:raises', 'raises', function, q, False,
                              f'raises {_exc_name(val)} where the contract says {_exc_name(sval)}', witness=w)
                else:
                    o = ctx.new(f'{tag}:raises', 'raises', function, f'raises {_exc_name(val)} as specified')
                    ctx.settle(o, PROVED, 'syntactic')
                continue
            try:
                interp.unify_atoms(q)
                leaves = equal(interp, q, val, sval)
            except Mismatch as mm:
                ctx.prove(f'{tag}:ensures', 'ensures', function, q, False,
                          f'result differs structurally from the specification: {mm}', witness=w)
                continue
            if not leaves:
                o = ctx.new(f'{tag}:ensures', 'ensures', function, text or 'result == specification (syntactically)')
                ctx.settle(o, PROVED, 'syntactic')
            for k, lf in enumerate(leaves):
                ctx.prove(f'{tag}:ensures.{k}', 'ensures', function, lf.path, lf.goal,
                          (text or 'result == specification') + f' @ {lf.where}', witness=w)
    return results


def _exc_name(e):
    try:
        a = e.fields.get('args', ())
        msg = ''
        if a:
            from .ops import canon
            msg = ': ' + (a[0] if isinstance(a[0], str) else canon(a[0]))[:120]
        return e.cls.name + msg
    except Exception:
        return str(e)


def _same_exc(a, b):
    return a.cls is b.cls


import json
import signal


def parallel_jobs(ctx, jobs, run_job, name_of, workers=14, hard_s=None):
    """one forked worker per job: obligation generation and discharge in the child; results come back as JSON"""
    pending = list(jobs)
    running = {}
    results = []

    def spawn(sh):
        r, w = os.pipe()
        pid = os.fork()
        if pid == 0:
            try:
                os.close(r)
                sub = Ctx(ctx.prop, ctx.interp, ctx.tier, ctx.seed)
                sub.timeout_ms = ctx.timeout_ms
                status, msg = 'ok', ''
                t0 = time.time()
                try:
                    run_job(sub, sh)
                    sub.discharge_all(workers=2)
                except Unsupported as e:
                    status, msg = 'undecided', f'{name_of(sh)}: unsupported construct / drift: {e}'
                out = {'status': status, 'message': msg, 'seconds': time.time() - t0,
                       'backends': sub.backends, 'backend_s': sub.backend_s,
                       'obligations': [dict(o.as_dict(), replay=getattr(o, 'replay', None)) for o in sub.obligations]}
                data = json.dumps(out, default=str).encode()
                os.write(w, data)
            except BaseException as e:  # noqa
                import traceback
                try:
                    os.write(w, json.dumps({'status': 'crash', 'message': f'{name_of(sh)}: {type(e).__name__}: {e}\n' +
                                            traceback.format_exc()[-1500:], 'obligations': []}).encode())
                except Exception:
                    pass
            finally:
                os._exit(0)
        os.close(w)
        running[pid] = (sh, r, time.time() + hard_s, b'')

    import select
    hard_s = hard_s or (600 if ctx.tier == 'quick' else 3000)
    try:
      while pending or running:
          while pending and len(running) < workers:
              spawn(pending.pop(0))
          fds = {r: pid for pid, (sh, r, dl, buf) in running.items()}
          ready, _, _ = select.select(list(fds), [], [], 0.5)
          for fd in ready:
              pid = fds[fd]
              sh, r, dl, buf = running[pid]
              chunk = os.read(r, 1 << 20)
              if chunk:
                  running[pid] = (sh, r, dl, buf + chunk)
              else:
                  os.close(r)
                  try:
                      os.waitpid(pid, 0)
                  except Exception:
                      pass
                  del running[pid]
                  try:
                      results.append((sh, json.loads(buf.decode())))
                  except Exception:
                      results.append((sh, {'status': 'crash', 'message': f'{name_of(sh)}: worker died', 'obligations': []}))
          for pid in list(running):
              sh, r, dl, buf = running[pid]
              if time.time() > dl:
                  try:
                      os.kill(pid, signal.SIGKILL)
                      os.waitpid(pid, 0)
                  except Exception:
                      pass
                  os.close(r)
                  del running[pid]
                  results.append((sh, {'status': 'undecided', 'message': f'{name_of(sh)}: time limit', 'obligations': []}))
    finally:
        for pid in list(running):
            try:
                os.kill(pid, signal.SIGKILL)
                os.waitpid(pid, 0)
            except Exception:
                pass
    # merge
    worst = 'ok'
    msgs = []
    for sh, res in results:
        for od in res.get('obligations', []):
            o = Obligation(od['id'], od['kind'], od['function'], od.get('text', ''))
            o.status, o.backend, o.seconds = od['status'], od.get('backend'), od.get('seconds', 0.0)
            o.detail, o.model, o.replay = od.get('detail', ''), od.get('model'), od.get('replay')
            o.smt_size = od.get('smt_chars', 0)
            ctx.obligations.append(o)
            if o.status in (PROVED, REFUTED) and o.backend:
                ctx.backends[o.backend] = ctx.backends.get(o.backend, 0) + 1
        for k, v in (res.get('backend_s') or {}).items():
            ctx.backend_s[k] = ctx.backend_s.get(k, 0.0) + v
        if res.get('status') == 'crash':
            worst = 'crash'
            msgs.append(res.get('message', ''))
        elif res.get('status') == 'undecided' and worst != 'crash':
            worst = 'undecided'
            msgs.append(res.get('message', ''))
    return worst, '; '.join(m for m in msgs if m)[:1500]




def model_to_dict(m, limit=40):
    if m is None:
        return None
    res = {}
    for d in m.decls()[:200]:
        name = d.name()
        if '!' in name and not name.startswith(('in_', 'arg')):
            # engine-internal symbol; keep a few for diagnosis
            if len(res) > limit:
                continue
        try:
            res[name] = str(m[d])[:200]
        except Exception:
            pass
        if len(res) >= limit * 2:
            break
    return res


def eval_model(m, e, default=None):
    try:
        return m.eval(e, model_completion=True)
    except Exception:
        return default


def zstr_value(m, e):
    v = eval_model(m, e)
    if v is None:
        return None
    if z3.is_string_value(v):
        from .ops import _unescape
        return _unescape(v.as_string())
    return None


def strings_in_model(m):
    """every string literal occurring in the model (candidates for set members)"""
    out = set()
    seen = set()

    def walk(e):
        if e.get_id() in seen:
            return
        seen.add(e.get_id())
        if z3.is_string_value(e):
            from .ops import _unescape
            out.add(_unescape(e.as_string()))
        for c in e.children():
            walk(c)
        if z3.is_quantifier(e):
            walk(e.body())
    for d in m.decls():
        v = m[d]
        if isinstance(v, z3.FuncInterp):
            for i in range(v.num_entries()):
                en = v.entry(i)
                for k in range(en.num_args()):
                    walk(en.arg_value(k))
                walk(en.value())
            walk(v.else_value())
        elif z3.is_expr(v):
            walk(v)
    return out


def set_value(m, s, extra=('a', 'b', 'c')):
    """python list of the members of a z3 string set under model m (over the literals of the model + a few extras)"""
    uni = sorted(strings_in_model(m) | set(extra))
    return set_members(m, s, uni)


def set_members(m, s, universe):
    """members of a z3 string set in model m, restricted to a finite candidate universe"""
    res = []
    for u in universe:
        b = eval_model(m, z3.IsMember(z3.StringVal(u), s))
        if b is not None and z3.is_true(b):
            res.append(u)
    return res
