"""Equality of executor values as proof obligations (DESIGN 2.5: the engine, not the solver, owns sequence
extensionality).  `equal(interp, path, a, b)` returns a list of Leaf(path, goal, where) - all of them
must be proved - or raises Mismatch when the two values differ structurally."""
from __future__ import annotations

import z3

from . import ops
from .ops import GuardB, mkseq, canon, subst, to_zstr
from .path import fresh_name
from .values import (StrT, JoinT, SeqT, SeqV, LitB, CompB, RangeB, ObjV, DtV, EnumV, SetV, DictV, Unsupported,
                     is_z3)


class Mismatch(Exception):
    pass


class Leaf:
    def __init__(self, path, goal, where):
        self.path, self.goal, self.where = path, goal, where


def equal(interp, path, a, b, where='result'):
    leaves = []
    _eq(interp, path, a, b, where, leaves)
    return leaves


def _eq(interp, path, a, b, where, leaves):
    from .interp import EnumSym, UnionV, OpaqueV
    if isinstance(a, SeqV):
        a = a.term
    if isinstance(b, SeqV):
        b = b.term
    if a is None or b is None:
        if a is None and b is None:
            return
        raise Mismatch(f'{where}: None vs {type(b if a is None else a).__name__}')
    if isinstance(a, (str, StrT)) and isinstance(b, (str, StrT)):
        return _eq_str(interp, path, a, b, where, leaves)
    if isinstance(a, SeqT) and isinstance(b, SeqT):
        return _eq_seq(interp, path, a, b, where, leaves)
    if isinstance(a, tuple) and isinstance(b, tuple):
        if len(a) != len(b):
            raise Mismatch(f'{where}: tuple lengths {len(a)} vs {len(b)}')
        for i, (x, y) in enumerate(zip(a, b)):
            _eq(interp, path, x, y, f'{where}[{i}]', leaves)
        return
    if isinstance(a, (ObjV, DtV)) and isinstance(b, (ObjV, DtV)):
        if a.cls is not b.cls:
            raise Mismatch(f'{where}: class {a.cls.name} vs {b.cls.name}')
        if isinstance(a, DtV) and isinstance(b, DtV):
            if not a.expr.eq(b.expr):
                leaves.append(Leaf(path, a.expr == b.expr, where))
            return
        if isinstance(a, ObjV) and isinstance(b, ObjV):
            keys = list(a.fields.keys())
            if set(keys) != set(b.fields.keys()):
                raise Mismatch(f'{where}: different attribute sets {sorted(a.fields)} vs {sorted(b.fields)}')
            for k in keys:
                _eq(interp, path, a.fields[k], b.fields[k], f'{where}.{k}', leaves)
            return
        for (fname, td) in interp.sorts.fields_of(a.cls):
            _eq(interp, path, interp.getattr_(a, fname, path), interp.getattr_(b, fname, path),
                f'{where}.{fname}', leaves)
        return
    if isinstance(a, DictV) and isinstance(b, DictV):
        if a.dom is None and b.dom is None:
            if list(a.concrete.keys()) != list(b.concrete.keys()):
                raise Mismatch(f'{where}: dict keys differ')
            for k in a.concrete:
                _eq(interp, path, a.concrete[k], b.concrete[k], f'{where}[{k!r}]', leaves)
            return
    r = interp.eq(a, b, path)
    if r is True:
        return
    if r is False:
        raise Mismatch(f'{where}: {_short(a)} != {_short(b)}')
    leaves.append(Leaf(path, r, where))


def _short(v):
    s = repr(v)
    return s if len(s) < 160 else s[:160] + '...'


def _parts(v):
    return [v] if isinstance(v, str) else list(v.parts)


def _prune_empty(interp, path, v):
    """rebuild a string whose Join parts contain comprehension blocks that are provably empty on this path"""
    if not isinstance(v, StrT) or not any(isinstance(p, JoinT) for p in v.parts):
        return v
    out = []
    changed = False
    for p in v.parts:
        if isinstance(p, JoinT) and isinstance(p.sep, str):
            blocks = []
            for blk in p.seq.blocks:
                if isinstance(blk, (CompB, GuardB)):
                    ne = interp.seq_nonempty(SeqT([blk]), path)
                    if ne is False or (ne is not True and path.entails(z3.Not(interp.zbool(ne)))):
                        changed = True
                        continue
                blocks.append(blk)
            t = mkseq(blocks)
            if ops.seq_is_lit(t):
                items = ops.seq_lit_items(t)
                parts = []
                for i, it in enumerate(items):
                    if i:
                        parts.append(p.sep)
                    parts.append(it)
                out.extend(parts)
                changed = True
            else:
                out.append(JoinT(p.sep, t))
        else:
            out.append(p)
    return ops.mkstr(out) if changed else v


def _eq_str(interp, path, a, b, where, leaves):
    if canon(a) == canon(b):
        return
    a, b = _prune_empty(interp, path, a), _prune_empty(interp, path, b)
    if canon(a) == canon(b):
        return
    pa, pb = _parts(a), _parts(b)
    # trim common literal / identical prefix and suffix
    while pa and pb:
        x, y = pa[0], pb[0]
        if isinstance(x, str) and isinstance(y, str):
            n = 0
            while n < min(len(x), len(y)) and x[n] == y[n]:
                n += 1
            if n == 0:
                break
            pa[0], pb[0] = x[n:], y[n:]
            if not pa[0]:
                pa.pop(0)
            if not pb[0]:
                pb.pop(0)
            if n < min(len(x), len(y)):
                break
        elif not isinstance(x, str) and not isinstance(y, str) and canon(x) == canon(y):
            pa.pop(0)
            pb.pop(0)
        else:
            break
    while pa and pb:
        x, y = pa[-1], pb[-1]
        if isinstance(x, str) and isinstance(y, str):
            n = 0
            while n < min(len(x), len(y)) and x[-1 - n] == y[-1 - n]:
                n += 1
            if n == 0:
                break
            pa[-1], pb[-1] = x[:len(x) - n], y[:len(y) - n]
            if not pa[-1]:
                pa.pop()
            if not pb[-1]:
                pb.pop()
            if n < min(len(x), len(y)):
                break
        elif not isinstance(x, str) and not isinstance(y, str) and canon(x) == canon(y):
            pa.pop()
            pb.pop()
        else:
            break
    if not pa and not pb:
        return
    # single Join against single Join: congruence
    if len(pa) == 1 and len(pb) == 1 and isinstance(pa[0], JoinT) and isinstance(pb[0], JoinT):
        _eq(interp, path, pa[0].sep, pb[0].sep, where + '.join-sep', leaves)
        _eq_seq(interp, path, pa[0].seq, pb[0].seq, where + '.join-items', leaves)
        return
    # position-wise congruence when the shapes agree (sufficient, then fall back to the solver)
    if len(pa) == len(pb) and all(type(x) is type(y) or (not isinstance(x, (str, JoinT)) and
                                                         not isinstance(y, (str, JoinT)))
                                  for x, y in zip(pa, pb)) and any(isinstance(x, JoinT) for x in pa):
        for i, (x, y) in enumerate(zip(pa, pb)):
            if isinstance(x, str):
                if x != y:
                    raise Mismatch(f'{where}: literal text differs: {x!r} vs {y!r}')
            elif isinstance(x, JoinT):
                _eq(interp, path, x.sep, y.sep, where + '.join-sep', leaves)
                _eq_seq(interp, path, x.seq, y.seq, where + '.join-items', leaves)
            else:
                if not x.eq(y):
                    leaves.append(Leaf(path, x == y, where))
        return
    za = to_zstr(ops.mkstr(pa)) if pa else z3.StringVal('')
    zb = to_zstr(ops.mkstr(pb)) if pb else z3.StringVal('')
    leaves.append(Leaf(path, za == zb, where))


def _only_lit_guard(t: SeqT):
    for b in t.blocks:
        if isinstance(b, LitB):
            continue
        if isinstance(b, GuardB) and _only_lit_guard(b.body):
            continue
        return False
    return True


def _cases(interp, t: SeqT):
    """[(condition, items)] - the literal item lists a Lit/Guard-only sequence can evaluate to"""
    cases = [(True, [])]
    for b in t.blocks:
        if isinstance(b, LitB):
            cases = [(c, items + list(b.items)) for (c, items) in cases]
        else:
            inner = _cases(interp, b.body)
            new = []
            for (c, items) in cases:
                for (ci, it) in inner:
                    new.append((interp.and_(c, interp.and_(b.cond, ci)), items + it))
                new.append((interp.and_(c, interp.not_(interp.zbool(b.cond))), items))
            cases = new
        if len(cases) > 64:
            raise Unsupported('too many guard combinations in a sequence comparison')
    return cases


def _eq_seq(interp, path, a: SeqT, b: SeqT, where, leaves):
    a, b = mkseq(a.blocks), mkseq(b.blocks)
    if canon(a) == canon(b):
        return
    if a.blocks and b.blocks and not (ops.seq_is_lit(a) and ops.seq_is_lit(b)):
        za, zb = interp.to_zseq(a), interp.to_zseq(b)
        if za is not None and zb is not None and za.sort() == zb.sort():
            leaves.append(Leaf(path, za == zb, where))
            return
    if _only_lit_guard(a) and _only_lit_guard(b) and not (ops.seq_is_lit(a) and ops.seq_is_lit(b)):
        for (ca, ia) in _cases(interp, a):
            for (cb, ib) in _cases(interp, b):
                c = interp.and_(ca, cb)
                if c is False:
                    continue
                sub = path.child()
                sub.binders = path.binders
                if c is not True:
                    if sub.check(c, timeout_ms=sub.feas_timeout_ms) == z3.unsat:
                        continue
                    sub.assume(c)
                if len(ia) != len(ib):
                    leaves.append(Leaf(sub, z3.BoolVal(False), f'{where}: lengths {len(ia)} vs {len(ib)}'))
                    continue
                for k, (x, y) in enumerate(zip(ia, ib)):
                    _eq(interp, sub, x, y, f'{where}[{k}]', leaves)
        return
    ba, bb = list(a.blocks), list(b.blocks)
    # align literal blocks item-wise (a literal block may have to be split)
    i = j = 0
    while i < len(ba) and j < len(bb):
        x, y = ba[i], bb[j]
        if isinstance(x, LitB) and isinstance(y, LitB):
            n = min(len(x.items), len(y.items))
            for k in range(n):
                _eq(interp, path, x.items[k], y.items[k], f'{where}[#{i}.{k}]', leaves)
            if len(x.items) > n:
                ba[i] = LitB(x.items[n:])
                j += 1
            elif len(y.items) > n:
                bb[j] = LitB(y.items[n:])
                i += 1
            else:
                i += 1
                j += 1
            continue
        if isinstance(x, GuardB) and isinstance(y, GuardB):
            cx, cy = interp.zbool(x.cond), interp.zbool(y.cond)
            if not cx.eq(cy):
                leaves.append(Leaf(path, cx == cy, f'{where}[#{i}].guard'))
            sub = path.child()
            sub.assume(cx)
            _eq_seq(interp, sub, x.body, y.body, f'{where}[#{i}]', leaves)
            i += 1
            j += 1
            continue
        if isinstance(x, CompB) and isinstance(y, CompB):
            _eq_comp(interp, path, x, y, f'{where}[#{i}]', leaves)
            i += 1
            j += 1
            continue
        # a guard block against its absence / other shapes: try the solver-expressible form
        break
    else:
        pass
    if i < len(ba) or j < len(bb):
        rest_a, rest_b = SeqT(ba[i:]), SeqT(bb[j:])
        if not rest_a.blocks and not rest_b.blocks:
            return
        # remaining blocks on one side only: they must be empty
        if not rest_a.blocks or not rest_b.blocks:
            rest = rest_a if rest_a.blocks else rest_b
            ne = interp.seq_nonempty(rest, path)
            if ne is True:
                raise Mismatch(f'{where}: one sequence has extra elements: {_short(rest)}')
            if ne is not False:
                leaves.append(Leaf(path, z3.Not(ne), f'{where}.tail-empty'))
            return
        za, zb = interp.to_zseq(rest_a), interp.to_zseq(rest_b)
        if za is not None and zb is not None and za.sort() == zb.sort():
            leaves.append(Leaf(path, za == zb, where))
            return
        raise Mismatch(f'{where}: sequence shapes differ: {_short(rest_a)}  vs  {_short(rest_b)}')


def _eq_comp(interp, path, x: CompB, y: CompB, where, leaves):
    # same base?
    if isinstance(x.base, RangeB) != isinstance(y.base, RangeB):
        raise Mismatch(f'{where}: comprehension bases differ')
    if isinstance(x.base, RangeB):
        for (u, v, n) in ((x.base.lo, y.base.lo, 'lo'), (x.base.hi, y.base.hi, 'hi')):
            r = interp.eq(u, v, path)
            if r is False:
                raise Mismatch(f'{where}: range bounds differ')
            if r is not True:
                leaves.append(Leaf(path, r, f'{where}.range-{n}'))
    else:
        if x.base.sort() != y.base.sort():
            raise Mismatch(f'{where}: comprehension over different element types')
        if not x.base.eq(y.base):
            if z3.simplify(x.base).eq(z3.simplify(y.base)):
                pass
            else:
                leaves.append(Leaf(path, x.base == y.base, f'{where}.base'))
    # common fresh index
    k = z3.Int(fresh_name('e'))
    sub = path.child()
    sub.binders = path.binders + [k]
    sub.assume(ops.in_range(x.base, k))
    sub.add_index(k)
    gx = True if x.guard is True else z3.substitute(x.guard, (x.var, k))
    gy = True if y.guard is True else z3.substitute(y.guard, (y.var, k))
    if (gx is True) != (gy is True) or (gx is not True and not gx.eq(gy)):
        leaves.append(Leaf(sub, interp.zbool(gx) == interp.zbool(gy), f'{where}.filter'))
    sub2 = sub.child()
    sub2.binders = sub.binders
    if gx is not True:
        sub2.assume(gx)
    bx = subst(x.body, [(x.var, k)])
    by = subst(y.body, [(y.var, k)])
    _eq_seq(interp, sub2, bx, by, f'{where}.item', leaves)
