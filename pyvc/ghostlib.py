"""z3 counterparts of specs/ghost.py, installed as overrides in the interpreter."""
import z3

from . import ops
from .values import StrT, Unsupported


def install(interp):
    def all_ws(i, path, args, kw):
        s = args[0]
        if isinstance(s, str):
            return s.strip() == ''
        return ops.all_ws(ops.to_zstr(s), path)

    def no_break(i, path, args, kw):
        s = args[0]
        if isinstance(s, str):
            return not any(c in ops.LINE_BREAKS for c in s)
        return ops.no_break(ops.to_zstr(s), path)

    def is_ident(i, path, args, kw):
        s = args[0]
        if isinstance(s, str):
            import re
            return re.fullmatch('[a-zA-Z_][a-zA-Z0-9_]*', s) is not None
        return ops.is_ident(ops.to_zstr(s), path)

    def implies(i, path, args, kw):
        a, b = (i.truthy(x, path) for x in args)
        return i.or_(i.not_(a), b)

    def prefix(i, path, args, kw):
        from .values import SeqV
        from .sorts import TypeDesc
        lst, k = args
        if not lst.term.blocks:
            return SeqV()
        z = i.to_zseq(lst.term) if lst.term.blocks else None
        if z is None:
            raise Unsupported('ghost prefix() of a non-z3 sequence')
        kk = k if z3.is_expr(k) else z3.IntVal(k)
        td = None
        for b in lst.term.blocks:
            if hasattr(b, 'elem_cls') and b.elem_cls is not None:
                td = b.elem_cls
        return SeqV(i.seq_of_base(ops.subseq(z, z3.IntVal(0), kk), td or TypeDesc('str'), path))

    def extern_of(i, path, args, kw):
        from .values import DtV
        fct, ids, scope = args
        ext = i.load_module('dznpy.ast').globals['Extern']
        f = z3.Function('ghost.extern_of', ids.expr.sort(), scope.expr.sort(), i.sorts.sort_of_class(ext))
        v = DtV(ext, f(ids.expr, scope.expr))
        i.apply_class_invs(v, path)
        return v

    def lookup(i, path, args, kw):
        from .values import SeqV
        from .sorts import TypeDesc
        fct, ids, scope = args
        A = i.load_module('dznpy.ast')
        kinds = [A.globals[n] for n in ('Component', 'Enum', 'Extern', 'Foreign', 'Interface', 'SubInt', 'System')]
        uni = i.make_union('Decl', kinds)
        zi, zs = i.to_z3(ids), i.to_z3(scope)
        if zi is None or zs is None:
            raise Unsupported('ghost lookup() of a name / scope that is not expressible')
        f = z3.Function('ghost.lookup', zi.sort(), zs.sort(), z3.SeqSort(uni['sort']))
        return SeqV(i.seq_of_base(f(zi, zs), TypeDesc('union', uni), path), frozen=True)

    interp.overrides['specs.ghost.lookup'] = lookup
    interp.overrides['specs.ghost.extern_of'] = extern_of
    interp.overrides['specs.ghost.prefix'] = prefix
    for name, f in (('all_ws', all_ws), ('no_break', no_break), ('is_ident', is_ident), ('implies', implies)):
        interp.overrides[f'specs.ghost.{name}'] = f
