"""z3 counterparts of specs/ghost.py, installed as overrides in the interpreter."""
import z3

from . import ops
from .values import StrT, Unsupported


def install(interp):
    def all_ws(i, path, args, kw):
        s = args[0]
        if isinstance(s, str):
            return s.strip() == ''
        return ops.all_ws(ops.to_zstr(s))

    def no_break(i, path, args, kw):
        s = args[0]
        if isinstance(s, str):
            return not any(c in ops.LINE_BREAKS for c in s)
        return ops.no_break(ops.to_zstr(s))

    def is_ident(i, path, args, kw):
        s = args[0]
        if isinstance(s, str):
            import re
            return re.fullmatch('[a-zA-Z_][a-zA-Z0-9_]*', s) is not None
        return ops.is_ident(ops.to_zstr(s))

    def implies(i, path, args, kw):
        a, b = (i.truthy(x, path) for x in args)
        return i.or_(i.not_(a), b)

    for name, f in (('all_ws', all_ws), ('no_break', no_break), ('is_ident', is_ident), ('implies', implies)):
        interp.overrides[f'specs.ghost.{name}'] = f
