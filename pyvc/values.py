"""Value domain of the symbolic executor.

Concrete Python values (str, int, bool, None, float, tuple) are used as they are.  Everything
else is one of the classes below.  Scalar symbolic leaves are z3 expressions (String / Int /
Bool / datatype sorts generated from the repository's dataclasses).
"""
from __future__ import annotations

import itertools
import z3

_oid = itertools.count(1)


class Unsupported(Exception):
    """The code under analysis left the supported subset (-> undecided, exit 2, never a violation)."""


class FrameViolation(Exception):
    """The code mutates an object owned by an (immutable) input or a module-level object."""

    def __init__(self, what, stack):
        super().__init__(f'mutation ({what}) of state owned by an input / module in {stack[-1] if stack else "?"}')
        self.what, self.stack = what, list(stack)


class Atomic:
    """Mixin: deepcopy returns the object itself (immutable / shared program entities)."""

    def __deepcopy__(self, memo):
        return self

    def __copy__(self):
        return self


class ModuleV(Atomic):
    def __init__(self, name, path, tree):
        self.name, self.path, self.tree = name, path, tree
        self.globals = {}
        self.loaded = False
        self.sha256 = None

    def __repr__(self):
        return f'<module {self.name}>'


class ClassV(Atomic):
    def __init__(self, name, module, node, bases):
        self.name, self.module, self.node, self.bases = name, module, node, bases
        self.attrs = {}            # methods (FuncV), properties (PropV), class attributes
        self.is_dataclass = False
        self.frozen = False
        self.fields = []           # [(name, annotation_node, default_spec)] for dataclasses
        self.is_enum = False
        self.members = {}          # enum members name -> EnumV
        self.is_exception = False
        self.builtin_base = None   # e.g. 'Exception', 'TypeError'

    @property
    def qualname(self):
        return f'{self.module.name}.{self.name}' if self.module else self.name

    def mro(self):
        res = [self]
        for b in self.bases:
            for c in (b.mro() if isinstance(b, ClassV) else [b]):
                if c not in res:
                    res.append(c)
        return res

    def lookup(self, name):
        for c in self.mro():
            if isinstance(c, ClassV) and name in c.attrs:
                return c.attrs[name]
        return None

    def is_subclass_of(self, other):
        if other is self:
            return True
        for c in self.mro():
            if c is other:
                return True
            if isinstance(other, BuiltinClass) and isinstance(c, BuiltinClass) and c.is_subclass_of(other):
                return True
        return False

    def __repr__(self):
        return f'<class {self.qualname}>'


class BuiltinClass(Atomic):
    """A builtin type / exception class used by the code (str, list, Exception, TypeError ...)."""
    _reg = {}

    def __init__(self, name, base=None):
        self.name, self.base = name, base

    @classmethod
    def get(cls, name):
        if name not in cls._reg:
            base = _BUILTIN_BASES.get(name)
            cls._reg[name] = BuiltinClass(name, cls.get(base) if base else None)
        return cls._reg[name]

    def is_subclass_of(self, other):
        c = self
        while c is not None:
            if c is other:
                return True
            c = c.base
        return False

    def mro(self):
        res, c = [], self
        while c is not None:
            res.append(c)
            c = c.base
        return res

    @property
    def qualname(self):
        return self.name

    def __repr__(self):
        return f'<builtin class {self.name}>'


_BUILTIN_BASES = {
    'Exception': 'BaseException', 'TypeError': 'Exception', 'ValueError': 'Exception',
    'KeyError': 'LookupError', 'IndexError': 'LookupError', 'LookupError': 'Exception',
    'AttributeError': 'Exception', 'RecursionError': 'RuntimeError', 'RuntimeError': 'Exception',
    'StopIteration': 'Exception', 'AssertionError': 'Exception', 'ZeroDivisionError': 'ArithmeticError',
    'ArithmeticError': 'Exception', 'NotImplementedError': 'RuntimeError',
    'UnicodeError': 'ValueError', 'bool': 'int',
}


class FuncV(Atomic):
    def __init__(self, name, node, module, closure=None, owner=None, kind='function'):
        self.name, self.node, self.module = name, node, module
        self.closure = closure      # Env of the defining activation (nested functions)
        self.owner = owner          # ClassV for methods
        self.kind = kind            # function | staticmethod | classmethod

    @property
    def qualname(self):
        own = f'{self.owner.name}.' if self.owner else ''
        return f'{self.module.name}.{own}{self.name}'

    def __deepcopy__(self, memo):
        # nested functions capture an environment that must follow the copied state
        if self.closure is None:
            return self
        import copy
        res = FuncV(self.name, self.node, self.module, None, self.owner, self.kind)
        memo[id(self)] = res
        res.closure = copy.deepcopy(self.closure, memo)
        return res

    def __repr__(self):
        return f'<function {self.qualname}>'


class PropV(Atomic):
    def __init__(self, fget, fset=None):
        self.fget, self.fset = fget, fset


class BoundMethod:
    def __init__(self, obj, func):
        self.obj, self.func = obj, func

    def __repr__(self):
        return f'<bound {self.func!r} of {self.obj!r}>'


class BuiltinFn(Atomic):
    def __init__(self, name, impl):
        self.name, self.impl = name, impl

    def __repr__(self):
        return f'<builtin {self.name}>'


class EnumV(Atomic):
    def __init__(self, cls, name, value):
        self.cls, self.name, self.value = cls, name, value

    def __repr__(self):
        return f'{self.cls.name}.{self.name}'


class ObjV:
    """Heap object (instance of a repository class or of a builtin exception), identity semantics."""

    def __init__(self, cls, fields=None):
        self.cls = cls
        self.fields = fields if fields is not None else {}
        self.oid = next(_oid)
        self.fresh_in = None     # activation id that allocated it (frame analysis aid)

    def __repr__(self):
        return f'<{self.cls.name}#{self.oid}>'


class DtV:
    """Immutable symbolic instance of a frozen dataclass, denoted by a z3 datatype expression."""

    def __init__(self, cls, expr):
        self.cls, self.expr = cls, expr

    def __repr__(self):
        return f'<{self.cls.name} {self.expr}>'

    def __deepcopy__(self, memo):
        return self


class RecSchema(Atomic):
    """Shape of a 'typed JSON' object: constant keys (key -> concrete value), mandatory fields and optional fields
    (key -> TypeDesc).  The key set of the object is exactly consts + fields + the optional fields that are present."""

    def __init__(self, name, consts, fields, optional=(), acc=None, sort=None):
        self.name, self.consts, self.fields, self.optional = name, dict(consts), list(fields), set(optional)
        self.acc = acc          # explicit z3 accessor per key (fields that live in a constructor of a union datatype)
        self.sort = sort

    def __repr__(self):
        return f'<schema {self.name}>'


class RecV:
    """Immutable JSON object (a Python dict) described by a RecSchema; the field values are the fields of a z3 datatype
    value.  Used for symbolic well-formed parser input of any size."""

    def __init__(self, schema, expr):
        self.schema, self.expr = schema, expr

    def __repr__(self):
        return f'<json {self.schema.name} {self.expr}>'

    def __deepcopy__(self, memo):
        return self


class JUnion(Atomic):
    """A closed union of JSON values: z3 datatype with one constructor per variant.  variants: list of
    (recognizer, make) where make(expr) gives the value of that variant (a RecV or a non-dict value)."""

    def __init__(self, name, sort):
        self.name, self.sort, self.variants = name, sort, []


class JUnionV:
    """A JSON value of a JUnion whose variant is not decided yet; every observation narrows it first."""

    def __init__(self, uni, expr):
        self.uni, self.expr = uni, expr

    def __repr__(self):
        return f'<json-union {self.uni.name} {self.expr}>'

    def __deepcopy__(self, memo):
        return self


class StrT:
    """Symbolic string: concatenation of parts; a part is a python str, a z3 String expr or a JoinT."""
    __slots__ = ('parts',)

    def __init__(self, parts):
        self.parts = tuple(parts)

    def __repr__(self):
        return 'StrT(' + ' + '.join(repr(p) if isinstance(p, str) else str(p) for p in self.parts) + ')'

    def __deepcopy__(self, memo):
        return self


class JoinT:
    """sep.join(seq) for a symbolic sequence of strings (a string-valued term)."""
    __slots__ = ('sep', 'seq')

    def __init__(self, sep, seq):
        self.sep, self.seq = sep, seq

    def __repr__(self):
        return f'Join({self.sep!r}, {self.seq})'

    def __deepcopy__(self, memo):
        return self


class OpaqueStr:
    """String-valued application of an uninterpreted (trusted, pure) function."""
    __slots__ = ('fn', 'args')

    def __init__(self, fn, args):
        self.fn, self.args = fn, tuple(args)

    def __repr__(self):
        return f'{self.fn}({", ".join(map(str, self.args))})'

    def __deepcopy__(self, memo):
        return self


class LitB:
    __slots__ = ('items',)

    def __init__(self, items):
        self.items = tuple(items)

    def __repr__(self):
        return f'Lit{list(self.items)}'

    def __deepcopy__(self, memo):
        import copy
        return LitB(tuple(copy.deepcopy(i, memo) for i in self.items))


class CompB:
    """[body(i) ... for i in range(len(base)) if guard(i)] ; element = base[i].

    base  : z3 Seq expression, or RangeB
    var   : z3 Int constant (the index)
    guard : z3 Bool or True
    body  : SeqT (items may mention var)
    elem  : python callable idx -> executor value for base[idx] (kept for re-binding)
    """
    __slots__ = ('var', 'base', 'guard', 'body', 'elem_cls')

    def __init__(self, var, base, guard, body, elem_cls):
        self.var, self.base, self.guard, self.body, self.elem_cls = var, base, guard, body, elem_cls

    def __repr__(self):
        g = '' if self.guard is True else f' if {self.guard}'
        return f'Comp[{self.body} for {self.var} in {self.base}{g}]'

    def __deepcopy__(self, memo):
        return self


class RangeB(Atomic):
    """range(lo, hi) as a comprehension base."""

    def __init__(self, lo, hi):
        self.lo, self.hi = lo, hi

    def __repr__(self):
        return f'range({self.lo},{self.hi})'


class SeqT:
    """Pure sequence term: concatenation of blocks."""
    __slots__ = ('blocks',)

    def __init__(self, blocks=()):
        self.blocks = tuple(blocks)

    def __repr__(self):
        return 'Seq(' + ' ++ '.join(map(repr, self.blocks)) + ')'

    def __deepcopy__(self, memo):
        import copy
        return SeqT(tuple(copy.deepcopy(b, memo) for b in self.blocks))


class SeqV:
    """Mutable list cell holding a pure SeqT."""

    def __init__(self, term=None, frozen=False):
        self.term = term if term is not None else SeqT()
        self.oid = next(_oid)
        self.frozen = frozen       # list owned by an immutable model object: mutation is a frame violation
        self.fresh_in = None

    def __repr__(self):
        return f'List#{self.oid}{self.term}'


class SetV:
    """Mutable set cell.  Either concrete (python set of hashable concrete values) or a z3 set of strings."""

    def __init__(self, concrete=None, sym=None):
        self.concrete = concrete
        self.sym = sym
        self.oid = next(_oid)
        self.fresh_in = None

    def __repr__(self):
        return f'Set#{self.oid}({self.concrete if self.sym is None else self.sym})'


class DictV:
    """Mutable dict cell.  Concrete keys (ordered python dict) or symbolic str-keyed map (dom, val)."""

    def __init__(self, concrete=None, dom=None, val=None, val_wrap=None):
        self.concrete = concrete if (concrete is not None or dom is not None) else {}
        self.dom, self.val, self.val_wrap = dom, val, val_wrap
        self.oid = next(_oid)
        self.fresh_in = None

    def __repr__(self):
        return f'Dict#{self.oid}'


class ExcV(ObjV):
    """Exception instance."""


class RaiseSignal(Exception):
    def __init__(self, exc):
        super().__init__(repr(exc))
        self.exc = exc


class ReturnSignal(Exception):
    def __init__(self, value):
        self.value = value


class BreakSignal(Exception):
    pass


class ContinueSignal(Exception):
    pass


class Infeasible(Exception):
    """Path condition became unsatisfiable."""


def is_z3(v):
    return isinstance(v, z3.ExprRef)


def is_sym_bool(v):
    return isinstance(v, z3.BoolRef)
