"""Symbolic executor for the Python subset used by dznpy (see DESIGN.md 2.4, Appendix A).

The statements executed are the `ast` nodes of the files under <tree>/src/dznpy, parsed on every run.
"""
from __future__ import annotations

import ast as pyast
import copy
import hashlib
import os

import z3

from . import ops
from .ops import GuardB, mkstr, mkseq, to_zstr, canon, subst
from .path import Path, explore, fresh_name
from .sorts import SortReg, TypeDesc, ANY
from .values import (Atomic, ModuleV, ClassV, BuiltinClass, FuncV, PropV, BoundMethod, BuiltinFn, EnumV,
                     ObjV, DtV, RecV, JUnionV, StrT, JoinT, LitB, CompB, RangeB, SeqT, SeqV, SetV, DictV, ExcV,
                     RaiseSignal, ReturnSignal, BreakSignal, ContinueSignal, Infeasible, Unsupported, FrameViolation,
                     is_z3, is_sym_bool)


class Env:
    __slots__ = ('vars', 'parent', 'module', 'act')

    def __init__(self, module, parent=None, act=0):
        self.vars = {}
        self.parent = parent
        self.module = module
        self.act = act

    def lookup(self, name):
        e = self
        while e is not None:
            if name in e.vars:
                return e.vars[name]
            e = e.parent
        raise KeyError(name)

    def has(self, name):
        e = self
        while e is not None:
            if name in e.vars:
                return True
            e = e.parent
        return False


class EnumSym:
    """Symbolic member of an enum class (z3 enum-sort expression)."""

    def __init__(self, cls, expr):
        self.cls, self.expr = cls, expr

    def __deepcopy__(self, memo):
        return self

    def __repr__(self):
        return f'<{self.cls.name} {self.expr}>'


class OpaqueV:
    """Value of unknown structure (annotation Any / unsupported type); only identity-like uses allowed."""

    def __init__(self, expr, note=''):
        self.expr, self.note = expr, note

    def __deepcopy__(self, memo):
        return self


class UnionV:
    """Symbolic value of a closed union of dataclasses (z3 datatype with one constructor per class)."""

    def __init__(self, uni, expr):
        self.uni, self.expr = uni, expr

    def __deepcopy__(self, memo):
        return self

    def __repr__(self):
        return f'<union {self.expr}>'


class Poison:
    def __init__(self, why):
        self.why = why


class ExtModule(Atomic):
    def __init__(self, name):
        self.name = name


class Journal:
    def __init__(self, floor):
        self.floor = floor
        self.entries = []      # (kind, cell, payload)


BUILTIN_TYPE_NAMES = ['str', 'int', 'bool', 'float', 'list', 'dict', 'set', 'tuple', 'complex', 'object', 'type',
                      'Exception', 'BaseException', 'TypeError', 'ValueError', 'KeyError', 'IndexError',
                      'AttributeError', 'RecursionError', 'RuntimeError', 'LookupError', 'StopIteration',
                      'AssertionError', 'NotImplementedError', 'bytes']


class Interp:
    def __init__(self, src_root, extra_roots=()):
        self.src_root = src_root
        self.roots = [src_root] + list(extra_roots)
        self.modules = {}
        self.sorts = SortReg(self)
        self.overrides = {}        # qualname -> callable(interp, path, args, kwargs) | FuncV (spec substitution)
        self.class_invs = {}       # class qualname -> [fn(interp, path, DtV) -> z3 Bool]
        self.trace_calls = None    # optional set collecting qualnames of executed functions
        self.act_counter = 0
        self.unions = {}
        self.uf = {}
        self.files_read = {}
        self.max_call_depth = 60
        self.call_depth = 0
        self.call_stack = []
        self.safety_mode = 'raise'   # partial operations raise the Python exception (symbolic paths fork)
        self.set_iteration_sites = []
        self.inline_limit = {}
        self.frame_violations = []
        self.atom_defs = {}
        self.break_free_syms = set()   # ids of z3 string constants declared free of line boundaries
        self.unify_with_solver = False
        self.nonrecursive = set()   # functions whose contract says `decreases: none` (no self-call allowed)
        self.ghost_depth = 0     # >0 while evaluating side-effect-free specification code

    # ======================================================================== module loading
    def load_module(self, name):
        if name in self.modules:
            m = self.modules[name]
            if not m.loaded:
                raise Unsupported(f'circular import of {name}')
            return m
        path = self.find_module(name)
        if path is None:
            raise Unsupported(f'module {name} not found under {self.roots}')
        src = open(path, 'rb').read()
        tree = pyast.parse(src, filename=path)
        m = ModuleV(name, path, tree)
        m.sha256 = hashlib.sha256(src).hexdigest()
        m.is_package = path.endswith('__init__.py')
        self.files_read[os.path.relpath(path, self.src_root) if path.startswith(self.src_root)
                        else path] = m.sha256
        self.modules[name] = m
        m.globals['__name__'] = name
        env = Env(m)
        env.vars = m.globals
        p = Path()
        for stmt in tree.body:
            self.exec_stmt(stmt, env, p)
        m.loaded = True
        for k, v in m.globals.items():
            if isinstance(v, (SeqV, SetV, DictV)) or (isinstance(v, ObjV) and not isinstance(v, ExcV)):
                self.mark_module_owned(v, f'{name}.{k}')
        return m

    def mark_module_owned(self, v, label, depth=0):
        if depth > 3 or getattr(v, 'module_owned', None):
            return
        try:
            v.module_owned = label
        except Exception:
            return
        if isinstance(v, SeqV):
            v.frozen = True
            for b in v.term.blocks:
                if isinstance(b, LitB):
                    for x in b.items:
                        if isinstance(x, (SeqV, SetV, DictV, ObjV)):
                            self.mark_module_owned(x, label, depth + 1)
        elif isinstance(v, DictV) and v.dom is None:
            for x in v.concrete.values():
                if isinstance(x, (SeqV, SetV, DictV, ObjV)):
                    self.mark_module_owned(x, label, depth + 1)
        elif isinstance(v, ObjV):
            for x in v.fields.values():
                if isinstance(x, (SeqV, SetV, DictV, ObjV)):
                    self.mark_module_owned(x, label, depth + 1)

    def find_module(self, name):
        rel = name.replace('.', '/')
        for root in self.roots:
            for cand in (os.path.join(root, rel + '.py'), os.path.join(root, rel, '__init__.py')):
                if os.path.exists(cand):
                    return cand
        return None

    def resolve_relative(self, module: ModuleV, level, modname):
        parts = module.name.split('.')
        if not getattr(module, 'is_package', False):
            parts = parts[:-1]
        if level > 1:
            parts = parts[:len(parts) - (level - 1)]
        if modname:
            parts = parts + modname.split('.')
        return '.'.join(parts)

    def import_external(self, name):
        return ExtModule(name)

    def eval_static(self, node, module):
        env = Env(module)
        env.vars = module.globals
        return self.eval(node, env, Path())

    def get_function(self, qualname):
        """'dznpy.adv_shell.port_selection.PortsSemanticsCfg.match' -> FuncV / ClassV"""
        parts = qualname.split('.')
        for k in range(len(parts), 0, -1):
            mname = '.'.join(parts[:k])
            if self.find_module(mname) is not None:
                m = self.load_module(mname)
                v = m
                for a in parts[k:]:
                    if isinstance(v, ModuleV):
                        if a not in v.globals:
                            raise Unsupported(f'drift: {qualname} not found ({a} missing in {v.name})')
                        v = v.globals[a]
                    elif isinstance(v, ClassV):
                        w = v.lookup(a)
                        if w is None:
                            raise Unsupported(f'drift: {qualname} not found ({a} missing in class {v.name})')
                        v = w
                    else:
                        raise Unsupported(f'drift: {qualname} not found')
                return v
        raise Unsupported(f'drift: {qualname} not found')

    # ======================================================================== helpers
    def new_exc(self, clsname, msg=''):
        cls = BuiltinClass.get(clsname)
        e = ExcV(cls, {'args': (msg,)})
        return e

    def raise_builtin(self, clsname, msg=''):
        raise RaiseSignal(self.new_exc(clsname, msg))

    def class_of(self, v):
        """Python type of a value, as ClassV/BuiltinClass (None if not determinable)."""
        if isinstance(v, bool) or is_sym_bool(v):
            return BuiltinClass.get('bool')
        if isinstance(v, int) or (is_z3(v) and z3.is_int(v)):
            return BuiltinClass.get('int')
        if isinstance(v, float):
            return BuiltinClass.get('float')
        if isinstance(v, (str, StrT)):
            return BuiltinClass.get('str')
        if v is None:
            return BuiltinClass.get('NoneType')
        if isinstance(v, (ObjV, DtV)):
            return v.cls
        if isinstance(v, (EnumV, EnumSym)):
            return v.cls
        if isinstance(v, SeqV):
            return BuiltinClass.get('list')
        if isinstance(v, SetV):
            return BuiltinClass.get('set')
        if isinstance(v, (DictV, RecV)):
            return BuiltinClass.get('dict')
        if isinstance(v, tuple):
            return BuiltinClass.get('tuple')
        if isinstance(v, (ClassV, BuiltinClass)):
            return BuiltinClass.get('type')
        if isinstance(v, (FuncV, BoundMethod, BuiltinFn)):
            return BuiltinClass.get('function')
        return None

    def isinstance_(self, v, t, path):
        if isinstance(v, JUnionV):
            v = self.narrow_json(v, path)
        if isinstance(t, tuple):
            res = False
            for x in t:
                r = self.isinstance_(v, x, path)
                if r is True:
                    return True
                res = self.or_(res, r)
            return res
        if isinstance(v, UnionV):
            if isinstance(t, ClassV) and t in v.uni['classes']:
                return v.uni['recognizer'][t](v.expr)
            return False
        if isinstance(v, OpaqueV):
            raise Unsupported('isinstance on a value of unknown type')
        c = self.class_of(v)
        if c is None:
            raise Unsupported(f'isinstance on {type(v).__name__}')
        if isinstance(t, BuiltinClass) and t.name == 'object':
            return True
        if isinstance(c, ClassV):
            return c.is_subclass_of(t)
        if isinstance(t, BuiltinClass):
            return c.is_subclass_of(t)
        return False

    def or_(self, a, b):
        if a is True or b is True:
            return True
        if a is False:
            return b
        if b is False:
            return a
        return z3.Or(a, b)

    def and_(self, a, b):
        if a is False or b is False:
            return False
        if a is True:
            return b
        if b is True:
            return a
        return z3.And(a, b)

    def not_(self, a):
        if isinstance(a, bool):
            return not a
        return z3.Not(a)

    def zbool(self, b):
        return z3.BoolVal(b) if isinstance(b, bool) else b

    # ---- truthiness ------------------------------------------------------------------------------
    def truthy(self, v, path):
        """bool or z3 Bool"""
        if isinstance(v, JUnionV):
            v = self.narrow_json(v, path)
        if isinstance(v, bool):
            return v
        if v is None:
            return False
        if is_sym_bool(v):
            return v
        if isinstance(v, int):
            return v != 0
        if isinstance(v, float):
            return v != 0.0
        if is_z3(v) and z3.is_int(v):
            if getattr(v, '_lb', 0) > 0:
                return True
            return v != 0
        if isinstance(v, (str, StrT)):
            return ops.str_nonempty(v)
        if isinstance(v, SeqV):
            return self.seq_nonempty(v.term, path)
        if isinstance(v, SeqT):
            return self.seq_nonempty(v, path)
        if isinstance(v, tuple):
            return len(v) > 0
        if isinstance(v, SetV):
            if v.sym is None:
                return len(v.concrete) > 0
            return v.sym != z3.EmptySet(z3.StringSort())
        if isinstance(v, DictV):
            if v.dom is None:
                return len(v.concrete) > 0
            return v.dom != z3.EmptySet(z3.StringSort())
        if isinstance(v, RecV):
            return bool(v.schema.consts) or any(k not in v.schema.optional for (k, _) in v.schema.fields) or \
                self.rec_any_present(v)
        if isinstance(v, (ObjV, DtV)):
            for special in ('__bool__', '__len__'):
                f = v.cls.lookup(special)
                if f is not None:
                    r = self.call_function(f, [v], {}, path)
                    return self.truthy(r, path)
            return True
        if isinstance(v, (EnumV, EnumSym, ClassV, BuiltinClass, FuncV, BoundMethod, BuiltinFn, UnionV, ExtModule,
                          ModuleV)):
            return True
        if isinstance(v, Poison):
            raise Unsupported(f'use of a loop-local value after a summarised loop ({v.why})')
        raise Unsupported(f'truthiness of {type(v).__name__}')

    def seq_nonempty(self, s: SeqT, path):
        res = False
        for b in s.blocks:
            if isinstance(b, LitB):
                if b.items:
                    return True
            elif isinstance(b, GuardB):
                res = self.or_(res, self.and_(b.cond, self.seq_nonempty(b.body, path)))
            elif isinstance(b, CompB):
                res = self.or_(res, self.exists_block(b, path))
            else:
                raise Unsupported('block')
        return res

    def exists_block(self, b: CompB, path):
        """z3 Bool for 'block b yields at least one item'."""
        inner = self.seq_nonempty(b.body, path)
        if inner is False:
            return False
        if inner is True and b.guard is True:
            ln = ops.base_len(b.base)
            return ln > 0
        cond = self.and_(b.guard, inner)
        return self.exists_atom(b.var, b.base, cond, path)

    def exists_atom(self, var, base, cond, path):
        """Boolean atom  EX var in base. cond(var)  with its definition given to the path
        (skolem witness for the positive side, instantiable hypothesis for the negative side)."""
        ph = z3.Int('$e')
        body = z3.substitute(self.zbool(cond), (var, ph))
        basekey = canon(base) if not isinstance(base, RangeB) else f'R({canon(base.lo)},{canon(base.hi)})'
        key = f'EX[{basekey}|{body.sexpr()}]'
        # the atom may depend on enclosing bound variables: make it a function of those that occur
        free = [v for v in path.binders if _occurs(v, body) or (not isinstance(base, RangeB) and _occurs(v, base))]
        reg = path.__dict__.setdefault('_atoms', {})
        if key in reg:
            return reg[key]
        name = 'ex#' + hashlib.md5(key.encode()).hexdigest()[:10]
        if name not in path.atom_names:
            path.atom_names.append(name)
        if free:
            f = z3.Function(name, *[z3.IntSort() for _ in free], z3.BoolSort())
            atom = f(*free)
            skf = z3.Function(name + '.w', *[z3.IntSort() for _ in free], z3.IntSort())
            sk = skf(*free)
        else:
            atom = z3.Bool(name)
            sk = z3.Int(name + '.w')
        pos = z3.Implies(atom, z3.And(ops.in_range(base, sk), z3.substitute(body, (ph, sk))))
        neg_var = z3.Int(fresh_name('q'))
        neg = z3.Implies(z3.Not(atom), z3.Implies(ops.in_range(base, neg_var),
                                                  z3.Not(z3.substitute(body, (ph, neg_var)))))
        self.atom_defs[name] = {'free': list(free), 'base': base, 'body': body, 'ph': ph, 'atom': atom,
                                'fn': (f if free else None)}
        if free:
            path.add_hyp(list(free), pos, 'exists-def')
            path.add_hyp(list(free) + [neg_var], neg, 'exists-neg') if len(free) == 1 else None
            # also usable at the current binder values
            path.define(pos)
        else:
            path.define(pos)
            path.add_hyp([neg_var], neg, 'exists-neg')
            path.add_index(sk)
        reg[key] = atom
        return atom

    def unify_atoms(self, path):
        """Meta-rule (exists congruence): two exists-atoms over the same base whose bodies are point-wise
        equivalent are equal.  The side condition is PROVED (path.entails at a fresh element) before the equality
        is given to the path."""
        done = path.__dict__.setdefault('_unified', set())
        names = [n for n in path.atom_names if n in self.atom_defs]
        for a in range(len(names)):
            for b in range(a + 1, len(names)):
                key = (names[a], names[b])
                if key in done:
                    continue
                done.add(key)
                da, db = self.atom_defs[names[a]], self.atom_defs[names[b]]
                if len(da['free']) != len(db['free']) or isinstance(da['base'], RangeB) != isinstance(db['base'], RangeB):
                    continue
                common = [z3.Int(fresh_name('u')) for _ in da['free']]
                sa = list(zip(da['free'], common))
                sb = list(zip(db['free'], common))

                def sub(e, pairs):
                    return z3.substitute(e, *pairs) if (pairs and is_z3(e)) else e
                if isinstance(da['base'], RangeB):
                    ba = (sub(da['base'].lo, sa), sub(da['base'].hi, sa))
                    bb = (sub(db['base'].lo, sb), sub(db['base'].hi, sb))
                    same_base = canon(ba) == canon(bb)
                    if not same_base and z3.simplify(z3.And(ba[0] == bb[0] if (is_z3(ba[0]) or is_z3(bb[0])) else
                                                            z3.BoolVal(ba[0] == bb[0]),
                                                            ba[1] == bb[1] if (is_z3(ba[1]) or is_z3(bb[1])) else
                                                            z3.BoolVal(ba[1] == bb[1]))).eq(z3.BoolVal(True)):
                        same_base = True
                    if not same_base and self.unify_with_solver:
                        qb = path.child()
                        lo_eq = (ba[0] == bb[0]) if (is_z3(ba[0]) or is_z3(bb[0])) else z3.BoolVal(ba[0] == bb[0])
                        hi_eq = (ba[1] == bb[1]) if (is_z3(ba[1]) or is_z3(bb[1])) else z3.BoolVal(ba[1] == bb[1])
                        same_base = qb.check(z3.Not(z3.And(lo_eq, hi_eq)), timeout_ms=500, proof_step=True) == z3.unsat
                    rng = RangeB(*ba)
                else:
                    ba, bb = sub(da['base'], sa), sub(db['base'], sb)
                    same_base = ba.sort() == bb.sort() and ba.eq(bb)
                    rng = ba
                if not same_base:
                    continue
                x = z3.Int(fresh_name('ux'))
                fa = z3.substitute(sub(da['body'], sa), (da['ph'], x))
                fb = z3.substitute(sub(db['body'], sb), (db['ph'], x))
                if fa.eq(fb) or z3.simplify(fa).eq(z3.simplify(fb)):
                    ok = True
                elif not self.unify_with_solver:
                    ok = False
                else:
                    q = path.child()
                    q.add_index(x)
                    for c in common:
                        q.add_index(c)
                    ok = q.check(ops.in_range(rng, x), z3.Not(fa == fb), timeout_ms=900, proof_step=True) == z3.unsat
                if not ok:
                    continue
                if common:
                    path.add_hyp(common, da['fn'](*common) == db['fn'](*common), 'exists-congruence')
                    for c in da['free'] + db['free']:
                        path.add_index(c)
                else:
                    path.define(da['atom'] == db['atom'])

    # ---- equality -------------------------------------------------------------------------------
    def eq(self, a, b, path):
        """Python ==  ->  bool or z3 Bool"""
        if isinstance(a, Poison) or isinstance(b, Poison):
            raise Unsupported('use of a loop-local value after a summarised loop')
        if isinstance(a, JUnionV) and isinstance(b, JUnionV) and a.expr.eq(b.expr):
            return True
        if isinstance(a, JUnionV):
            a = self.narrow_json(a, path)
        if isinstance(b, JUnionV):
            b = self.narrow_json(b, path)
        if a is None or b is None:
            if a is None and b is None:
                return True
            return False
        if isinstance(a, (EnumV, EnumSym)) or isinstance(b, (EnumV, EnumSym)):
            if not (isinstance(a, (EnumV, EnumSym)) and isinstance(b, (EnumV, EnumSym))):
                return False
            if a.cls is not b.cls:
                return False
            if isinstance(a, EnumV) and isinstance(b, EnumV):
                return a is b or a.name == b.name
            za = self.sorts.enum_const(a) if isinstance(a, EnumV) else a.expr
            zb = self.sorts.enum_const(b) if isinstance(b, EnumV) else b.expr
            return za == zb
        if isinstance(a, bool) and isinstance(b, bool):
            return a == b
        if isinstance(a, (bool, int, float)) and isinstance(b, (bool, int, float)):
            return a == b
        if isinstance(a, (str, StrT)) and isinstance(b, (str, StrT)):
            if isinstance(a, str) and isinstance(b, str):
                return a == b
            if canon(a) == canon(b):
                return True
            return self.str_eq(a, b)
        if (is_z3(a) or isinstance(a, (int, bool))) and (is_z3(b) or isinstance(b, (int, bool))):
            if is_sym_bool(a) or is_sym_bool(b):
                return self.zbool(a) == self.zbool(b)
            return a == b
        if isinstance(a, (SeqV, SeqT)) and isinstance(b, (SeqV, SeqT)):
            ta = a.term if isinstance(a, SeqV) else a
            tb = b.term if isinstance(b, SeqV) else b
            return self.seq_eq(ta, tb, path)
        if isinstance(a, tuple) and isinstance(b, tuple):
            if len(a) != len(b):
                return False
            r = True
            for x, y in zip(a, b):
                r = self.and_(r, self.eq(x, y, path))
            return r
        if isinstance(a, (ObjV, DtV)) and isinstance(b, (ObjV, DtV)):
            if a is b:
                return True
            if a.cls is not b.cls:
                return False
            f = a.cls.lookup('__eq__')
            if f is not None:
                return self.truthy(self.call_function(f, [a, b], {}, path), path)
            if not a.cls.is_dataclass:
                return a is b
            if isinstance(a, DtV) and isinstance(b, DtV):
                return a.expr == b.expr
            r = True
            for (fname, td) in self.sorts.fields_of(a.cls):
                r = self.and_(r, self.eq(self.getattr_(a, fname, path), self.getattr_(b, fname, path), path))
            return r
        if isinstance(a, UnionV) or isinstance(b, UnionV):
            if isinstance(a, UnionV) and isinstance(b, UnionV):
                return a.expr == b.expr
            u, o = (a, b) if isinstance(a, UnionV) else (b, a)
            if isinstance(o, DtV) and o.cls in u.uni['classes']:
                return u.expr == u.uni['wrap'][o.cls](o.expr)
            return False
        if isinstance(a, SetV) and isinstance(b, SetV):
            if a.sym is None and b.sym is None:
                return a.concrete == b.concrete
            return self.set_z3(a) == self.set_z3(b)
        if isinstance(a, OpaqueV) and isinstance(b, OpaqueV) and is_z3(a.expr) and is_z3(b.expr) and \
                a.expr.sort() == b.expr.sort():
            # values of an abstract sort: the same term denotes the same value; different terms are NOT known to differ
            if a.expr.eq(b.expr):
                return True
            raise Unsupported('== between different values of an abstract sort')
        if isinstance(a, RecV) and isinstance(b, RecV) and a.schema is b.schema:
            return a.expr == b.expr
        if isinstance(a, (ClassV, BuiltinClass, FuncV)) or isinstance(b, (ClassV, BuiltinClass, FuncV)):
            return a is b
        ca, cb = self.class_of(a), self.class_of(b)
        if ca is not None and cb is not None and ca is not cb:
            return False
        raise Unsupported(f'== between {type(a).__name__} and {type(b).__name__}')

    def str_eq(self, a, b):
        return to_zstr(a) == to_zstr(b)

    def seq_eq(self, ta: SeqT, tb: SeqT, path):
        ta, tb = mkseq(ta.blocks), mkseq(tb.blocks)
        if canon(ta) == canon(tb):
            return True
        if ops.seq_is_lit(ta) and ops.seq_is_lit(tb):
            ia, ib = ops.seq_lit_items(ta), ops.seq_lit_items(tb)
            if len(ia) != len(ib):
                return False
            r = True
            for x, y in zip(ia, ib):
                r = self.and_(r, self.eq(x, y, path))
            return r
        za, zb = self.to_zseq(ta), self.to_zseq(tb)
        if za is not None and zb is not None and za.sort() == zb.sort():
            return za == zb
        # structurally different symbolic sequences: abstract both
        return ops.abs_const(canon(ta), z3.BoolSort(), 'seqeq') if False else \
            (ops.abs_const('SEQ:' + canon(ta), self.sorts.opaque_sort('Seq')) ==
             ops.abs_const('SEQ:' + canon(tb), self.sorts.opaque_sort('Seq')))

    def to_zseq(self, t: SeqT):
        """z3 Seq expression of a sequence of strings / datatype values, if expressible."""
        parts = []
        for b in t.blocks:
            if isinstance(b, LitB):
                for it in b.items:
                    z = self.to_z3(it)
                    if z is None:
                        return None
                    parts.append(z3.Unit(z))
            elif isinstance(b, CompB) and not isinstance(b.base, RangeB) and b.guard is True:
                # identity comprehension over a z3 base
                if len(b.body.blocks) == 1 and isinstance(b.body.blocks[0], LitB) and \
                        len(b.body.blocks[0].items) == 1:
                    it = self.to_z3(b.body.blocks[0].items[0])
                    if it is not None and (it.eq(b.base[b.var]) or it.eq(ops.nth(b.base, b.var))):
                        parts.append(b.base)
                        continue
                return None
            else:
                return None
        if not parts:
            return None
        sorts = {p.sort() for p in parts}
        if len(sorts) != 1:
            return None
        return z3.Concat(*parts) if len(parts) > 1 else parts[0]

    def to_z3(self, v):
        """z3 expression of a scalar / datatype value, or None."""
        if isinstance(v, bool):
            return z3.BoolVal(v)
        if isinstance(v, int):
            return z3.IntVal(v)
        if isinstance(v, (str, StrT)):
            return to_zstr(v)
        if is_z3(v):
            return v
        if isinstance(v, (DtV, RecV, JUnionV)):
            return v.expr
        if isinstance(v, EnumV):
            return self.sorts.enum_const(v)
        if isinstance(v, EnumSym):
            return v.expr
        if isinstance(v, UnionV):
            return v.expr
        if isinstance(v, ObjV) and v.cls.is_dataclass and v.cls.frozen:
            try:
                return self.obj_to_dt(v)
            except Unsupported:
                return None
        return None

    def obj_to_dt(self, o: ObjV):
        """z3 datatype expression of a structurally known frozen dataclass instance."""
        cons = self.sorts.constructor(o.cls)
        args = []
        for (fname, td) in self.sorts.fields_of(o.cls):
            args.append(self.value_to_sort(o.fields.get(fname), td))
        return cons(*args)

    def value_to_sort(self, v, td: TypeDesc):
        k = td.kind
        if k == 'list':
            t = v.term if isinstance(v, SeqV) else v
            if not isinstance(t, SeqT):
                raise Unsupported('list field')
            if not t.blocks:
                return z3.Empty(self.sorts.sort_of(td))
            z = self.to_zseq(t)
            if z is None:
                raise Unsupported('list field not expressible')
            return z
        if k == 'opt':
            s, none, some, val = self.sorts.sort_of_opt(td.args[0])
            if v is None:
                return none
            return some(self.value_to_sort(v, td.args[0]))
        z = self.to_z3(v)
        if z is None:
            raise Unsupported(f'value of type {type(v).__name__} not expressible as {td}')
        return z

    # ---- wrapping of z3 datatype fields ------------------------------------------------------------
    def wrap(self, td: TypeDesc, expr, path):
        k = td.kind
        if k == 'str':
            return mkstr([expr])
        if k in ('int', 'bool'):
            return expr
        if k == 'enum':
            return EnumSym(td.args[0], expr)
        if k == 'cls':
            cls = td.args[0]
            if cls.is_dataclass and cls.qualname not in self.sorts.opaque_classes:
                v = DtV(cls, expr)
                self.apply_class_invs(v, path)
                return v
            return OpaqueV(expr, cls.name)
        if k == 'rec':
            v = RecV(td.args[0], expr)
            self.apply_rec_invs(v, path)
            return v
        if k == 'junion':
            return JUnionV(td.args[0], expr)
        if k == 'list':
            return SeqV(self.seq_of_base(expr, td.args[0], path), frozen=True)
        if k == 'opt':
            s, none, some, val = self.sorts.sort_of_opt(td.args[0])
            if path.branch(expr == none):
                return None
            return self.wrap(td.args[0], val(expr), path)
        if k == 'set' and td.args and td.args[0].kind == 'str':
            return SetV(sym=expr)
        return OpaqueV(expr, 'any')

    def seq_of_base(self, base, elem_td: TypeDesc, path):
        """Identity comprehension over a z3 Seq expression."""
        var = z3.Int('i#' + hashlib.md5(base.sexpr().encode()).hexdigest()[:8])
        item = self.wrap_elem(elem_td, ops.nth(base, var))
        return SeqT([CompB(var, base, True, SeqT([LitB([item])]), elem_td)])

    def wrap_elem(self, td, expr):
        """Like wrap but never forks (elements inside templates)."""
        k = td.kind
        if k == 'str':
            return mkstr([expr])
        if k in ('int', 'bool'):
            return expr
        if k == 'enum':
            return EnumSym(td.args[0], expr)
        if k == 'cls' and td.args[0].is_dataclass and td.args[0].qualname not in self.sorts.opaque_classes:
            return DtV(td.args[0], expr)
        if k == 'union':
            return UnionV(td.args[0], expr)
        if k == 'rec':
            return RecV(td.args[0], expr)
        if k == 'junion':
            return JUnionV(td.args[0], expr)
        return OpaqueV(expr, 'elem')

    def apply_class_invs(self, v: DtV, path):
        for c in v.cls.mro():
            if isinstance(c, ClassV):
                for inv in self.class_invs.get(c.qualname, ()):
                    f = inv(self, path, v)
                    if f is not None and f is not True:
                        path.define(f)

    def apply_rec_invs(self, v: RecV, path):
        """well-formedness facts of a typed JSON object (registered per schema name in self.rec_invs)"""
        for inv in getattr(self, 'rec_invs', {}).get(v.schema.name, ()):
            f = inv(self, path, v)
            if f is not None and f is not True:
                path.define(f)

    def fresh_dt(self, cls: ClassV, name, path):
        v = DtV(cls, z3.Const(name, self.sorts.sort_of_class(cls)))
        self.apply_class_invs(v, path)
        return v

    # ======================================================================== attribute access
    def getattr_(self, obj, name, path):
        if isinstance(obj, JUnionV):
            obj = self.narrow_json(obj, path)
        if isinstance(obj, Poison):
            raise Unsupported(f'use of a loop-local value after a summarised loop ({obj.why})')
        if isinstance(obj, ObjV):
            if name in obj.fields:
                return obj.fields[name]
            a = obj.cls.lookup(name) if isinstance(obj.cls, ClassV) else None
            if a is None:
                if isinstance(obj, ExcV) and name == 'args':
                    return obj.fields.get('args', ())
                self.raise_builtin('AttributeError', f"'{obj.cls.name}' object has no attribute '{name}'")
            return self.bind_attr(obj, a, path)
        if isinstance(obj, DtV):
            fields = self.sorts.fields_of(obj.cls)
            for (fname, td) in fields:
                if fname == name:
                    return self.dt_field(obj, fname, td, path)
            a = obj.cls.lookup(name)
            if a is None:
                self.raise_builtin('AttributeError', f"'{obj.cls.name}' object has no attribute '{name}'")
            return self.bind_attr(obj, a, path)
        if isinstance(obj, UnionV):
            return self.union_getattr(obj, name, path)
        if isinstance(obj, ModuleV):
            if name in obj.globals:
                return obj.globals[name]
            raise Unsupported(f'module {obj.name} has no attribute {name}')
        if isinstance(obj, ExtModule):
            return self.ext_attr(obj, name)
        if isinstance(obj, ClassV):
            a = obj.lookup(name)
            if a is None:
                if name == '__name__':
                    return obj.name
                self.raise_builtin('AttributeError', f"type object '{obj.name}' has no attribute '{name}'")
            if isinstance(a, FuncV) and a.kind == 'classmethod':
                return BoundMethod(obj, a)
            return a
        if isinstance(obj, EnumV):
            if name == 'value':
                return obj.value
            if name == 'name':
                return obj.name
            a = obj.cls.lookup(name)
            if a is not None:
                return self.bind_attr(obj, a, path)
            self.raise_builtin('AttributeError', name)
        if isinstance(obj, EnumSym):
            if name in ('value', 'name'):
                members = list(obj.cls.members.values())
                vals = [m.value if name == 'value' else m.name for m in members]
                if all(isinstance(x, str) for x in vals):
                    e = z3.StringVal(vals[-1])
                    for m, x in list(zip(members, vals))[:-1][::-1]:
                        e = z3.If(obj.expr == self.sorts.enum_const(m), z3.StringVal(x), e)
                    return mkstr([e])
                # non-string enum values: case split
                for m in members[:-1]:
                    if path.branch(obj.expr == self.sorts.enum_const(m)):
                        return m.value if name == 'value' else m.name
                return members[-1].value if name == 'value' else members[-1].name
            raise Unsupported(f'attribute {name} of symbolic enum')
        if isinstance(obj, (str, StrT, SeqV, SetV, DictV, tuple)) or is_z3(obj) or isinstance(obj, (int, float)):
            from .builtins_ import method_of
            return method_of(self, obj, name)
        if obj is None:
            self.raise_builtin('AttributeError', f"'NoneType' object has no attribute '{name}'")
        if isinstance(obj, BuiltinClass):
            from .builtins_ import builtin_class_attr
            return builtin_class_attr(self, obj, name)
        if isinstance(obj, OpaqueV):
            from .builtins_ import opaque_attr
            return opaque_attr(self, obj, name, path)
        if isinstance(obj, FuncV) and name == '__name__':
            return obj.name
        raise Unsupported(f'attribute {name} of {type(obj).__name__}')

    def bind_attr(self, obj, a, path):
        if isinstance(a, FuncV):
            if a.kind == 'staticmethod':
                return a
            if a.kind == 'classmethod':
                return BoundMethod(obj.cls, a)
            return BoundMethod(obj, a)
        if isinstance(a, PropV):
            return self.call_function(a.fget, [obj], {}, path)
        return a

    def dt_field(self, obj: DtV, fname, td, path):
        if self.sorts.is_recursive(obj.cls):
            s = self.sorts.sort_of_class(obj.cls)
            is_root = s.recognizer(0)(obj.expr)
            if path.branch(is_root):
                return None
            acc = self.sorts.accessor(obj.cls, fname)
            inner = td.args[0] if td.kind == 'opt' else td
            return self.wrap(inner, acc(obj.expr), path)
        acc = self.sorts.accessor(obj.cls, fname)
        return self.wrap(td, acc(obj.expr), path)

    def narrow_json(self, v, path):
        """decide the variant of a JSON union value (forks once per variant; later calls follow the path condition)"""
        while isinstance(v, JUnionV):
            vs = v.uni.variants
            nv = None
            for (rec, make) in vs[:-1]:
                if path.branch(rec(v.expr)):
                    nv = make(self, v.expr, path)
                    break
            if nv is None:
                path.define(vs[-1][0](v.expr))
                nv = vs[-1][1](self, v.expr, path)
            v = nv
        return v

    # ---- typed JSON objects ----------------------------------------------------------------------------
    def rec_present(self, r: RecV, key):
        """z3 Bool: the optional key is present"""
        td = dict(r.schema.fields)[key]
        s, none, some, val = self.sorts.sort_of_opt(td)
        return self.sorts.rec_accessor(r.schema, key)(r.expr) != none

    def rec_any_present(self, r: RecV):
        res = False
        for k in r.schema.optional:
            res = self.or_(res, self.rec_present(r, k))
        return res

    def rec_has_key(self, r: RecV, key, path):
        if not isinstance(key, str):
            from .builtins_ import check_hashable
            check_hashable(self, key)
            if isinstance(key, StrT):
                raise Unsupported('symbolic key looked up in a typed JSON object')
            return False
        if key in r.schema.consts:
            return True
        if key in r.schema.optional:
            return self.rec_present(r, key)
        return key in dict(r.schema.fields)

    def rec_get(self, r: RecV, key, path):
        if isinstance(key, str) and key in r.schema.consts:
            return r.schema.consts[key]
        present = self.rec_has_key(r, key, path)
        if present is False or (present is not True and not path.branch(present)):
            self.raise_builtin('KeyError', repr(key))
        td = dict(r.schema.fields)[key]
        z = self.sorts.rec_accessor(r.schema, key)(r.expr)
        if key in r.schema.optional:
            z = self.sorts.sort_of_opt(td)[3](z)
        return self.wrap(td, z, path)

    def union_getattr(self, u: UnionV, name, path):
        uni = u.uni
        known = path.known_constructor(u.expr)
        if known is not None:
            for c in uni['classes']:
                if uni['recognizer'][c].eq(known):
                    return self.getattr_(DtV(c, uni['unwrap'][c](u.expr)), name, path)
        having = [c for c in uni['classes'] if any(f == name for f, _ in self.sorts.fields_of(c)) or c.lookup(name)]
        if not having:
            self.raise_builtin('AttributeError', name)
        for c in uni['classes']:
            if c in having:
                continue
            if path.branch(uni['recognizer'][c](u.expr)):
                self.raise_builtin('AttributeError', f"'{c.name}' object has no attribute '{name}'")
        for c in having[:-1]:
            if path.branch(uni['recognizer'][c](u.expr)):
                return self.getattr_(DtV(c, uni['unwrap'][c](u.expr)), name, path)
        c = having[-1]
        path.define(uni['recognizer'][c](u.expr))
        return self.getattr_(DtV(c, uni['unwrap'][c](u.expr)), name, path)

    def make_union(self, name, classes):
        key = (name, tuple(c.qualname for c in classes))
        if key not in self.unions:
            d = z3.Datatype(name)
            for c in classes:
                d.declare(f'{name}_{c.name}', (f'{name}_as_{c.name}', self.sorts.sort_of_class(c)))
            s = d.create()
            self.unions[key] = {
                'sort': s, 'classes': list(classes),
                'recognizer': {c: s.recognizer(i) for i, c in enumerate(classes)},
                'wrap': {c: s.constructor(i) for i, c in enumerate(classes)},
                'unwrap': {c: s.accessor(i, 0) for i, c in enumerate(classes)},
            }
        return self.unions[key]

    def narrow_union(self, u: UnionV, path):
        """Case split a union value into a DtV of a concrete class."""
        uni = u.uni
        for c in uni['classes'][:-1]:
            if path.branch(uni['recognizer'][c](u.expr)):
                return DtV(c, uni['unwrap'][c](u.expr))
        c = uni['classes'][-1]
        path.define(uni['recognizer'][c](u.expr))
        return DtV(c, uni['unwrap'][c](u.expr))

    def ext_attr(self, m: ExtModule, name):
        from .builtins_ import ext_attr
        return ext_attr(self, m, name)

    def setattr_(self, obj, name, value, path):
        if isinstance(obj, ObjV):
            a = obj.cls.lookup(name) if isinstance(obj.cls, ClassV) else None
            if isinstance(a, PropV):
                if a.fset is None:
                    self.raise_builtin('AttributeError', f"can't set attribute '{name}'")
                self.call_function(a.fset, [obj, value], {}, path)
                return
            if isinstance(obj.cls, ClassV) and obj.cls.is_dataclass and obj.cls.frozen and \
                    not getattr(obj, '_initializing', False):
                cls = BuiltinClass.get('AttributeError')
                raise RaiseSignal(ExcV(cls, {'args': (f"cannot assign to field '{name}'",),
                                             'frozen_instance_error': True}))
            self.journal_write(path, obj, ('setattr', name))
            obj.fields[name] = value
            return
        if isinstance(obj, DtV):
            self.raise_builtin('AttributeError', f"cannot assign to field '{name}' (frozen dataclass)")
        raise Unsupported(f'attribute assignment on {type(obj).__name__}')

    def frame_violation(self, path, cell, what):
        """Mutation of a list that belongs to an immutable input object."""
        self.frame_violations.append((what, list(self.call_stack)))
        raise FrameViolation(what, self.call_stack)

    def journal_write(self, path, cell, what):
        if getattr(cell, 'module_owned', None):
            self.frame_violations.append((f'write to module-level state {cell.module_owned}', list(self.call_stack)))
            raise FrameViolation(f'{what[0] if isinstance(what, tuple) else what} on module-level object '
                                 f'{cell.module_owned}', self.call_stack)
        j = path.journal
        if j is not None and cell.oid < j.floor:
            j.entries.append((what, cell))

    # ======================================================================== expressions
    def eval(self, node, env, path):
        m = getattr(self, 'e_' + type(node).__name__, None)
        if m is None:
            raise Unsupported(f'expression {type(node).__name__} at line {getattr(node, "lineno", "?")}')
        return m(node, env, path)

    def e_Constant(self, node, env, path):
        v = node.value
        if isinstance(v, (str, int, bool, float)) or v is None:
            return v
        if isinstance(v, bytes):
            return OpaqueV(None, 'bytes')
        if v is Ellipsis:
            return None
        raise Unsupported(f'constant {v!r}')

    def e_Name(self, node, env, path):
        n = node.id
        try:
            v = env.lookup(n)
        except KeyError:
            g = env.module.globals
            if n in g:
                v = g[n]
            else:
                from .builtins_ import BUILTINS
                if n in BUILTIN_TYPE_NAMES:
                    return BuiltinClass.get(n)
                if n in BUILTINS:
                    return BUILTINS[n]
                self.raise_builtin('NameError', f"name '{n}' is not defined")
        if isinstance(v, Poison):
            raise Unsupported(f'use of loop-local variable {n} after a summarised loop ({v.why})')
        return v

    def e_Attribute(self, node, env, path):
        obj = self.eval(node.value, env, path)
        return self.getattr_(obj, node.attr, path)

    def e_JoinedStr(self, node, env, path):
        parts = []
        for v in node.values:
            if isinstance(v, pyast.Constant):
                parts.append(v.value)
            else:
                parts.append(self.e_FormattedValue(v, env, path))
        return mkstr(parts)

    def e_FormattedValue(self, node, env, path):
        v = self.eval(node.value, env, path)
        if node.conversion == 114:  # !r
            from .builtins_ import py_repr
            s = py_repr(self, v, path)
        else:
            s = self.to_str(v, path)
        if node.format_spec is not None:
            from .builtins_ import apply_format_spec, ljust
            fs = node.format_spec
            if isinstance(fs, pyast.JoinedStr) and len(fs.values) == 2 and isinstance(fs.values[0], pyast.Constant) \
                    and isinstance(fs.values[1], pyast.FormattedValue) and fs.values[1].format_spec is None \
                    and fs.values[0].value in (' <', '<'):
                width = self.eval(fs.values[1].value, env, path)
                if isinstance(width, bool) or not self.is_num(width):
                    raise Unsupported('format width is not an integer')
                if not isinstance(s, (str, StrT)):
                    raise Unsupported('format spec on non-string')
                return ljust(self, s, width, ' ', path)
            spec = self.eval(node.format_spec, env, path)
            s = apply_format_spec(self, s, spec, path)
        return s

    def to_str(self, v, path):
        from .builtins_ import py_str
        return py_str(self, v, path)

    def e_BoolOp(self, node, env, path):
        is_and = isinstance(node.op, pyast.And)
        vals = node.values
        cur = self.eval(vals[0], env, path)
        for nxt in vals[1:]:
            t = self.truthy(cur, path)
            if isinstance(t, bool):
                if is_and and not t:
                    return cur
                if (not is_and) and t:
                    return cur
                cur = self.eval(nxt, env, path)
                continue
            # symbolic truthiness
            if is_sym_bool(cur) and self.is_pure_expr(nxt):
                # boolean connective: evaluate the other operand under the assumption that makes it
                # relevant and combine, instead of forking the path
                other = self.try_eval_pure(nxt, env, path, cur if is_and else z3.Not(cur))
                if other is not _NOPE:
                    ot = None
                    try:
                        ot = self.truthy(other, path)
                    except Unsupported:
                        ot = None
                    if isinstance(other, (bool, z3.BoolRef)):
                        cur = self.and_(cur, other) if is_and else self.or_(cur, other)
                        continue
            if is_sym_bool(cur):
                d = path.branch(t)
                if is_and:
                    if not d:
                        return False
                    cur = self.eval(nxt, env, path)
                else:
                    if d:
                        return True
                    cur = self.eval(nxt, env, path)
                continue
            d = path.branch(t)
            if is_and:
                if not d:
                    return cur
            else:
                if d:
                    return cur
            cur = self.eval(nxt, env, path)
        return cur

    def e_UnaryOp(self, node, env, path):
        v = self.eval(node.operand, env, path)
        if isinstance(node.op, pyast.Not):
            return self.not_(self.truthy(v, path))
        if isinstance(node.op, pyast.USub):
            if isinstance(v, (int, float)) or is_z3(v):
                return -v
        if isinstance(node.op, pyast.UAdd):
            return v
        raise Unsupported('unary op')

    def e_IfExp(self, node, env, path):
        c = self.truthy(self.eval(node.test, env, path), path)
        if isinstance(c, bool):
            return self.eval(node.body if c else node.orelse, env, path)
        # try to merge string-valued alternatives into an ite (no fork)
        if self.is_pure_expr(node.body) and self.is_pure_expr(node.orelse):
            a = self.try_eval_pure(node.body, env, path, c)
            b = self.try_eval_pure(node.orelse, env, path, z3.Not(c))
            if a is not _NOPE and b is not _NOPE:
                m = self.merge_values(c, a, b)
                if m is not _NOPE:
                    return m
        d = path.branch(c)
        return self.eval(node.body if d else node.orelse, env, path)

    def merge_values(self, c, a, b):
        """ite(c, a, b) as a single value when both are scalars of the same kind, else _NOPE"""
        if isinstance(a, (str, StrT)) and isinstance(b, (str, StrT)):
            if canon(a) == canon(b):
                return a
            if any(isinstance(x, StrT) and any(isinstance(q, JoinT) for q in x.parts) for x in (a, b)):
                return _NOPE      # keep the structure of joins over symbolic sequences: fork instead of merging
            return mkstr([z3.If(c, to_zstr(a), to_zstr(b))])
        if isinstance(a, (bool, z3.BoolRef)) and isinstance(b, (bool, z3.BoolRef)):
            return z3.If(c, self.zbool(a), self.zbool(b))
        if self.is_num(a) and self.is_num(b) and not isinstance(a, (bool, float)) and not isinstance(b, (bool, float)):
            return z3.If(c, a if is_z3(a) else z3.IntVal(a), b if is_z3(b) else z3.IntVal(b))
        if isinstance(a, (EnumV, EnumSym)) and isinstance(b, (EnumV, EnumSym)) and a.cls is b.cls:
            za = self.sorts.enum_const(a) if isinstance(a, EnumV) else a.expr
            zb = self.sorts.enum_const(b) if isinstance(b, EnumV) else b.expr
            return EnumSym(a.cls, z3.If(c, za, zb))
        if isinstance(a, DtV) and isinstance(b, DtV) and a.cls is b.cls:
            return DtV(a.cls, z3.If(c, a.expr, b.expr))
        if isinstance(a, SetV) and isinstance(b, SetV) and getattr(a, 'comp', None) is None and \
                getattr(b, 'comp', None) is None:
            return SetV(sym=z3.If(c, self.set_z3(a), self.set_z3(b)))
        if a is None and b is None:
            return None
        return _NOPE

    def is_pure_expr(self, node):
        """Syntactic check: evaluation cannot have side effects / raise (constants, names, attributes, f-strings)."""
        if self.ghost_depth > 0:
            return True
        for n in pyast.walk(node):
            if isinstance(n, (pyast.Call, pyast.Subscript, pyast.ListComp, pyast.GeneratorExp, pyast.SetComp,
                              pyast.DictComp, pyast.Lambda, pyast.Await, pyast.Yield, pyast.NamedExpr)):
                return False
        return True

    def try_eval_pure(self, node, env, path, cond):
        """Evaluate a side-effect-free expression under an extra assumption without committing it."""
        sub = path.child()
        try:
            sub.assume(cond)
            n_before = len(sub.pc)
            v = self.eval(node, env, sub)
            if sub.pending or len(sub.pc) != n_before:
                return _NOPE
            return v
        except (RaiseSignal, Infeasible, Unsupported):
            return _NOPE

    def e_Compare(self, node, env, path):
        left = self.eval(node.left, env, path)
        res = True
        for op, rn in zip(node.ops, node.comparators):
            right = self.eval(rn, env, path)
            r = self.compare(op, left, right, path)
            res = self.and_(res, r)
            if res is False:
                return False
            left = right
        return res

    def compare(self, op, a, b, path):
        if isinstance(op, (pyast.Eq, pyast.NotEq)):
            lb = getattr(a, '_lb', None)
            if lb is not None and isinstance(b, int) and not isinstance(b, bool) and b < lb:
                return isinstance(op, pyast.NotEq)
        if isinstance(op, pyast.Eq):
            return self.eq(a, b, path)
        if isinstance(op, pyast.NotEq):
            return self.not_(self.eq(a, b, path))
        if isinstance(op, pyast.Is):
            return self.is_(a, b)
        if isinstance(op, pyast.IsNot):
            return self.not_(self.is_(a, b))
        if isinstance(op, pyast.In):
            return self.contains(b, a, path)
        if isinstance(op, pyast.NotIn):
            return self.not_(self.contains(b, a, path))
        if isinstance(op, (pyast.Lt, pyast.LtE, pyast.Gt, pyast.GtE)):
            if isinstance(a, bool):
                a = int(a)
            if isinstance(b, bool):
                b = int(b)
            if (isinstance(a, (int, float)) or (is_z3(a) and z3.is_int(a))) and \
                    (isinstance(b, (int, float)) or (is_z3(b) and z3.is_int(b))):
                lb = getattr(a, '_lb', None)
                if lb is not None and isinstance(b, int):
                    # len(f'..literal..{x}') compared with a constant: decided from the literal part alone
                    if isinstance(op, pyast.Gt) and lb > b:
                        return True
                    if isinstance(op, pyast.GtE) and lb >= b:
                        return True
                    if isinstance(op, pyast.Lt) and lb >= b:
                        return False
                    if isinstance(op, pyast.LtE) and lb > b:
                        return False
                if isinstance(op, pyast.Lt):
                    return a < b
                if isinstance(op, pyast.LtE):
                    return a <= b
                if isinstance(op, pyast.Gt):
                    return a > b
                return a >= b
            if isinstance(a, str) and isinstance(b, str):
                return {pyast.Lt: a < b, pyast.LtE: a <= b, pyast.Gt: a > b, pyast.GtE: a >= b}[type(op)]
            if isinstance(a, SetV) and isinstance(b, SetV) and isinstance(op, (pyast.LtE, pyast.GtE)):
                x, y = (a, b) if isinstance(op, pyast.LtE) else (b, a)
                if x.sym is None and y.sym is None:
                    return x.concrete <= y.concrete
                return z3.IsSubset(self.set_z3(x), self.set_z3(y))
        raise Unsupported(f'comparison {type(op).__name__} on {type(a).__name__}, {type(b).__name__}')

    def is_(self, a, b):
        if a is None or b is None:
            return a is None and b is None
        if isinstance(a, EnumV) and isinstance(b, EnumV):
            return a.cls is b.cls and a.name == b.name
        if isinstance(a, (EnumV, EnumSym)) and isinstance(b, (EnumV, EnumSym)):
            if a.cls is not b.cls:
                return False
            za = self.sorts.enum_const(a) if isinstance(a, EnumV) else a.expr
            zb = self.sorts.enum_const(b) if isinstance(b, EnumV) else b.expr
            return za == zb
        if isinstance(a, bool) and isinstance(b, bool):
            return a == b
        if isinstance(a, (ObjV, SeqV, SetV, DictV, ClassV, BuiltinClass, FuncV)) or \
                isinstance(b, (ObjV, SeqV, SetV, DictV, ClassV, BuiltinClass, FuncV)):
            return a is b
        raise Unsupported(f'`is` between {type(a).__name__} and {type(b).__name__}')

    def set_z3(self, s: SetV):
        if s.sym is not None:
            return s.sym
        e = z3.EmptySet(z3.StringSort())
        for x in s.concrete:
            if not isinstance(x, (str, StrT)):
                raise Unsupported('non-string set element')
            e = z3.SetAdd(e, to_zstr(x))
        return e

    def contains(self, container, item, path):
        if isinstance(container, (str, StrT)):
            if not isinstance(item, (str, StrT)):
                self.raise_builtin('TypeError', "'in <string>' requires string as left operand")
            if isinstance(container, str) and isinstance(item, str):
                return item in container
            return z3.Contains(to_zstr(container), to_zstr(item))
        if isinstance(container, SetV):
            from .builtins_ import check_hashable
            check_hashable(self, item)
            if container.sym is None:
                if (isinstance(item, (str, int, bool)) or item is None or isinstance(item, EnumV)) and \
                        not self.set_has_symbolic(container):
                    return self._concrete_key(item) in {self._concrete_key(x) for x in container.concrete}
                r = False
                for x in container.concrete:
                    r = self.or_(r, self.eq(x, item, path))
                return r
            if not isinstance(item, (str, StrT)):
                return False
            return z3.IsMember(to_zstr(item), container.sym)
        if isinstance(container, JUnionV):
            container = self.narrow_json(container, path)
        if isinstance(container, RecV):
            return self.rec_has_key(container, item, path)
        if isinstance(container, DictV):
            from .builtins_ import check_hashable
            check_hashable(self, item)
            if container.dom is None:
                r = False
                for k in container.concrete:
                    r = self.or_(r, self.eq(k, item, path))
                return r
            if not isinstance(item, (str, StrT)):
                return False
            return z3.IsMember(to_zstr(item), container.dom)
        if isinstance(container, (SeqV, SeqT, tuple)):
            t = container.term if isinstance(container, SeqV) else (
                SeqT([LitB(container)]) if isinstance(container, tuple) else container)
            return self.seq_contains(t, item, path)
        raise Unsupported(f'`in` on {type(container).__name__}')

    def _concrete_key(self, x):
        return ('enum', x.cls.qualname, x.name) if isinstance(x, EnumV) else x

    def seq_contains(self, t: SeqT, item, path):
        res = False
        for b in t.blocks:
            if isinstance(b, LitB):
                for it in b.items:
                    res = self.or_(res, self.eq(it, item, path))
                    if res is True:
                        return True
            elif isinstance(b, GuardB):
                res = self.or_(res, self.and_(b.cond, self.seq_contains(b.body, item, path)))
            elif isinstance(b, CompB):
                path.binders.append(b.var)
                try:
                    inner = self.seq_contains(b.body, item, path)
                finally:
                    path.binders.pop()
                if inner is False:
                    continue
                res = self.or_(res, self.exists_atom(b.var, b.base, self.and_(b.guard, inner), path))
        return res

    def e_BinOp(self, node, env, path):
        a = self.eval(node.left, env, path)
        b = self.eval(node.right, env, path)
        return self.binop(node.op, a, b, path)

    def binop(self, op, a, b, path):
        if isinstance(op, pyast.Add):
            if isinstance(a, (str, StrT)) and isinstance(b, (str, StrT)):
                return mkstr([a, b])
            if isinstance(a, (SeqV, SeqT)) and isinstance(b, (SeqV, SeqT)):
                ta = a.term if isinstance(a, SeqV) else a
                tb = b.term if isinstance(b, SeqV) else b
                return SeqV(mkseq(list(ta.blocks) + list(tb.blocks)))
            if isinstance(a, tuple) and isinstance(b, tuple):
                return a + b
            if self.is_num(a) and self.is_num(b):
                return a + b
            if isinstance(a, (ObjV, DtV)):
                f = a.cls.lookup('__add__')
                if f is not None:
                    return self.call_function(f, [a, b], {}, path)
            if isinstance(a, (str, StrT)) or isinstance(b, (str, StrT)) or isinstance(a, SeqV) or isinstance(b, SeqV):
                self.raise_builtin('TypeError', 'unsupported operand type(s) for +')
        if isinstance(op, pyast.Sub):
            if self.is_num(a) and self.is_num(b):
                return a - b
            if isinstance(a, SetV) and isinstance(b, SetV):
                if a.sym is None and b.sym is None:
                    res = SetV(concrete=[])
                    for x in a.concrete:
                        r = self.contains(b, x, path)
                        if r is False or (r is not True and not path.branch(r)):
                            res.concrete.append(x)
                    return res
                return SetV(sym=z3.SetDifference(self.set_z3(a), self.set_z3(b)))
        if isinstance(op, pyast.BitOr):
            if isinstance(a, SetV) and isinstance(b, SetV):
                if a.sym is None and b.sym is None:
                    res = SetV(concrete=list(a.concrete))
                    for x in b.concrete:
                        self.set_add(res, x, path)
                    return res
                return SetV(sym=z3.SetUnion(self.set_z3(a), self.set_z3(b)))
        if isinstance(op, pyast.BitAnd):
            if isinstance(a, SetV) and isinstance(b, SetV):
                if a.sym is None and b.sym is None:
                    res = SetV(concrete=[])
                    for x in a.concrete:
                        r = self.contains(b, x, path)
                        if r is True or (r is not False and path.branch(r)):
                            res.concrete.append(x)
                    return res
                return SetV(sym=z3.SetIntersect(self.set_z3(a), self.set_z3(b)))
        if isinstance(op, pyast.Mult):
            if self.is_num(a) and self.is_num(b):
                return a * b
            if isinstance(a, (str, StrT)) and self.is_num(b):
                return self.str_repeat(a, b, path)
            if isinstance(b, (str, StrT)) and self.is_num(a):
                return self.str_repeat(b, a, path)
        if isinstance(op, pyast.FloorDiv) and isinstance(a, int) and isinstance(b, int):
            if b == 0:
                self.raise_builtin('ZeroDivisionError')
            return a // b
        if isinstance(op, pyast.Mod) and isinstance(a, int) and isinstance(b, int):
            if b == 0:
                self.raise_builtin('ZeroDivisionError')
            return a % b
        raise Unsupported(f'binary op {type(op).__name__} on {type(a).__name__}, {type(b).__name__}')

    def is_num(self, v):
        return (isinstance(v, (int, float)) and not isinstance(v, bool)) or isinstance(v, bool) or \
            (is_z3(v) and z3.is_int(v))

    def str_repeat(self, s, n, path):
        if isinstance(s, str) and isinstance(n, int):
            return s * n
        if isinstance(s, str) and len(s) == 1 and is_z3(n):
            # a pure function of n: the same count gives the same term
            from .builtins_ import uf
            r = uf(self, f'py.repeat[{s!r}]', z3.IntSort(), z3.StringSort())(z3.simplify(n))
            reg = path.__dict__.setdefault('_rep_terms', set())
            if r.get_id() not in reg:
                reg.add(r.get_id())
                path.define(z3.Length(r) == z3.If(n > 0, n, z3.IntVal(0)))
                # character-class facts only (no regular expression: measured to make sat checks explode)
                if s in ops.WHITESPACE:
                    path.define(ops.all_ws(r, path))
                if s not in ops.LINE_BREAKS:
                    path.define(ops.no_break(r, path))
            return mkstr([r])
        raise Unsupported('string repetition')

    def e_List(self, node, env, path):
        items = []
        for e in node.elts:
            if isinstance(e, pyast.Starred):
                raise Unsupported('starred')
            items.append(self.eval(e, env, path))
        v = SeqV(SeqT([LitB(items)]) if items else SeqT())
        v.fresh_in = env.act
        return v

    def e_Tuple(self, node, env, path):
        return tuple(self.eval(e, env, path) for e in node.elts)

    def e_Set(self, node, env, path):
        items = [self.eval(e, env, path) for e in node.elts]
        return self.make_set(items, path)

    def make_set(self, items, path):
        if all(isinstance(x, (str, int, bool, EnumV)) or x is None for x in items):
            res, seen = [], set()
            for x in items:
                k = self._concrete_key(x)
                if k not in seen:
                    seen.add(k)
                    res.append(x)
            return SetV(concrete=res)
        if all(isinstance(x, (str, StrT)) for x in items):
            # finite set of (symbolic) strings: kept as a list of pairwise-different elements
            s = SetV(concrete=[])
            for x in items:
                self.set_add(s, x, path)
            return s
        raise Unsupported('set of symbolic non-string items')

    def set_add(self, s: SetV, x, path):
        for y in s.concrete:
            r = self.eq(y, x, path)
            if r is True or (r is not False and path.branch(r)):
                return
        s.concrete.append(x)

    def set_has_symbolic(self, s: SetV):
        return s.sym is None and any(isinstance(x, StrT) for x in (s.concrete or ()))

    def e_Dict(self, node, env, path):
        d = {}
        for k, v in zip(node.keys, node.values):
            if k is None:
                raise Unsupported('dict unpacking')
            kk = self.eval(k, env, path)
            if not isinstance(kk, (str, int)):
                raise Unsupported('symbolic dict key in literal')
            d[kk] = self.eval(v, env, path)
        r = DictV(concrete=d)
        r.fresh_in = env.act
        return r

    def e_Subscript(self, node, env, path):
        obj = self.eval(node.value, env, path)
        if isinstance(node.slice, pyast.Slice):
            lo = self.eval(node.slice.lower, env, path) if node.slice.lower else None
            hi = self.eval(node.slice.upper, env, path) if node.slice.upper else None
            st = self.eval(node.slice.step, env, path) if node.slice.step else None
            from .builtins_ import do_slice
            return do_slice(self, obj, lo, hi, st, path)
        idx = self.eval(node.slice, env, path)
        from .builtins_ import do_index
        return do_index(self, obj, idx, path)

    def e_ListComp(self, node, env, path):
        return self.comprehension(node, env, path, 'list')

    def e_GeneratorExp(self, node, env, path):
        return self.comprehension(node, env, path, 'list')

    def e_SetComp(self, node, env, path):
        lst = self.comprehension(node, env, path, 'list')
        from .builtins_ import set_from_seq
        return set_from_seq(self, lst.term, path)

    def e_Lambda(self, node, env, path):
        # a lambda is a nested function whose body is `return <expr>` (synthetic node, cached per lambda)
        fd = getattr(node, '_pyvc_def', None)
        if fd is None:
            fd = pyast.FunctionDef(name='<lambda>', args=node.args, body=[pyast.Return(value=node.body)],
                                   decorator_list=[], returns=None, type_comment=None)
            pyast.copy_location(fd, node)
            pyast.copy_location(fd.body[0], node)
            node._pyvc_def = fd
        closure = env if env.vars is not env.module.globals else None
        return FuncV('<lambda>', fd, env.module, closure, None, 'function')

    def e_Call(self, node, env, path):
        if isinstance(node.func, pyast.Name) and node.func.id == 'super' and not node.args:
            return self.make_super(env)
        fn = self.eval(node.func, env, path)
        args = []
        for a in node.args:
            if isinstance(a, pyast.Starred):
                raise Unsupported('*args')
            args.append(self.eval(a, env, path))
        kwargs = {}
        for k in node.keywords:
            if k.arg is None:
                raise Unsupported('**kwargs')
            kwargs[k.arg] = self.eval(k.value, env, path)
        return self.call(fn, args, kwargs, path)

    def make_super(self, env):
        e = env
        while e is not None and '__class__' not in e.vars:
            e = e.parent
        if e is None:
            raise Unsupported('super() outside method')
        cls = e.vars['__class__']
        slf = e.vars.get('__self__')
        return _Super(cls, slf)

    # ======================================================================== calls
    def call(self, fn, args, kwargs, path):
        if isinstance(fn, BoundMethod):
            if isinstance(fn.func, BuiltinFn):
                if any(isinstance(a, JUnionV) for a in args):
                    args = [self.narrow_json(a, path) if isinstance(a, JUnionV) else a for a in args]
                return fn.func.impl(self, path, [fn.obj] + args, kwargs)
            return self.call_function(fn.func, [fn.obj] + args, kwargs, path)
        if isinstance(fn, FuncV):
            return self.call_function(fn, args, kwargs, path)
        if isinstance(fn, BuiltinFn):
            if any(isinstance(a, JUnionV) for a in args):       # a builtin observes its arguments: decide their variant
                args = [self.narrow_json(a, path) if isinstance(a, JUnionV) else a for a in args]
            return fn.impl(self, path, args, kwargs)
        if isinstance(fn, ClassV):
            return self.instantiate(fn, args, kwargs, path)
        if isinstance(fn, BuiltinClass):
            from .builtins_ import call_builtin_class
            if any(isinstance(a, JUnionV) for a in args):
                args = [self.narrow_json(a, path) if isinstance(a, JUnionV) else a for a in args]
            return call_builtin_class(self, fn, args, kwargs, path)
        if isinstance(fn, _SuperMethod):
            return self.call_function(fn.func, [fn.obj] + args, kwargs, path)
        if fn is None:
            self.raise_builtin('TypeError', "'NoneType' object is not callable")
        raise Unsupported(f'call of {type(fn).__name__}')

    def call_function(self, fn: FuncV, args, kwargs, path, bypass_override=False):
        qn = fn.qualname
        ov = self.overrides.get(qn)
        if ov is not None and not bypass_override:
            if isinstance(ov, FuncV):
                fn = ov
            else:
                return ov(self, path, args, kwargs)
        if self.trace_calls is not None:
            self.trace_calls.add(qn)
        if qn in self.nonrecursive and qn in self.call_stack:
            raise TerminationViolation(qn, list(self.call_stack))
        node = fn.node
        self.act_counter += 1
        env = Env(fn.module, fn.closure, self.act_counter)
        self.bind_params(fn, node.args, args, kwargs, env, path)
        if fn.owner is not None:
            env.vars['__class__'] = fn.owner
            if args:
                env.vars['__self__'] = args[0]
        self.call_depth += 1
        self.call_stack.append(qn)
        if self.call_depth > self.max_call_depth:
            self.call_depth -= 1
            self.call_stack.pop()
            raise Unsupported(f'call depth exceeded in {qn} (recursion needs a contract)')
        try:
            try:
                self.exec_block(node.body, env, path)
            except ReturnSignal as r:
                return r.value
            return None
        finally:
            self.call_depth -= 1
            self.call_stack.pop()

    def bind_params(self, fn, a: pyast.arguments, args, kwargs, env, path):
        if a.vararg or a.kwarg:
            raise Unsupported('*args/**kwargs parameters')
        params = list(a.posonlyargs) + list(a.args)
        defaults = [None] * (len(params) - len(a.defaults)) + list(a.defaults)
        if len(args) > len(params):
            self.raise_builtin('TypeError', f'{fn.name}() takes {len(params)} positional arguments but '
                                            f'{len(args)} were given')
        kwargs = dict(kwargs)
        denv = Env(fn.module, fn.closure)
        for i, p in enumerate(params):
            if i < len(args):
                if p.arg in kwargs:
                    self.raise_builtin('TypeError', f'multiple values for argument {p.arg}')
                env.vars[p.arg] = args[i]
            elif p.arg in kwargs:
                env.vars[p.arg] = kwargs.pop(p.arg)
            elif defaults[i] is not None:
                env.vars[p.arg] = self.eval(defaults[i], denv, path)
            else:
                self.raise_builtin('TypeError', f"{fn.name}() missing required argument '{p.arg}'")
        for p, d in zip(a.kwonlyargs, a.kw_defaults):
            if p.arg in kwargs:
                env.vars[p.arg] = kwargs.pop(p.arg)
            elif d is not None:
                env.vars[p.arg] = self.eval(d, denv, path)
            else:
                self.raise_builtin('TypeError', f"missing keyword-only argument '{p.arg}'")
        if kwargs:
            self.raise_builtin('TypeError', f"{fn.name}() got an unexpected keyword argument "
                                            f"'{next(iter(kwargs))}'")

    def instantiate(self, cls: ClassV, args, kwargs, path):
        if cls.is_enum:
            # Enum lookup by value
            if len(args) == 1:
                for m in cls.members.values():
                    if self.eq(m.value, args[0], path) is True:
                        return m
                self.raise_builtin('ValueError', 'not a valid enum value')
            raise Unsupported('enum call')
        if cls.is_exception or self._is_exception_class(cls):
            e = ExcV(cls, {'args': tuple(args)})
            init = cls.lookup('__init__')
            if init is not None:
                self.call_function(init, [e] + args, kwargs, path)
            return e
        obj = ObjV(cls, {})
        obj.fresh_in = self.act_counter
        init = cls.lookup('__init__')
        if init is not None:
            # class attribute defaults are visible through class lookup; explicit __init__ takes over
            self.call_function(init, [obj] + args, kwargs, path)
            return obj
        if cls.is_dataclass:
            self.dataclass_init(cls, obj, args, kwargs, path)
            return obj
        if args or kwargs:
            self.raise_builtin('TypeError', f'{cls.name}() takes no arguments')
        return obj

    def _is_exception_class(self, cls):
        for c in cls.mro():
            if isinstance(c, BuiltinClass) and c.is_subclass_of(BuiltinClass.get('BaseException')):
                return True
        return False

    def dataclass_init(self, cls, obj, args, kwargs, path):
        fields = []
        for c in reversed([c for c in cls.mro() if isinstance(c, ClassV)]):
            for f in c.fields:
                fields = [g for g in fields if g[0] != f[0]]
                fields.append((f[0], f[1], f[2], c))
        if len(args) > len(fields):
            self.raise_builtin('TypeError', f'{cls.name}.__init__() takes {len(fields) + 1} positional arguments')
        kwargs = dict(kwargs)
        obj._initializing = True
        for i, (fname, ann, dflt, owner) in enumerate(fields):
            if i < len(args):
                if fname in kwargs:
                    self.raise_builtin('TypeError', f'multiple values for argument {fname}')
                obj.fields[fname] = args[i]
            elif fname in kwargs:
                obj.fields[fname] = kwargs.pop(fname)
            elif dflt is not None:
                kind, node = dflt
                denv = Env(owner.module)
                if kind == 'default':
                    obj.fields[fname] = self.eval(node, denv, path)
                else:
                    factory = self.eval(node, denv, path)
                    obj.fields[fname] = self.call(factory, [], {}, path)
            else:
                self.raise_builtin('TypeError', f"{cls.name}.__init__() missing required argument: '{fname}'")
        if kwargs:
            self.raise_builtin('TypeError', f"{cls.name}.__init__() got an unexpected keyword argument "
                                            f"'{next(iter(kwargs))}'")
        post = cls.lookup('__post_init__')
        try:
            if post is not None:
                self.call_function(post, [obj], {}, path)
        finally:
            obj._initializing = False

    # ======================================================================== statements
    def exec_block(self, stmts, env, path):
        for s in stmts:
            self.exec_stmt(s, env, path)

    def exec_stmt(self, node, env, path):
        m = getattr(self, 's_' + type(node).__name__, None)
        if m is None:
            raise Unsupported(f'statement {type(node).__name__} at line {getattr(node, "lineno", "?")}')
        return m(node, env, path)

    def s_Expr(self, node, env, path):
        if isinstance(node.value, pyast.Constant):
            return
        self.eval(node.value, env, path)

    def s_Pass(self, node, env, path):
        return

    def s_Import(self, node, env, path):
        for a in node.names:
            name = a.name
            if self.find_module(name) is not None:
                if a.asname is None and '.' in name:
                    raise Unsupported('import a.b without alias')
                env.vars[a.asname or name] = self.load_module(name)
                continue
            env.vars[a.asname or name.split('.')[0]] = self.import_external(name.split('.')[0])

    def s_ImportFrom(self, node, env, path):
        if node.level == 0 and self.find_module(node.module.split('.')[0]) is None:
            ext = self.import_external(node.module)
            for a in node.names:
                env.vars[a.asname or a.name] = self.ext_attr(ext, a.name)
            return
        base = node.module if node.level == 0 else self.resolve_relative(env.module, node.level, node.module)
        for a in node.names:
            # name may be a submodule or an attribute of the package module
            target = None
            sub = f'{base}.{a.name}' if base else a.name
            if self.find_module(sub) is not None:
                target = self.load_module(sub)
            else:
                m = self.load_module(base)
                if a.name not in m.globals:
                    raise Unsupported(f'cannot import {a.name} from {base}')
                target = m.globals[a.name]
            env.vars[a.asname or a.name] = target

    def s_FunctionDef(self, node, env, path):
        kind = 'function'
        is_prop = False
        setter_of = None
        for d in node.decorator_list:
            if isinstance(d, pyast.Name) and d.id == 'staticmethod':
                kind = 'staticmethod'
            elif isinstance(d, pyast.Name) and d.id == 'classmethod':
                kind = 'classmethod'
            elif isinstance(d, pyast.Name) and d.id == 'property':
                is_prop = True
            elif isinstance(d, pyast.Attribute) and d.attr == 'setter':
                setter_of = d.value.id
            else:
                raise Unsupported(f'decorator on {node.name}')
        closure = env if env.vars is not env.module.globals and '__classbody__' not in env.vars else None
        owner = env.vars.get('__classbody__')
        fn = FuncV(node.name, node, env.module, closure, owner, kind)
        if is_prop:
            env.vars[node.name] = PropV(fn)
        elif setter_of:
            old = env.vars[setter_of]
            env.vars[node.name] = PropV(old.fget, fn)
        else:
            env.vars[node.name] = fn

    def s_ClassDef(self, node, env, path):
        bases = [self.eval(b, env, path) for b in node.bases]
        cls = ClassV(node.name, env.module, node, bases)
        for b in bases:
            if isinstance(b, BuiltinClass) and b.is_subclass_of(BuiltinClass.get('BaseException')):
                cls.is_exception = True
            if isinstance(b, ClassV) and b.is_exception:
                cls.is_exception = True
            if isinstance(b, _EnumBase):
                cls.is_enum = True
        cls.bases = [b for b in bases if not isinstance(b, _EnumBase)]
        dc = None
        for d in node.decorator_list:
            if isinstance(d, pyast.Name) and d.id == 'dataclass':
                dc = {}
            elif isinstance(d, pyast.Call) and isinstance(d.func, pyast.Name) and d.func.id == 'dataclass':
                dc = {k.arg: self.eval(k.value, env, path) for k in d.keywords}
            else:
                raise Unsupported(f'class decorator on {node.name}')
        body_env = Env(env.module, None)
        body_env.vars['__classbody__'] = cls
        ann_fields = []
        for st in node.body:
            if isinstance(st, pyast.AnnAssign) and isinstance(st.target, pyast.Name):
                default = None
                if st.value is not None:
                    if isinstance(st.value, pyast.Call) and isinstance(st.value.func, pyast.Name) and \
                            st.value.func.id == 'field':
                        for k in st.value.keywords:
                            if k.arg == 'default':
                                default = ('default', k.value)
                            elif k.arg == 'default_factory':
                                default = ('factory', k.value)
                    else:
                        default = ('default', st.value)
                        body_env.vars[st.target.id] = self.eval(st.value, body_env_with(env, body_env), path)
                ann_fields.append((st.target.id, st.annotation, default))
                continue
            if isinstance(st, pyast.Assign) and cls.is_enum:
                for t in st.targets:
                    val = self.eval(st.value, env, path)
                    cls.members[t.id] = EnumV(cls, t.id, val)
                    body_env.vars[t.id] = cls.members[t.id]
                continue
            self.exec_stmt(st, body_env_with(env, body_env), path)
        for k, v in body_env.vars.items():
            if k == '__classbody__':
                continue
            cls.attrs[k] = v
        if dc is not None:
            cls.is_dataclass = True
            cls.frozen = bool(dc.get('frozen', False))
            cls.fields = ann_fields
        else:
            cls.class_annotations = ann_fields
            for b in cls.bases:
                if isinstance(b, ClassV) and b.is_dataclass and cls.lookup('__init__') is None:
                    cls.is_dataclass = True
                    cls.frozen = b.frozen
        env.vars[node.name] = cls

    def s_Assign(self, node, env, path):
        v = self.eval(node.value, env, path)
        for t in node.targets:
            self.assign(t, v, env, path)

    def s_AnnAssign(self, node, env, path):
        if node.value is None:
            return
        self.assign(node.target, self.eval(node.value, env, path), env, path)

    def assign(self, target, v, env, path):
        if isinstance(target, pyast.Name):
            env.vars[target.id] = v
            return
        if isinstance(target, pyast.Attribute):
            obj = self.eval(target.value, env, path)
            self.setattr_(obj, target.attr, v, path)
            return
        if isinstance(target, (pyast.Tuple, pyast.List)):
            if isinstance(v, SeqV) and ops.seq_is_lit(v.term):
                v = tuple(ops.seq_lit_items(v.term))
            if not isinstance(v, tuple):
                raise Unsupported('unpacking of a non-tuple')
            if len(v) != len(target.elts):
                self.raise_builtin('ValueError', 'unpacking length mismatch')
            for t, x in zip(target.elts, v):
                self.assign(t, x, env, path)
            return
        if isinstance(target, pyast.Subscript):
            obj = self.eval(target.value, env, path)
            key = self.eval(target.slice, env, path)
            from .builtins_ import do_setitem
            do_setitem(self, obj, key, v, path)
            return
        raise Unsupported('assignment target')

    def s_AugAssign(self, node, env, path):
        cur = self.eval(_load(node.target), env, path)
        rhs = self.eval(node.value, env, path)
        if isinstance(node.op, pyast.Add):
            if isinstance(cur, (ObjV, DtV)):
                f = cur.cls.lookup('__iadd__')
                if f is not None:
                    res = self.call_function(f, [cur, rhs], {}, path)
                    self.assign(node.target, res, env, path)
                    return
            if isinstance(cur, SeqV):
                from .builtins_ import list_extend
                list_extend(self, path, cur, rhs)
                return
        res = self.binop(node.op, cur, rhs, path)
        self.assign(node.target, res, env, path)

    def s_Return(self, node, env, path):
        raise ReturnSignal(self.eval(node.value, env, path) if node.value is not None else None)

    def s_Raise(self, node, env, path):
        if node.exc is None:
            cur = env.vars.get('__current_exc__')
            if cur is None:
                raise Unsupported('bare raise outside except')
            raise RaiseSignal(cur)
        e = self.eval(node.exc, env, path)
        if isinstance(e, (ClassV, BuiltinClass)):
            e = self.call(e, [], {}, path)
        if not isinstance(e, ExcV):
            self.raise_builtin('TypeError', 'exceptions must derive from BaseException')
        if node.cause is not None:
            e.fields['__cause__'] = self.eval(node.cause, env, path)
        raise RaiseSignal(e)

    def s_If(self, node, env, path):
        c = self.truthy(self.eval(node.test, env, path), path)
        if path.branch(c):
            self.exec_block(node.body, env, path)
        else:
            self.exec_block(node.orelse, env, path)

    def s_Break(self, node, env, path):
        raise BreakSignal()

    def s_Continue(self, node, env, path):
        raise ContinueSignal()

    def s_Assert(self, node, env, path):
        c = self.truthy(self.eval(node.test, env, path), path)
        if not path.branch(c):
            self.raise_builtin('AssertionError')

    def s_Try(self, node, env, path):
        if node.finalbody:
            raise Unsupported('try/finally')
        try:
            self.exec_block(node.body, env, path)
        except RaiseSignal as rs:
            for h in node.handlers:
                if h.type is None:
                    matches = True
                else:
                    t = self.eval(h.type, env, path)
                    matches = self.exc_matches(rs.exc, t)
                if matches:
                    if h.name:
                        env.vars[h.name] = rs.exc
                    env.vars['__current_exc__'] = rs.exc
                    self.exec_block(h.body, env, path)
                    return
            raise
        else:
            self.exec_block(node.orelse, env, path)

    def exc_matches(self, exc, t):
        if isinstance(t, tuple):
            return any(self.exc_matches(exc, x) for x in t)
        c = exc.cls
        if isinstance(c, ClassV):
            return c.is_subclass_of(t)
        return isinstance(t, BuiltinClass) and c.is_subclass_of(t)

    def s_With(self, node, env, path):
        raise Unsupported('with statement (I/O is outside every verified cone)')

    def s_Global(self, node, env, path):
        raise Unsupported('global statement')

    def s_Nonlocal(self, node, env, path):
        raise Unsupported('nonlocal statement')

    def s_Delete(self, node, env, path):
        raise Unsupported('del statement')

    def s_While(self, node, env, path):
        from .loops import exec_while
        exec_while(self, node, env, path)

    def s_For(self, node, env, path):
        from .loops import exec_for
        exec_for(self, node, env, path)

    def comprehension(self, node, env, path, kind):
        from .loops import eval_comprehension
        return eval_comprehension(self, node, env, path)

    # ======================================================================== running
    def run_function(self, fn, make_args, parent_path=None, max_paths=4000):
        """Explore all paths of fn(*make_args(path)).  Returns [(path, outcome)] with outcome =
        ('return', value, args) | ('raise', ExcV, args)."""
        parent = parent_path or Path()

        def run(p):
            args, kwargs = make_args(p)
            try:
                if isinstance(fn, (FuncV, BoundMethod, ClassV)):
                    v = self.call(fn, list(args), dict(kwargs), p)
                else:
                    v = fn(self, p, list(args), dict(kwargs))
                return ('return', v, args)
            except RaiseSignal as rs:
                return ('raise', rs.exc, args)
            except FrameViolation as fv:
                return ('frame', fv, args)
            except TerminationViolation as tv:
                return ('diverge', tv, args)

        return explore(parent, run, max_paths)


class TerminationViolation(Exception):
    """a function declared non-recursive called itself (the `decreases` obligation fails)"""

    def __init__(self, qualname, stack):
        super().__init__(f'{qualname} calls itself without a decreasing measure')
        self.qualname, self.stack = qualname, stack


class _NopeT:
    pass


_NOPE = _NopeT()


class _EnumBase(Atomic):
    pass


ENUM_BASE = _EnumBase()


class _Super:
    def __init__(self, cls, obj):
        self.cls, self.obj = cls, obj


class _SuperMethod:
    def __init__(self, obj, func):
        self.obj, self.func = obj, func


def _super_getattr(interp, sup: _Super, name):
    mro = sup.obj.cls.mro() if sup.obj is not None else sup.cls.mro()
    i = mro.index(sup.cls)
    for c in mro[i + 1:]:
        if isinstance(c, ClassV) and name in c.attrs:
            a = c.attrs[name]
            if isinstance(a, FuncV):
                return _SuperMethod(sup.obj, a)
            return a
    raise Unsupported(f'super().{name}')


_orig_getattr = Interp.getattr_


def _getattr_with_super(self, obj, name, path):
    if isinstance(obj, _Super):
        return _super_getattr(self, obj, name)
    return _orig_getattr(self, obj, name, path)


Interp.getattr_ = _getattr_with_super


def body_env_with(outer, body_env):
    body_env.parent = outer
    return body_env


def _load(target):
    t = copy.copy(target)
    t.ctx = pyast.Load()
    return t


def _occurs(var, expr):
    """does the z3 constant `var` occur in expr?"""
    if not is_z3(expr):
        return False
    seen = set()
    stack = [expr]
    while stack:
        e = stack.pop()
        if e.get_id() in seen:
            continue
        seen.add(e.get_id())
        if e.eq(var):
            return True
        stack.extend(e.children())
    return False
