"""Generic construction of symbolic inputs from the repository's class definitions."""
from __future__ import annotations

import z3

from . import ops
from .sorts import TypeDesc
from .values import ObjV, DtV, SeqV, SetV, ClassV, Unsupported


def fresh_value(interp, path, td: TypeDesc, name, opt_choice=None, depth=0):
    """A symbolic value of type `td`.  Frozen model dataclasses become z3 datatype constants (DtV); other classes
    become heap objects with symbolic leaves.  Optional[...] is decided by opt_choice(name) -> bool (present?)."""
    k = td.kind
    if k == 'str':
        return ops.mkstr([z3.String(name)])
    if k == 'int':
        return z3.Int(name)
    if k == 'bool':
        return z3.Bool(name)
    if k == 'enum':
        from .interp import EnumSym
        return EnumSym(td.args[0], z3.Const(name, interp.sorts.sort_of_enum(td.args[0])[0]))
    if k == 'opt':
        present = opt_choice(name) if opt_choice else True
        if not present:
            return None
        return fresh_value(interp, path, td.args[0], name, opt_choice, depth)
    if k == 'list':
        inner = td.args[0]
        if inner.kind in ('str', 'int', 'bool', 'enum') or (inner.kind == 'cls' and _is_model(interp, inner.args[0])):
            z = z3.Const(name, interp.sorts.sort_of(td))
            return SeqV(interp.seq_of_base(z, inner, path), frozen=True)
        from .interp import OpaqueV
        return OpaqueV(None, f'unconstrained list {name}')
    if k == 'cls':
        cls = td.args[0]
        if _is_model(interp, cls):
            return interp.fresh_dt(cls, name, path)
        if cls.is_dataclass:
            o = ObjV(cls, {})
            for (fname, ftd) in interp.sorts.fields_of(cls):
                o.fields[fname] = fresh_value(interp, path, ftd, f'{name}.{fname}', opt_choice, depth + 1)
            return o
        from .interp import OpaqueV
        return OpaqueV(None, f'unconstrained {cls.name} {name}')
    if k == 'union':
        from .interp import OpaqueV
        return OpaqueV(None, f'unconstrained union {name}')
    from .interp import OpaqueV
    return OpaqueV(None, f'unconstrained {td} {name}')


def _is_model(interp, cls):
    """frozen dataclasses of dznpy.ast / dznpy.scoping are immutable model values"""
    return isinstance(cls, ClassV) and cls.is_dataclass and cls.frozen and \
        (cls.module.name in ('dznpy.ast', 'dznpy.scoping') or cls.qualname in getattr(interp, 'extra_model_classes', ()))
