"""Loops and comprehensions: concrete unrolling, summarisation over symbolic sequences (DESIGN 2.4/2.5),
user-supplied invariants for loops that cannot be summarised."""
from __future__ import annotations

import ast as pyast
import copy
import os

import z3

from . import ops
from .ops import GuardB, mkseq, subst, canon
from .path import explore, fresh_name
from .values import (LitB, CompB, RangeB, SeqT, SeqV, SetV, DictV, ObjV, RaiseSignal, ReturnSignal, BreakSignal,
                     ContinueSignal, Infeasible, Unsupported, is_z3)

WHILE_UNROLL_LIMIT = 200


def exec_while(interp, node, env, path):
    inv = interp_loop_invariant(interp, node)
    if inv is not None:
        return inv(interp, node, env, path)
    n = 0
    while True:
        c = interp.truthy(interp.eval(node.test, env, path), path)
        if not path.branch(c):
            break
        n += 1
        if n > WHILE_UNROLL_LIMIT:
            raise Unsupported(f'while loop at line {node.lineno} exceeds the unrolling limit '
                              f'({WHILE_UNROLL_LIMIT}); needs an invariant')
        try:
            interp.exec_block(node.body, env, path)
        except BreakSignal:
            return
        except ContinueSignal:
            continue
    interp.exec_block(node.orelse, env, path)


def interp_loop_invariant(interp, node):
    reg = getattr(interp, 'loop_invariants', None)
    if not reg:
        return None
    return reg.get(id(node))


def exec_for(interp, node, env, path):
    inv = interp_loop_invariant(interp, node)
    if inv is not None:
        return inv(interp, node, env, path)
    from .builtins_ import seq_of
    it = interp.eval(node.iter, env, path)
    if isinstance(it, SetV) and it.sym is not None:
        raise Unsupported(f'for-loop over a symbolic set at line {node.lineno} needs an invariant')
    src_cell = it if isinstance(it, SeqV) else None
    t = mkseq(seq_of(interp, it, path).blocks)

    def body(elem, env_, path_):
        interp.assign(node.target, elem, env_, path_)
        interp.exec_block(node.body, env_, path_)

    try:
        iterate(interp, t, body, env, path, node, src_cell)
    except BreakSignal:
        return
    interp.exec_block(node.orelse, env, path)


def iterate(interp, t: SeqT, body, env, path, node, src_cell=None):
    """Run body(elem, env, path) for every element of t in order."""
    for b in t.blocks:
        if isinstance(b, LitB):
            for item in b.items:
                try:
                    body(item, env, path)
                except ContinueSignal:
                    continue
        elif isinstance(b, GuardB):
            if path.branch(b.cond):
                iterate(interp, b.body, body, env, path, node, src_cell)
        elif isinstance(b, CompB):
            summarise(interp, b, body, env, path, node, src_cell)
        else:
            raise Unsupported('block kind')


def collect_names(node_body):
    names = set()
    for n in node_body:
        for x in pyast.walk(n):
            if isinstance(x, pyast.Name) and isinstance(x.ctx, pyast.Store):
                names.add(x.id)
    return names


def summarise(interp, b: CompB, body, env, path, node, src_cell):
    """Summarise  `for i in base if guard: for elem in b.body(i): body(elem)`  for a symbolic base.

    The body is explored on a deep copy of the environment for one fresh index; its effects must be
    appends/extends to lists that existed before the loop (accumulators) or mutations of objects it
    allocated itself.  Result: each accumulator grows by one comprehension block."""
    from .interp import Journal, Poison
    import itertools
    from . import values as V

    idx = z3.Int(fresh_name('k'))
    floor = next(V._oid)           # objects with a smaller oid existed before the loop
    premise = [ops.in_range(b.base, idx)]
    if b.guard is not True:
        premise.append(z3.substitute(b.guard, (b.var, idx)))
    inner = subst(b.body, [(b.var, idx)])
    stmts = getattr(node, 'body', None)
    assigned = collect_names(stmts) if stmts else set()
    if hasattr(node, 'target'):
        for x in pyast.walk(node.target):
            if isinstance(x, pyast.Name):
                assigned.add(x.id)

    parent = path.child()
    parent.binders = path.binders + [idx]
    for f in premise:
        parent.assume(f)
    parent.add_index(idx)
    n_c0 = len(parent.conds)
    n_d0 = len(parent.defs)

    def run(p):
        memo = {}
        env_c = copy.deepcopy(env, memo)
        p.journal = Journal(floor)
        p.binders = parent.binders
        outcome = 'normal'
        exc = None
        _apply_invs(interp, p, inner)
        try:
            iterate(interp, inner, body, env_c, p, node, None)
        except BreakSignal:
            outcome = 'break'
        except RaiseSignal as rs:
            outcome = 'raise'
            exc = rs.exc
        except ReturnSignal:
            raise Unsupported(f'return inside a loop over a symbolic sequence (line {getattr(node, "lineno", "?")})')
        return (outcome, exc, p.journal.entries, env_c)

    results = explore(parent, run)
    if os.environ.get('PYVC_DEBUG_LOOP'):
        print(f'   [loop line {getattr(node, "lineno", "?")}] base={str(b.base)[:50]} paths={len(results)} '
              f'outcomes={[(r[1][0], [str(c)[:50] for c in r[0].conds[n_c0:]]) for r in results]}')
    if not results:
        # body infeasible for every index: the loop is a no-op
        return

    # cell lookup by oid in the *outer* heap
    outer_cells = {}
    _collect_cells(env, outer_cells, set())

    normal, raises, breaks = [], [], []
    for (p, (outcome, exc, entries, env_c)) in results:
        cond = z3.And(*p.conds[n_c0:]) if len(p.conds) > n_c0 else z3.BoolVal(True)
        # definitional facts made inside the body hold for every index that takes this body path
        for d in p.defs[n_d0:]:
            path.add_hyp([idx], z3.Implies(z3.And(*(premise + [cond])), d), 'loop-body-def')
        deltas = {}
        for (what, cell) in entries:
            if what[0] == 'extend' and isinstance(cell, SeqV):
                deltas.setdefault(cell.oid, []).extend(what[1].blocks)
            elif what[0] == 'add' and isinstance(cell, SetV) and isinstance(what[1], (str, ops.StrT)):
                deltas.setdefault(('set', cell.oid), []).append(what[1])
            else:
                raise Unsupported(f'loop over a symbolic sequence mutates pre-existing state other than by '
                                  f'append/extend ({what[0]} on {type(cell).__name__}) at line '
                                  f'{getattr(node, "lineno", "?")}; needs an invariant')
        rec = (cond, deltas, p, exc)
        {'normal': normal, 'raise': raises, 'break': breaks}[outcome].append(rec)
        # hypotheses created inside the body (skolem definitions etc.) stay valid for every index
        for h in p.hyps[len(parent.hyps):]:
            path.hyps.append(h)
        for nm in p.atom_names:
            if nm not in path.atom_names:
                path.atom_names.append(nm)

    if breaks:
        _summarise_break(interp, b, idx, premise, normal, breaks, raises, path, outer_cells, node)
        _poison(env, assigned)
        return

    # raise outcomes: the loop raises iff some index takes a raising body path
    if raises:
        atoms = []
        for (cond, deltas, p, exc) in raises:
            full = z3.And(*([f for f in premise[1:]] + [cond])) if premise[1:] else cond
            atoms.append((interp.exists_atom(idx, b.base, full, path), exc, cond))
        k = None
        # choose outcome: 0 = normal completion, i>0 = i-th raising kind
        any_raise = z3.Or(*[a for (a, _, _) in atoms]) if len(atoms) > 1 else atoms[0][0]
        if path.branch(any_raise):
            for j, (a, exc, cond) in enumerate(atoms):
                last = j == len(atoms) - 1
                if last or path.branch(a):
                    if last:
                        path.assume(a)
                    raise RaiseSignal(_generalise_exc(exc))
        # normal completion: no index raises (definition of the atoms gives the forall facts)

    # accumulators
    per_cell = {}
    for (cond, deltas, p, exc) in normal:
        for key, blocks in deltas.items():
            per_cell.setdefault(key, []).append((cond, blocks))
    for key, cases in per_cell.items():
        if isinstance(key, tuple) and key[0] == 'set':
            cell = outer_cells.get(key[1])
            if cell is None:
                raise Unsupported('accumulator set not reachable')
            _extend_set(interp, cell, b, idx, premise, cases, path)
            continue
        cell = outer_cells.get(key)
        if cell is None:
            raise Unsupported('accumulator list not reachable from the loop environment')
        if src_cell is not None and cell is src_cell:
            raise Unsupported('loop mutates the list it iterates')
        body_blocks = []
        for (cond, blocks) in cases:
            if z3.is_true(cond) and len(cases) == 1 and len(normal) == 1:
                body_blocks.extend(blocks)
            else:
                body_blocks.append(GuardB(cond, mkseq(blocks)))
        guard = True if b.guard is True else z3.substitute(b.guard, (b.var, idx))
        blk = CompB(idx, b.base, guard, mkseq(body_blocks), b.elem_cls)
        if cell.frozen:
            interp.frame_violation(path, cell, 'extend')
        interp.journal_write(path, cell, ('extend', SeqT([blk])))
        cell.term = mkseq(list(cell.term.blocks) + [blk])
    _poison(env, assigned)


def _apply_invs(interp, path, t: SeqT):
    """class invariants (model validity) of the model objects that are the elements of this iteration"""
    from .values import DtV, RecV
    for b in t.blocks:
        if isinstance(b, LitB):
            for it in b.items:
                if isinstance(it, DtV):
                    interp.apply_class_invs(it, path)
                elif isinstance(it, RecV):
                    interp.apply_rec_invs(it, path)
        elif isinstance(b, GuardB):
            _apply_invs(interp, path, b.body)


def _generalise_exc(exc):
    return exc


def _poison(env, names):
    from .interp import Poison
    for n in names:
        if n in env.vars:
            env.vars[n] = Poison(f'variable {n} assigned in a summarised loop')


def _collect_cells(v, out, seen):
    from .interp import Env
    from .values import FuncV
    if id(v) in seen:
        return
    seen.add(id(v))
    if isinstance(v, Env):
        for x in v.vars.values():
            _collect_cells(x, out, seen)
        if v.parent is not None:
            _collect_cells(v.parent, out, seen)
    elif isinstance(v, SeqV):
        out[v.oid] = v
        for blk in v.term.blocks:
            if isinstance(blk, LitB):
                for x in blk.items:
                    _collect_cells(x, out, seen)
    elif isinstance(v, ObjV):
        out[v.oid] = v
        for x in v.fields.values():
            _collect_cells(x, out, seen)
    elif isinstance(v, (SetV, DictV)):
        out[v.oid] = v
        if isinstance(v, DictV) and v.dom is None:
            for x in v.concrete.values():
                _collect_cells(x, out, seen)
    elif isinstance(v, (tuple, list)):
        for x in v:
            _collect_cells(x, out, seen)
    elif isinstance(v, FuncV) and v.closure is not None:
        _collect_cells(v.closure, out, seen)


def _extend_set(interp, cell: SetV, b, idx, premise, cases, path):
    """set accumulator: S' = S u { item(i) | i in base, guard, cond }  (membership characterised by a hypothesis)."""
    new = z3.Const(fresh_name('setacc'), z3.SetSort(z3.StringSort()))
    old = interp.set_z3(cell)
    s = z3.String(fresh_name('s'))
    # forward direction: every produced item is a member; old members stay
    for (cond, items) in cases:
        for it in items:
            body = z3.Implies(z3.And(*(premise + [cond])), z3.IsMember(ops.to_zstr(it), new))
            path.add_hyp([idx], body, 'set-acc-member')
    path.define(z3.IsSubset(old, new))
    # backward direction: a member is old or produced by some index (skolem function of the member)
    wit = z3.Function(fresh_name('setwit'), z3.StringSort(), z3.IntSort())
    alts = [z3.IsMember(s, old)]
    for (cond, items) in cases:
        for it in items:
            w = wit(s)
            alts.append(z3.substitute(z3.And(*(premise + [cond, ops.to_zstr(it) == s])), (idx, w)))
    cell.defs = getattr(cell, 'defs', []) + [(new, s, z3.Implies(z3.IsMember(s, new), z3.Or(*alts)), wit)]
    cell.sym = new
    cell.concrete = None


def _summarise_break(interp, b, idx, premise, normal, breaks, raises, path, outer_cells, node):
    """`for x in S: if c(x): EFFECT; break`  ==  `if exists x in S. c(x): EFFECT`  provided the effect does not
    depend on x and non-breaking iterations have no effect."""
    if raises:
        raise Unsupported('loop with both break and raise over a symbolic sequence')
    for (cond, deltas, p, exc) in normal:
        if deltas:
            raise Unsupported('loop with break: non-breaking iterations have effects')
    conds = []
    effect = None
    for (cond, deltas, p, exc) in breaks:
        key = {k: canon(mkseq(v)) for k, v in deltas.items()}
        for k, blocks in deltas.items():
            if any(_mentions(blk, idx) for blk in blocks):
                raise Unsupported('loop with break: effect depends on the loop element')
        if effect is None:
            effect = (key, deltas)
        elif effect[0] != key:
            raise Unsupported('loop with break: different effects on different paths')
        conds.append(cond)
    c = z3.Or(*conds) if len(conds) > 1 else conds[0]
    full = z3.And(*(premise[1:] + [c])) if premise[1:] else c
    atom = interp.exists_atom(idx, b.base, full, path)
    for key, blocks in effect[1].items():
        cell = outer_cells.get(key)
        if cell is None:
            raise Unsupported('accumulator not reachable')
        if cell.frozen:
            interp.frame_violation(path, cell, 'extend')
        blk = GuardB(atom, mkseq(blocks))
        interp.journal_write(path, cell, ('extend', SeqT([blk])))
        cell.term = mkseq(list(cell.term.blocks) + [blk])


def _mentions(v, var):
    from .interp import _occurs
    if is_z3(v):
        return _occurs(var, v)
    if isinstance(v, (str, int, bool, float)) or v is None:
        return False
    if isinstance(v, ops.StrT):
        return any(_mentions(p, var) for p in v.parts)
    if isinstance(v, ops.JoinT):
        return _mentions(v.sep, var) or _mentions(v.seq, var)
    if isinstance(v, SeqT):
        return any(_mentions(b, var) for b in v.blocks)
    if isinstance(v, LitB):
        return any(_mentions(i, var) for i in v.items)
    if isinstance(v, GuardB):
        return _mentions(v.cond, var) or _mentions(v.body, var)
    if isinstance(v, CompB):
        return (not isinstance(v.base, RangeB) and _occurs(var, v.base)) or _mentions(v.guard, var) or \
            _mentions(v.body, var)
    if isinstance(v, SeqV):
        return _mentions(v.term, var)
    if isinstance(v, ObjV):
        return any(_mentions(x, var) for x in v.fields.values())
    if hasattr(v, 'expr') and is_z3(getattr(v, 'expr')):
        return _occurs(var, v.expr)
    if isinstance(v, tuple):
        return any(_mentions(x, var) for x in v)
    return False


# ------------------------------------------------------------------------------------------ comprehensions

def eval_comprehension(interp, node, env, path):
    """[elt for t in it if c ...]  ->  SeqV; evaluated as the equivalent accumulate loop in its own scope."""
    from .interp import Env
    if isinstance(node, pyast.DictComp):
        raise Unsupported('dict comprehension')
    acc = SeqV()
    cenv = Env(env.module, env, env.act)
    cenv.vars['.acc'] = acc
    gens = node.generators

    def level(k, env_, path_):
        if k == len(gens):
            v = interp.eval(node.elt, env_, path_)
            from .builtins_ import list_append
            list_append(interp, path_, env_.lookup('.acc'), v)
            return
        g = gens[k]
        if g.is_async:
            raise Unsupported('async comprehension')
        from .builtins_ import seq_of
        it = interp.eval(g.iter, env_, path_)
        if isinstance(it, SetV) and it.sym is not None:
            return set_comprehension_over_symbolic(interp, node, g, k, it, env_, path_, level)
        t = mkseq(seq_of(interp, it, path_).blocks)

        def body(elem, e2, p2):
            interp.assign(g.target, elem, e2, p2)
            for cnd in g.ifs:
                if not p2.branch(interp.truthy(interp.eval(cnd, e2, p2), p2)):
                    return
            level(k + 1, e2, p2)

        fake = _FakeLoop(g, node)
        iterate(interp, t, body, env_, path_, fake, it if isinstance(it, SeqV) else None)

    level(0, cenv, path)
    acc.fresh_in = env.act
    return acc


class _FakeLoop:
    def __init__(self, gen, node):
        self.target = gen.target
        self.body = []
        self.lineno = getattr(node, 'lineno', '?')


def set_comprehension_over_symbolic(interp, node, g, k, it, env, path, level):
    """[x for x in S if p(x)] over a symbolic string set: only the emptiness of the result is defined
    (the order is the oracle); the result is an opaque sequence with the emptiness fact."""
    from .sorts import TypeDesc
    if k != 0 or len(node.generators) != 1:
        raise Unsupported('nested comprehension over a symbolic set')
    # evaluate element and condition for a fresh member
    x = z3.String(fresh_name('m'))
    sub = path.child()
    sub.assume(z3.IsMember(x, it.sym))
    import copy as _c
    env_c = _c.deepcopy(env)
    interp.assign(g.target, ops.mkstr([x]), env_c, sub)
    cond = True
    n0 = len(sub.pc)
    for cnd in g.ifs:
        c = interp.truthy(interp.eval(cnd, env_c, sub), sub)
        cond = interp.and_(cond, c)
    if sub.pending:
        raise Unsupported('comprehension over a symbolic set with branching body')
    elt = interp.eval(node.elt, env_c, sub)
    if not (isinstance(elt, ops.StrT) and len(elt.parts) == 1 and is_z3(elt.parts[0]) and elt.parts[0].eq(x)):
        raise Unsupported('comprehension over a symbolic set must be a filter')
    # result as a set: { x in S | cond(x) }, handed out as an order-oracle sequence whose only defined
    # observations are emptiness and membership
    if cond is False:
        return          # nothing passes the filter: the result stays the empty list
    res = it.sym if cond is True else z3.Lambda([x], z3.And(z3.IsMember(x, it.sym), interp.zbool(cond)))
    f = z3.Function('py.list_of_set_omega', z3.SetSort(z3.StringSort()), z3.IntSort(), z3.SeqSort(z3.StringSort()))
    omega = z3.Int(fresh_name('omega'))
    base = f(res, omega)
    path.define((z3.Length(base) == 0) == (res == z3.EmptySet(z3.StringSort())))
    acc = env.lookup('.acc')
    acc.term = interp.seq_of_base(base, TypeDesc('str'), path)
    acc.set_view = res
    interp.set_iteration_sites.append(('comprehension(set)', list(interp.call_stack)))
