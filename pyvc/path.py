"""Path state: path condition, decisions, quantifier-free hypothesis instantiation, solver access."""
from __future__ import annotations

import itertools
import os
import time
import z3

from .values import Infeasible, Unsupported

FEAS_RLIMIT = 40000
FEAS_RLIMIT_STR = 400000
FEAS_MODE = ['tiny']     # 'strings': worlds without z3 sequences (generator harness) get a larger budget
PROOF_STEP_S = float(os.environ.get('PYVC_PROOF_STEP_S', '3.0'))
_FEAS_CACHE = {}
PROF = {}
STATS = {'solver_calls': 0, 'solver_s': 0.0, 'unknown': 0}

_glob = itertools.count(1)


def fresh_name(prefix):
    return f'{prefix}!{next(_glob)}'


class Hyp:
    """Universally quantified hypothesis  forall vars. body  kept OUTSIDE the solver and
    instantiated by the engine at the index terms it knows (z3 is never given a quantifier)."""

    def __init__(self, vars_, body, origin=''):
        self.vars, self.body, self.origin = list(vars_), body, origin

    def instantiate(self, terms):
        key = tuple(t.get_id() for t in terms)
        c = self.__dict__.setdefault('_cache', {})
        hit = c.get(key)
        if hit is None:
            hit = (z3.substitute(self.body, *[(v, t) for v, t in zip(self.vars, terms)]), list(terms))
            c[key] = hit
        return hit[0]


# ---- workaround for a z3 unsoundness (found with a behaviour-preserving refactoring, reproduced on z3 5.1.0 and 4.8.12):
#   Length(s) <= 0  /\  (0 <= k < Length(s)  =>  P(seq.extract(seq.nth(s, k), Length(seq.nth(s, k)) - 1, 1)))
# is reported `unsat` although s = [] is a model; with  Length(s) == 0  instead of the bound it is `sat`, and adding
# the (valid) lemma  Length(s) <= 0 => Length(s) == 0  restores `sat`.  Every query therefore carries that lemma for
# every term whose length occurs in it.  The lemma is a tautology: it can never make a query unsat that is not.
_LEN_MEMO = {}      # ast id -> frozenset of ids of terms t with Length(t) below that node
_LEN_TERMS = {}     # id -> t (keeps the ASTs alive, so ids stay valid)
_LEN_KEEP = []
_LEN_LEMMA = {}


def len_lemmas(formulas):
    """the lemmas  Length(t) <= 0 => Length(t) == 0  for every t whose length occurs in the formulas.  The ASTs are walked
    through the C API on raw handles (no Python wrapper per node: the wrapped walk cost more than the solver calls),
    memoised per AST id; the top-level formulas are kept alive so that ids are never recycled."""
    from z3 import z3core as C
    zctx = z3.main_ctx()
    cref = zctx.ref()
    ids = set()
    for f in formulas:
        if not z3.is_expr(f):
            continue
        fid = f.get_id()
        if fid not in _LEN_MEMO:
            _LEN_KEEP.append(f)
            stack = [(f.as_ast(), False)]
            while stack:
                a, done = stack.pop()
                i = C.Z3_get_ast_id(cref, a)
                if not done and i in _LEN_MEMO:
                    continue
                if C.Z3_get_ast_kind(cref, a) != z3.Z3_APP_AST:
                    _LEN_MEMO[i] = frozenset()
                    continue
                app = C.Z3_to_app(cref, a)
                n = C.Z3_get_app_num_args(cref, app)
                kids = [C.Z3_get_app_arg(cref, app, k) for k in range(n)]
                if not done:
                    stack.append((a, True))
                    for c in kids:
                        if C.Z3_get_ast_id(cref, c) not in _LEN_MEMO:
                            stack.append((c, False))
                    continue
                acc = set()
                if n == 1 and C.Z3_get_decl_kind(cref, C.Z3_get_app_decl(cref, app)) == z3.Z3_OP_SEQ_LENGTH:
                    t = z3.z3._to_expr_ref(kids[0], zctx)
                    _LEN_TERMS[t.get_id()] = t
                    acc.add(t.get_id())
                for c in kids:
                    acc |= _LEN_MEMO.get(C.Z3_get_ast_id(cref, c), frozenset())
                _LEN_MEMO[i] = frozenset(acc) if acc else _EMPTY
        ids |= _LEN_MEMO[fid]
    res = []
    for i in sorted(ids):
        lem = _LEN_LEMMA.get(i)
        if lem is None:
            n = z3.Length(_LEN_TERMS[i])
            lem = _LEN_LEMMA[i] = z3.Implies(n <= 0, n == 0)
        res.append(lem)
    return res


_EMPTY = frozenset()


class Path:
    def __init__(self, decisions=(), timeout_ms=4000, parent=None):
        self.decisions = list(decisions)
        self.pos = 0
        self.pending = []            # alternative decision prefixes discovered on this path
        self.pc = list(parent.pc) if parent else []
        self.conds = list(parent.conds) if parent else []    # branch decisions / explicit assumptions
        self.defs = list(parent.defs) if parent else []      # definitional facts about fresh symbols
        self.hyps = list(parent.hyps) if parent else []
        self.index_terms = list(parent.index_terms) if parent else []
        self.binders = list(parent.binders) if parent else []   # active bound index variables
        self.pred_done = set(parent.pred_done) if parent else set()   # predicate applications with lemmas given
        self.atom_names = list(parent.atom_names) if parent else []   # exists-atoms defined on this lineage
        self.timeout_ms = timeout_ms
        self.feas_timeout_ms = parent.feas_timeout_ms if parent else 700
        self.journal = None          # loop-body effect journal
        self.journal_floor = 0
        self.depth = (parent.depth + 1) if parent else 0
        self.notes = []
        self.obligations = []        # safety obligations raised while executing (harness collects)
        self._solver = None
        self._solver_n = 0
        self._inst_done = set()
        self.elem_hooks = parent.elem_hooks if parent else []   # callbacks on new element values

    # ---- solver -------------------------------------------------------------------------------------
    # Every query is given to a FRESH non-incremental solver: with push/pop z3 switches to its incremental
    # core, which ignored the timeout on string queries and took 20-50 s (measured); a fresh solver answers
    # the same queries (often `unknown` for satisfiable string problems) within the budget.
    class _Store:
        def __init__(self):
            self.items = []

        def assertions(self):
            return self.items

        def add(self, f):
            self.items.append(f)

        def sexpr(self):
            return '\n'.join(f.sexpr() for f in self.items)

        def reason_unknown(self):
            return getattr(self, 'reason', '')

    def _sync(self):
        if self._solver is None:
            self._solver = Path._Store()
            self._solver_n = 0
            self._inst_done = set()
            self._lemma_done = set()
            self._lemma_pos = 0
            self._extra_for_lemmas = []
        while self._solver_n < len(self.pc):
            self._solver.add(self.pc[self._solver_n])
            self._solver_n += 1
        # instantiate hypotheses at known index terms (single-variable and pairs)
        for hi, h in enumerate(self.hyps):
            n = len(h.vars)
            if n > 2:
                continue
            cands = [[t for t in self.index_terms if t.sort() == v.sort()] for v in h.vars]
            for c in itertools.product(*cands):
                key = (hi, tuple(t.get_id() for t in c))
                if key in self._inst_done:
                    continue
                self._inst_done.add(key)
                self._solver.add(h.instantiate(c))

    def _run(self, extra, timeout_ms, want_model=False):
        self._extra_for_lemmas = [e for e in extra if z3.is_expr(e)]
        self._sync()
        s = z3.Solver()
        if timeout_ms <= 1000:
            # feasibility query: deterministic resource limit (a timer is not honoured reliably by the
            # sequence solver and larger budgets ran into a z3 vector overflow after ~25 s, measured).
            # Queries without sequence operations in the decided condition get a larger budget.
            s.set('rlimit', FEAS_RLIMIT if FEAS_MODE[0] == 'tiny' else
                  FEAS_RLIMIT_STR + 2000 * len(self._solver.assertions()))
        else:
            s.set('timeout', int(timeout_ms))
        for f in self._solver.assertions():
            s.add(f)
        for e in extra:
            s.add(e)
        for f in len_lemmas(list(self._solver.assertions()) + [e for e in extra if z3.is_expr(e)]):
            s.add(f)
        t0 = time.time()
        try:
            r = s.check()
        except z3.Z3Exception as ex:
            r = z3.unknown
            self._solver.reason = f'z3 exception {ex}'
        dt = time.time() - t0
        STATS['solver_calls'] += 1
        STATS['solver_s'] += dt
        if os.environ.get('PYVC_PROF'):
            import traceback
            fr = [f'{f.name}:{f.lineno}' for f in traceback.extract_stack()[-9:-2]]
            PROF.setdefault(' < '.join(reversed(fr[-5:])), [0, 0.0])
            PROF[' < '.join(reversed(fr[-5:]))][0] += 1
            PROF[' < '.join(reversed(fr[-5:]))][1] += dt
        if r == z3.unknown:
            STATS['unknown'] += 1
            try:
                self._solver.reason = s.reason_unknown()
            except Exception:
                pass
        if dt > 2.0 and os.environ.get('PYVC_SLOW_DUMP'):
            open(os.environ['PYVC_SLOW_DUMP'], 'w').write(s.to_smt2())
            raise SystemExit(0)
        if dt > 2.0 and os.environ.get('PYVC_SLOW'):
            import sys as _s
            _s.stderr.write(f'[slow {dt:.1f}s r={r}] extra={[str(e)[:200] for e in extra]} '
                            f'n_assert={len(self._solver.assertions())}\n')
        m = None
        if want_model and r == z3.sat:
            m = s.model()
        return r, m

    def _run_forked(self, extra, seconds):
        """second attempt for a feasibility query in a forked child with a HARD time limit (z3's sequence
        solver honours neither timeout nor rlimit reliably)"""
        import select
        import signal
        self._sync()
        r_fd, w_fd = os.pipe()
        t0 = time.time()
        pid = os.fork()
        if pid == 0:
            try:
                os.close(r_fd)
                s = z3.Solver()
                s.set('timeout', int(seconds * 1000))
                for f in self._solver.assertions():
                    s.add(f)
                for e in extra:
                    s.add(e)
                for f in len_lemmas(list(self._solver.assertions()) + [e for e in extra if z3.is_expr(e)]):
                    s.add(f)
                r = s.check()
                os.write(w_fd, b'u' if r == z3.unsat else (b's' if r == z3.sat else b'?'))
            except BaseException:
                pass
            finally:
                os._exit(0)
        os.close(w_fd)
        res = z3.unknown
        ready, _, _ = select.select([r_fd], [], [], seconds + 0.2)
        if ready:
            b = os.read(r_fd, 1)
            res = z3.unsat if b == b'u' else (z3.sat if b == b's' else z3.unknown)
        else:
            try:
                os.kill(pid, signal.SIGKILL)
            except Exception:
                pass
        os.close(r_fd)
        try:
            os.waitpid(pid, 0)
        except Exception:
            pass
        STATS['forked_checks'] = STATS.get('forked_checks', 0) + 1
        STATS['solver_s'] += time.time() - t0
        return res

    def _quick_unsat(self, f):
        key = (tuple(a.get_id() for a in self.pc), tuple(id(h) for h in self.hyps),
               tuple(x.get_id() for x in self.index_terms), ('quick', f.get_id()))
        hit = _FEAS_CACHE.get(key)
        if hit is not None:
            return hit[0]
        self._sync()
        s = z3.Solver()
        s.set('rlimit', 8000)
        for a in self._solver.assertions():
            s.add(a)
        s.add(f)
        for a in len_lemmas(list(self._solver.assertions()) + [f]):
            s.add(a)
        try:
            r = s.check() == z3.unsat
        except z3.Z3Exception:
            r = False
        STATS['solver_calls'] += 1
        _FEAS_CACHE[key] = (r, list(self.pc), list(self.hyps), list(self.index_terms), [f])
        return r

    def _cvc5_says_sat(self):
        import subprocess
        import tempfile
        self._sync()
        s = z3.Solver()
        for a in self._solver.assertions():
            s.add(a)
        fn = None
        try:
            with tempfile.NamedTemporaryFile('w', suffix='.smt2', delete=False) as f:
                f.write('(set-logic ALL)\n' + s.to_smt2())
                fn = f.name
            p = subprocess.run(['/usr/bin/cvc5', '--strings-exp', '--tlimit=3000', fn], capture_output=True, text=True,
                               timeout=8)
            out = p.stdout.strip().splitlines()
            return bool(out) and out[0].strip() == 'sat'
        except Exception:
            return False
        finally:
            if fn:
                try:
                    os.unlink(fn)
                except OSError:
                    pass

    def check(self, *extra, timeout_ms=None, proof_step=False):
        """sat / unsat / unknown of pc + extra.  proof_step: the answer `unsat` is needed for a proof (meta-rule side
        condition), so an `unknown` of the cheap in-process attempt is retried in a forked child with a hard limit."""
        t = timeout_ms or self.timeout_ms
        if t <= 1000:
            # feasibility queries repeat along shared path prefixes (paths are re-executed): memoise them.
            # Keys are z3 AST ids; the ASTs are kept alive in the cache entry so ids cannot be recycled.
            key = (tuple(f.get_id() for f in self.pc), tuple(id(h) for h in self.hyps),
                   tuple(x.get_id() for x in self.index_terms), tuple(e.get_id() for e in extra if z3.is_expr(e)))
            hit = _FEAS_CACHE.get(key)
            if hit is not None:
                STATS['cache_hits'] = STATS.get('cache_hits', 0) + 1
                return hit[0]
            r, _ = self._run(extra, t)
            if r == z3.unknown and proof_step:
                r = self._run_forked(extra, PROOF_STEP_S)
            _FEAS_CACHE[key] = (r, list(self.pc), list(self.hyps), list(self.index_terms), list(extra))
            return r
        r, _ = self._run(extra, t)
        return r

    def model(self, *extra):
        r, m = self._run(extra, self.timeout_ms, want_model=True)
        return m

    def entails(self, f, timeout_ms=None):
        return self.check(z3.Not(f), timeout_ms=timeout_ms or self.feas_timeout_ms, proof_step=True) == z3.unsat

    # ---- path condition ------------------------------------------------------------------------------
    def assume(self, f):
        if f is True:
            return
        if f is False:
            raise Infeasible()
        g = z3.simplify(f)
        if z3.is_true(g):
            return
        if z3.is_false(g):
            raise Infeasible()
        self.pc.append(f)
        self.conds.append(f)

    def define(self, f):
        """definitional fact about fresh symbols (never part of a branch condition)"""
        if f is True:
            return
        if z3.is_true(f):
            return
        self.pc.append(f)
        self.defs.append(f)

    def add_hyp(self, vars_, body, origin=''):
        self.hyps.append(Hyp(vars_, body, origin))

    def add_index(self, t):
        for u in self.index_terms:
            if u.eq(t):
                return
        self.index_terms.append(t)

    def branch(self, cond):
        """Decide a (possibly symbolic) condition; forks the exploration when both sides are feasible."""
        if isinstance(cond, bool):
            return cond
        g = z3.simplify(cond)
        if z3.is_true(g):
            return True
        if z3.is_false(g):
            return False
        rt = self.check(cond, timeout_ms=self.feas_timeout_ms)
        rf = None
        if rt == z3.unsat:
            # belt against solver unsoundness (a z3 bug was found, see len_lemmas): if the negation is refuted as
            # quickly, the path condition itself is reported inconsistent - then no side is pruned (harmless if the
            # path really is infeasible).  A small resource limit: `unsat` answers are fast, anything else means "fine".
            if self._quick_unsat(z3.Not(cond)):
                # z3 reports the path condition itself inconsistent.  An independent solver is asked (rare event):
                # if it finds the path feasible the run stops as undecided (solver disagreement), otherwise the path
                # is infeasible and is dropped as a whole.
                STATS['both_unsat'] = STATS.get('both_unsat', 0) + 1
                if self._cvc5_says_sat():
                    raise Unsupported('solver disagreement: z3 refutes a path condition that cvc5 finds satisfiable')
                raise Infeasible()
            else:
                if os.environ.get('PYVC_DEBUG_BRANCH'):
                    print(f'   [branch] {str(cond)[:70]} decided False (cond unsat) npc={len(self.pc)} nhyps={len(self.hyps)}')
                return False
        if rf is None:
            rf = self.check(z3.Not(cond), timeout_ms=self.feas_timeout_ms)
            if rf == z3.unsat:
                if os.environ.get('PYVC_DEBUG_BRANCH'):
                    print(f'   [branch] {str(cond)[:70]} decided True (negation unsat) npc={len(self.pc)} nhyps={len(self.hyps)}')
                return True
        if self.pos < len(self.decisions):
            d = self.decisions[self.pos]
        else:
            d = True
            self.decisions.append(True)
            self.pending.append(self.decisions[:-1] + [False])
            if os.environ.get('PYVC_FORKS'):
                import traceback
                fr = [f'{f.name}:{f.lineno}' for f in traceback.extract_stack()[-8:-1]]
                print(f'FORK[{rt},{rf}] {str(cond)[:300]!r} at {" < ".join(reversed(fr))}')
        self.pos += 1
        self.pc.append(cond if d else z3.Not(cond))
        self.conds.append(cond if d else z3.Not(cond))
        return d

    def known_constructor(self, expr):
        """the datatype constructor index that the branch decisions taken so far fix for `expr` (recognizer
        literals in the path condition), or None"""
        for f in self.conds:
            g, pos = f, True
            if z3.is_not(g):
                g, pos = g.arg(0), False
            if pos and z3.is_app(g) and g.decl().kind() == z3.Z3_OP_DT_IS and g.arg(0).eq(expr):
                return g.decl()
        return None

    def choose(self, n, label=''):
        """Non-deterministic choice among n alternatives (used for outcome forks)."""
        k = 0
        while k < n - 1:
            if self.pos < len(self.decisions):
                d = self.decisions[self.pos]
            else:
                d = True
                self.decisions.append(True)
                self.pending.append(self.decisions[:-1] + [False])
            self.pos += 1
            if d:
                return k
            k += 1
        return n - 1

    def child(self, decisions=()):
        return Path(decisions, self.timeout_ms, parent=self)

    def fresh_int(self, prefix='i'):
        return z3.Int(fresh_name(prefix))

    def fresh_const(self, prefix, sort):
        """Fresh symbol; under active binders it is a Skolem FUNCTION of the bound index variables."""
        name = fresh_name(prefix)
        if not self.binders:
            return z3.Const(name, sort)
        f = z3.Function(name, *[z3.IntSort() for _ in self.binders], sort)
        return f(*self.binders)


def explore(parent: Path, run, max_paths=4000):
    """Enumerate all decision sequences of run(path); returns [(path, result)]."""
    results = []
    work = [[]]
    n = 0
    while work:
        dec = work.pop()
        p = parent.child(dec)
        n += 1
        if n > max_paths:
            raise Unsupported(f'path explosion (> {max_paths} paths)')
        try:
            r = run(p)
        except Infeasible:
            work.extend(p.pending)
            continue
        work.extend(p.pending)
        results.append((p, r))
    return results
