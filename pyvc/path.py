"""Path state: path condition, decisions, quantifier-free hypothesis instantiation, solver access."""
from __future__ import annotations

import itertools
import time
import z3

from .values import Infeasible, Unsupported

STATS = {'solver_calls': 0, 'solver_s': 0.0, 'unknown': 0}

_glob = itertools.count(1)


def fresh_name(prefix):
    return f'{prefix}!{next(_glob)}'


class Hyp:
    """Universally quantified hypothesis  forall vars. body  kept OUTSIDE the solver and
    instantiated by the engine at the index terms it knows (z3 is never given a quantifier)."""

    def __init__(self, vars_, body, origin=''):
        self.vars, self.body, self.origin = list(vars_), body, origin

    def instantiate(self, terms):
        return z3.substitute(self.body, *[(v, t) for v, t in zip(self.vars, terms)])


class Path:
    def __init__(self, decisions=(), timeout_ms=4000, parent=None):
        self.decisions = list(decisions)
        self.pos = 0
        self.pending = []            # alternative decision prefixes discovered on this path
        self.pc = list(parent.pc) if parent else []
        self.hyps = list(parent.hyps) if parent else []
        self.index_terms = list(parent.index_terms) if parent else []
        self.binders = list(parent.binders) if parent else []   # active bound index variables
        self.timeout_ms = timeout_ms
        self.journal = None          # loop-body effect journal
        self.journal_floor = 0
        self.depth = (parent.depth + 1) if parent else 0
        self.notes = []
        self.obligations = []        # safety obligations raised while executing (harness collects)
        self._solver = None
        self._solver_n = 0
        self._inst_done = set()
        self.elem_hooks = parent.elem_hooks if parent else []   # callbacks on new element values

    # ---- solver -------------------------------------------------------------------------------------
    def _sync(self):
        if self._solver is None:
            self._solver = z3.Solver()
            self._solver.set('timeout', self.timeout_ms)
            self._solver_n = 0
            self._inst_done = set()
        while self._solver_n < len(self.pc):
            self._solver.add(self.pc[self._solver_n])
            self._solver_n += 1
        # instantiate hypotheses at known index terms (single-variable and pairs)
        for hi, h in enumerate(self.hyps):
            n = len(h.vars)
            if n > 2:
                continue
            cands = [[t for t in self.index_terms if t.sort() == v.sort()] for v in h.vars]
            for c in itertools.product(*cands):
                key = (hi, tuple(t.get_id() for t in c))
                if key in self._inst_done:
                    continue
                self._inst_done.add(key)
                self._solver.add(h.instantiate(c))

    def check(self, *extra):
        """sat / unsat / unknown of pc + extra."""
        self._sync()
        t0 = time.time()
        self._solver.push()
        try:
            for e in extra:
                self._solver.add(e)
            r = self._solver.check()
        finally:
            self._solver.pop()
        STATS['solver_calls'] += 1
        STATS['solver_s'] += time.time() - t0
        if r == z3.unknown:
            STATS['unknown'] += 1
        return r

    def model(self, *extra):
        self._sync()
        self._solver.push()
        try:
            for e in extra:
                self._solver.add(e)
            r = self._solver.check()
            return self._solver.model() if r == z3.sat else None
        finally:
            self._solver.pop()

    def entails(self, f):
        return self.check(z3.Not(f)) == z3.unsat

    # ---- path condition ------------------------------------------------------------------------------
    def assume(self, f):
        if f is True:
            return
        if f is False:
            raise Infeasible()
        f = z3.simplify(f)
        if z3.is_true(f):
            return
        if z3.is_false(f):
            raise Infeasible()
        self.pc.append(f)

    def add_hyp(self, vars_, body, origin=''):
        self.hyps.append(Hyp(vars_, body, origin))

    def add_index(self, t):
        for u in self.index_terms:
            if u.eq(t):
                return
        self.index_terms.append(t)

    def branch(self, cond):
        """Decide a (possibly symbolic) condition; forks the exploration when both sides are feasible."""
        if isinstance(cond, bool):
            return cond
        cond = z3.simplify(cond)
        if z3.is_true(cond):
            return True
        if z3.is_false(cond):
            return False
        rt = self.check(cond)
        if rt == z3.unsat:
            self.pc.append(z3.Not(cond))
            return False
        rf = self.check(z3.Not(cond))
        if rf == z3.unsat:
            self.pc.append(cond)
            return True
        if self.pos < len(self.decisions):
            d = self.decisions[self.pos]
        else:
            d = True
            self.decisions.append(True)
            self.pending.append(self.decisions[:-1] + [False])
        self.pos += 1
        self.pc.append(cond if d else z3.Not(cond))
        return d

    def choose(self, n, label=''):
        """Non-deterministic choice among n alternatives (used for outcome forks)."""
        k = 0
        while k < n - 1:
            if self.pos < len(self.decisions):
                d = self.decisions[self.pos]
            else:
                d = True
                self.decisions.append(True)
                self.pending.append(self.decisions[:-1] + [False])
            self.pos += 1
            if d:
                return k
            k += 1
        return n - 1

    def child(self, decisions=()):
        return Path(decisions, self.timeout_ms, parent=self)

    def fresh_int(self, prefix='i'):
        return z3.Int(fresh_name(prefix))

    def fresh_const(self, prefix, sort):
        """Fresh symbol; under active binders it is a Skolem FUNCTION of the bound index variables."""
        name = fresh_name(prefix)
        if not self.binders:
            return z3.Const(name, sort)
        f = z3.Function(name, *[z3.IntSort() for _ in self.binders], sort)
        return f(*self.binders)


def explore(parent: Path, run, max_paths=4000):
    """Enumerate all decision sequences of run(path); returns [(path, result)]."""
    results = []
    work = [[]]
    n = 0
    while work:
        dec = work.pop()
        p = parent.child(dec)
        n += 1
        if n > max_paths:
            raise Unsupported(f'path explosion (> {max_paths} paths)')
        try:
            r = run(p)
        except Infeasible:
            work.extend(p.pending)
            continue
        work.extend(p.pending)
        results.append((p, r))
    return results
