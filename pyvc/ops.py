"""Pure operations on symbolic strings and sequence terms (normalisation, z3 conversion, substitution)."""
from __future__ import annotations

import z3

from .values import (StrT, JoinT, SeqT, LitB, CompB, RangeB, SeqV, ObjV, DtV, EnumV, SetV, DictV,
                     Unsupported, is_z3)

# Python's str.splitlines() boundaries and str.strip() whitespace
LINE_BREAKS = '\n\r\x0b\x0c\x1c\x1d\x1e\x85\u2028\u2029'
WHITESPACE = ' \t\n\r\x0b\x0c\x1c\x1d\x1e\x1f\x85\xa0\u1680\u2000\u2001\u2002\u2003\u2004\u2005\u2006' \
             '\u2007\u2008\u2009\u200a\u2028\u2029\u202f\u205f\u3000'

_abs_consts = {}


class GuardB:
    """[body] if cond else []   (zero-binder comprehension block)"""
    __slots__ = ('cond', 'body')

    def __init__(self, cond, body):
        self.cond, self.body = cond, body

    def __repr__(self):
        return f'Guard[{self.body} if {self.cond}]'

    def __deepcopy__(self, memo):
        return self


def zstr(s):
    return z3.StringVal(s)


def re_of_chars(chars):
    return z3.Union(*[z3.Re(zstr(c)) for c in chars]) if len(chars) > 1 else z3.Re(zstr(chars))


RE_WS = None
RE_BREAK = None
RE_IDENT = None


def _init_re():
    global RE_WS, RE_BREAK, RE_IDENT
    if RE_WS is None:
        RE_WS = re_of_chars(WHITESPACE)
        RE_BREAK = re_of_chars(LINE_BREAKS)
        alpha = z3.Union(z3.Range(zstr('a'), zstr('z')), z3.Range(zstr('A'), zstr('Z')), z3.Re(zstr('_')))
        alnum = z3.Union(alpha, z3.Range(zstr('0'), zstr('9')))
        RE_IDENT = z3.Concat(alpha, z3.Star(alnum))


def is_ident(zs):
    _init_re()
    return z3.InRe(zs, RE_IDENT)


# Character-class predicates are uninterpreted functions; the engine adds the lemma instances below
# (theory_lemmas) for every application that occurs in a query.  This keeps the solver in EUF + basic
# string theory instead of regular expressions over 25-character unions (measured: minutes -> ms).
P_ALL_WS = z3.Function('py.all_ws', z3.StringSort(), z3.BoolSort())       # every char is str.strip() whitespace
P_WS_CHAR = z3.Function('py.ws_char', z3.StringSort(), z3.BoolSort())     # 1-char string that is whitespace
P_NO_BREAK = z3.Function('py.no_break', z3.StringSort(), z3.BoolSort())   # no str.splitlines() boundary inside
P_BREAK_CHAR = z3.Function('py.break_char', z3.StringSort(), z3.BoolSort())


def no_break(zs):
    """zs contains no line boundary character."""
    if z3.is_string_value(zs):
        return z3.BoolVal(not any(c in LINE_BREAKS for c in _unescape(zs.as_string())))
    return P_NO_BREAK(zs)


def all_ws(zs):
    if z3.is_string_value(zs):
        return z3.BoolVal(_unescape(zs.as_string()).strip() == '')
    return P_ALL_WS(zs)


def ws_char(zs):
    if z3.is_string_value(zs):
        v = _unescape(zs.as_string())
        return z3.BoolVal(len(v) == 1 and v in WHITESPACE)
    return P_WS_CHAR(zs)


def first_char(zs):
    return z3.SubString(zs, 0, 1)


def last_char(zs):
    return z3.SubString(zs, z3.Length(zs) - 1, 1)


def theory_lemmas(exprs, done):
    """Lemma instances for the character-class predicates occurring in `exprs` (list of z3 Bool).
    `done` is a set of term ids already treated.  Returns new lemmas (sound facts about CPython strings)."""
    out = []
    work = list(exprs)
    seen = set()
    apps = []
    while work:
        e = work.pop()
        if e.get_id() in seen:
            continue
        seen.add(e.get_id())
        if z3.is_app(e):
            d = e.decl()
            if d.kind() == z3.Z3_OP_UNINTERPRETED and d.name() in ('py.all_ws', 'py.ws_char', 'py.no_break',
                                                                   'py.break_char'):
                apps.append(e)
            work.extend(e.children())
        elif z3.is_quantifier(e):
            work.append(e.body())
    for a in apps:
        if a.get_id() in done:
            continue
        done.add(a.get_id())
        name = a.decl().name()
        t = a.arg(0)
        if name in ('py.ws_char', 'py.break_char'):
            chars = WHITESPACE if name == 'py.ws_char' else LINE_BREAKS
            if z3.is_string_value(t):
                v = _unescape(t.as_string())
                out.append(a == z3.BoolVal(len(v) == 1 and v in chars))
            else:
                out.append(a == z3.Or(*[t == zstr(c) for c in chars]))
            continue
        pred, charp = (P_ALL_WS, P_WS_CHAR) if name == 'py.all_ws' else (P_NO_BREAK, None)
        if z3.is_string_value(t):
            v = _unescape(t.as_string())
            out.append(a == z3.BoolVal(v.strip() == '' if name == 'py.all_ws'
                                       else not any(c in LINE_BREAKS for c in v)))
            continue
        if z3.is_app(t) and t.decl().kind() == z3.Z3_OP_SEQ_CONCAT:
            out.append(a == z3.And(*[pred(c) if not z3.is_string_value(c) else
                                     (all_ws(c) if name == 'py.all_ws' else no_break(c)) for c in t.children()]))
        if z3.is_app(t) and t.decl().kind() == z3.Z3_OP_ITE:
            c, x, y = t.children()
            out.append(a == z3.If(c, pred(x) if not z3.is_string_value(x) else
                                  (all_ws(x) if name == 'py.all_ws' else no_break(x)),
                                  pred(y) if not z3.is_string_value(y) else
                                  (all_ws(y) if name == 'py.all_ws' else no_break(y))))
        out.append(z3.Implies(z3.Length(t) == 0, a))
        if name == 'py.all_ws':
            out.append(z3.Implies(z3.And(a, z3.Length(t) > 0),
                                  z3.And(P_WS_CHAR(first_char(t)), P_WS_CHAR(last_char(t)))))
            out.append(z3.Implies(z3.Length(t) == 1, a == P_WS_CHAR(t)))
        else:
            out.append(z3.Implies(z3.And(a, z3.Length(t) > 0),
                                  z3.And(z3.Not(P_BREAK_CHAR(first_char(t))), z3.Not(P_BREAK_CHAR(last_char(t))))))
            out.append(z3.Implies(z3.Length(t) == 1, a == z3.Not(P_BREAK_CHAR(t))))
    return out


def mkstr(parts):
    """Normalise a list of parts (str | z3 String | JoinT | StrT) into str or StrT."""
    flat = []
    for p in parts:
        if isinstance(p, StrT):
            flat.extend(p.parts)
        elif isinstance(p, str):
            if p:
                flat.append(p)
        elif is_z3(p):
            if z3.is_string_value(p):
                s = p.as_string()
                s = _unescape(s)
                if s:
                    flat.append(s)
            else:
                flat.append(p)
        elif isinstance(p, JoinT):
            flat.append(p)
        else:
            raise Unsupported(f'string part of type {type(p).__name__}')
    out = []
    for p in flat:
        if isinstance(p, str) and out and isinstance(out[-1], str):
            out[-1] = out[-1] + p
        else:
            out.append(p)
    if not out:
        return ''
    if len(out) == 1 and isinstance(out[0], str):
        return out[0]
    return StrT(out)


def _unescape(s):
    # z3 prints non-ascii as \u{..}; as_string keeps escapes
    import re
    return re.sub(r'\\u\{([0-9a-fA-F]+)\}', lambda m: chr(int(m.group(1), 16)), s)


def canon(v):
    """Canonical structural key of a value (for abstraction constants and syntactic equality)."""
    if isinstance(v, (str, int, bool, float)) or v is None:
        return repr(v)
    if is_z3(v):
        return 'z3:' + v.sexpr()
    if isinstance(v, StrT):
        return 'S(' + '+'.join(canon(p) for p in v.parts) + ')'
    if isinstance(v, JoinT):
        return f'J({canon(v.sep)},{canon(v.seq)})'
    if isinstance(v, SeqT):
        return 'Q(' + '++'.join(canon(b) for b in v.blocks) + ')'
    if isinstance(v, LitB):
        return 'L[' + ','.join(canon(i) for i in v.items) + ']'
    if isinstance(v, CompB):
        # rename the bound variable to a positional name for alpha-equivalence
        ph = z3.Int('$b')
        b = subst_block(v, [(v.var, ph)])
        base = canon(b.base) if not isinstance(b.base, RangeB) else f'R({canon(b.base.lo)},{canon(b.base.hi)})'
        return f'C[{base}|{canon(b.guard)}|{canon(b.body)}]'
    if isinstance(v, GuardB):
        return f'G[{canon(v.cond)}|{canon(v.body)}]'
    if isinstance(v, SeqV):
        return 'V' + canon(v.term)
    if isinstance(v, EnumV):
        return repr(v)
    if isinstance(v, DtV):
        return f'D:{v.cls.name}:' + v.expr.sexpr()
    if isinstance(v, ObjV):
        return f'O:{v.cls.name}{{' + ','.join(f'{k}={canon(x)}' for k, x in v.fields.items()) + '}'
    if isinstance(v, tuple):
        return '(' + ','.join(canon(x) for x in v) + ')'
    if isinstance(v, SetV):
        return 'Set:' + (repr(sorted(map(repr, v.concrete))) if v.sym is None else v.sym.sexpr())
    if isinstance(v, DictV):
        if v.dom is None:
            return 'Dict{' + ','.join(f'{canon(k)}:{canon(x)}' for k, x in v.concrete.items()) + '}'
        return f'Dict:{v.dom.sexpr()}:{v.val.sexpr()}'
    return f'?{type(v).__name__}:{id(v)}'


def abs_const(key, sort, prefix='abs'):
    """The z3 constant abstracting a non-z3 term (same canonical key -> same constant)."""
    k = (key, str(sort))
    if k not in _abs_consts:
        _abs_consts[k] = z3.Const(f'{prefix}#{len(_abs_consts)}', sort)
    return _abs_consts[k]


def to_zstr(v):
    """z3 String expression of a string value (JoinT parts become abstraction constants)."""
    if isinstance(v, str):
        return zstr(v)
    if is_z3(v):
        return v
    if isinstance(v, JoinT):
        if seq_is_lit(v.seq):
            items = seq_lit_items(v.seq)
            parts = []
            for i, it in enumerate(items):
                if i:
                    parts.append(v.sep)
                parts.append(it)
            return to_zstr(mkstr(parts))
        return abs_const(canon(v), z3.StringSort(), 'join')
    if isinstance(v, StrT):
        zs = [to_zstr(p) for p in v.parts]
        return z3.Concat(*zs) if len(zs) > 1 else zs[0]
    raise Unsupported(f'to_zstr({type(v).__name__})')


def str_len(v):
    if isinstance(v, str):
        return len(v)
    return z3.Length(to_zstr(v))


def str_nonempty(v):
    """python truthiness of a string value: bool or z3 Bool."""
    if isinstance(v, str):
        return len(v) > 0
    if isinstance(v, StrT):
        if any(isinstance(p, str) and p for p in v.parts):
            return True
    return z3.Length(to_zstr(v)) > 0


# ---- sequences -------------------------------------------------------------------------------------

def seq_is_lit(s: SeqT):
    return all(isinstance(b, LitB) for b in s.blocks)


def seq_lit_items(s: SeqT):
    res = []
    for b in s.blocks:
        res.extend(b.items)
    return res


def mkseq(blocks):
    """Normalise: drop empty literal blocks, merge adjacent literal blocks, flatten trivial guards."""
    out = []
    for b in blocks:
        if isinstance(b, SeqT):
            bs = b.blocks
        else:
            bs = (b,)
        for x in bs:
            if isinstance(x, LitB):
                if not x.items:
                    continue
                if out and isinstance(out[-1], LitB):
                    out[-1] = LitB(out[-1].items + x.items)
                    continue
            elif isinstance(x, GuardB):
                if x.cond is True or (is_z3(x.cond) and z3.is_true(x.cond)):
                    out2 = mkseq(list(out) + list(x.body.blocks))
                    out = list(out2.blocks)
                    continue
                if x.cond is False or (is_z3(x.cond) and z3.is_false(x.cond)) or not x.body.blocks:
                    continue
            elif isinstance(x, CompB):
                if not x.body.blocks:
                    continue
            out.append(x)
    return SeqT(out)


def subst(v, pairs):
    """Substitute z3 constants inside any value (pure structures are rebuilt, heap cells are NOT copied)."""
    if not pairs:
        return v
    if is_z3(v):
        return z3.substitute(v, *pairs)
    if isinstance(v, (str, int, bool, float)) or v is None:
        return v
    if isinstance(v, StrT):
        return mkstr([subst(p, pairs) for p in v.parts])
    if isinstance(v, JoinT):
        return JoinT(subst(v.sep, pairs), subst(v.seq, pairs))
    if isinstance(v, SeqT):
        return SeqT([subst_block(b, pairs) for b in v.blocks])
    if isinstance(v, DtV):
        return DtV(v.cls, z3.substitute(v.expr, *pairs))
    if isinstance(v, tuple):
        return tuple(subst(x, pairs) for x in v)
    if isinstance(v, SeqV):
        r = SeqV(subst(v.term, pairs), v.frozen)
        return r
    if isinstance(v, ObjV):
        r = ObjV(v.cls, {k: subst(x, pairs) for k, x in v.fields.items()})
        r.__class__ = v.__class__
        return r
    if isinstance(v, SetV):
        if v.sym is None:
            return v
        return SetV(sym=z3.substitute(v.sym, *pairs))
    if isinstance(v, DictV):
        if v.dom is None:
            return DictV(concrete={k: subst(x, pairs) for k, x in v.concrete.items()})
        return DictV(dom=z3.substitute(v.dom, *pairs), val=z3.substitute(v.val, *pairs), val_wrap=v.val_wrap)
    return v


def subst_block(b, pairs):
    if isinstance(b, LitB):
        return LitB([subst(i, pairs) for i in b.items])
    if isinstance(b, GuardB):
        return GuardB(subst(b.cond, pairs) if is_z3(b.cond) else b.cond, subst(b.body, pairs))
    if isinstance(b, CompB):
        base = b.base
        if isinstance(base, RangeB):
            base = RangeB(subst(base.lo, pairs), subst(base.hi, pairs))
        else:
            base = z3.substitute(base, *pairs)
        var = b.var
        for (old, new) in pairs:
            if old.eq(var) and z3.is_const(new) and new.decl().kind() == z3.Z3_OP_UNINTERPRETED:
                var = new
        guard = b.guard if b.guard is True else z3.substitute(b.guard, *pairs)
        return CompB(var, base, guard, subst(b.body, pairs), b.elem_cls)
    return b


def base_len(base):
    if isinstance(base, RangeB):
        lo, hi = base.lo, base.hi
        d = hi - lo
        if isinstance(d, int):
            return max(d, 0)
        return z3.If(d > 0, d, z3.IntVal(0))
    return z3.Length(base)


def in_range(base, idx):
    if isinstance(base, RangeB):
        return z3.And(idx >= base.lo, idx < base.hi)
    return z3.And(idx >= 0, idx < z3.Length(base))
