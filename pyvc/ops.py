"""Pure operations on symbolic strings and sequence terms (normalisation, z3 conversion, substitution)."""
from __future__ import annotations

import z3

from .values import (RecV, StrT, JoinT, SeqT, LitB, CompB, RangeB, SeqV, ObjV, DtV, EnumV, SetV, DictV,
                     Unsupported, is_z3)

# Python's str.splitlines() boundaries and str.strip() whitespace
LINE_BREAKS = '\n\r\x0b\x0c\x1c\x1d\x1e\x85\u2028\u2029'
WHITESPACE = ' \t\n\r\x0b\x0c\x1c\x1d\x1e\x1f\x85\xa0\u1680\u2000\u2001\u2002\u2003\u2004\u2005\u2006' \
             '\u2007\u2008\u2009\u200a\u2028\u2029\u202f\u205f\u3000'

_abs_consts = {}


class GuardB:
    """[body] if cond else []   (zero-binder comprehension block)"""
    __slots__ = ('cond', 'body')

    def __init__(self, cond, body):
        self.cond, self.body = cond, body

    def __repr__(self):
        return f'Guard[{self.body} if {self.cond}]'

    def __deepcopy__(self, memo):
        return self


def zstr(s):
    return z3.StringVal(s)


def re_of_chars(chars):
    return z3.Union(*[z3.Re(zstr(c)) for c in chars]) if len(chars) > 1 else z3.Re(zstr(chars))


RE_WS = None
RE_BREAK = None
RE_IDENT = None


def _init_re():
    global RE_WS, RE_BREAK, RE_IDENT
    if RE_WS is None:
        RE_WS = re_of_chars(WHITESPACE)
        RE_BREAK = re_of_chars(LINE_BREAKS)
        # built exactly like builtins_._parse_regex builds '[a-zA-Z_][a-zA-Z0-9_]*' so that the library's own
        # validation and the ghost predicate are the same term
        alpha = z3.Union(z3.Range(zstr('a'), zstr('z')), z3.Range(zstr('A'), zstr('Z')), z3.Re(zstr('_')))
        alnum = z3.Union(z3.Range(zstr('a'), zstr('z')), z3.Range(zstr('A'), zstr('Z')),
                         z3.Range(zstr('0'), zstr('9')), z3.Re(zstr('_')))
        RE_IDENT = z3.Concat(alpha, z3.Star(alnum))


P_IDENT = z3.Function('py.is_ident', z3.StringSort(), z3.BoolSort())      # matches [a-zA-Z_][a-zA-Z0-9_]*
REGEX_USED = [False]     # set when the code under analysis applies a regular expression other than the identifier one


def is_ident(zs, path=None):
    """zs is an identifier.  An uninterpreted predicate with cheap consequences as lemma instances; its regular
    expression definition is only given to the solver when the analysed code uses some other regular expression."""
    _init_re()
    if z3.is_string_value(zs):
        import re
        return z3.BoolVal(re.fullmatch('[a-zA-Z_][a-zA-Z0-9_]*', _unescape(zs.as_string())) is not None)
    return _attach(path, _raw(P_IDENT, zs))


def ident_regex():
    _init_re()
    return RE_IDENT


# Character-class predicates are uninterpreted functions; the engine adds the lemma instances below
# (theory_lemmas) for every application that occurs in a query.  This keeps the solver in EUF + basic
# string theory instead of regular expressions over 25-character unions (measured: minutes -> ms).
P_ALL_WS = z3.Function('py.all_ws', z3.StringSort(), z3.BoolSort())       # every char is str.strip() whitespace
P_WS_CHAR = z3.Function('py.ws_char', z3.StringSort(), z3.BoolSort())     # 1-char string that is whitespace
P_NO_BREAK = z3.Function('py.no_break', z3.StringSort(), z3.BoolSort())   # no str.splitlines() boundary inside
P_BREAK_CHAR = z3.Function('py.break_char', z3.StringSort(), z3.BoolSort())


_KIDS = []     # predicate applications created while building lemmas (collected by _lemma_closure)


def _raw(pred, zs):
    app = pred(zs)
    _KIDS.append(app)
    return app


def _attach(path, app):
    """give the lemma instances of a predicate application (and of the applications they mention) to the path"""
    if path is None or not z3.is_app(app) or app.decl().kind() != z3.Z3_OP_UNINTERPRETED:
        return app
    done = path.pred_done
    if app.get_id() in done:
        return app
    for f in lemma_closure(app, done):
        path.define(f)
    return app


def lemma_closure(app, done=None, depth=3):
    """lemma instances for `app` and, transitively (bounded), for the predicate applications inside them"""
    done = set() if done is None else done
    out = []
    level = [app]
    for _ in range(depth):
        nxt = []
        for a in level:
            if a.get_id() in done:
                continue
            done.add(a.get_id())
            key = (a.get_id(), REGEX_USED[0])
            hit = _LEMMA_CACHE.get(key)
            if hit is None:
                del _KIDS[:]
                fresh = []
                _lemmas_for(a, fresh)
                hit = (a, fresh, list(_KIDS))
                _LEMMA_CACHE[key] = hit
            out.extend(hit[1])
            nxt.extend(hit[2])
        level = nxt
        if not level:
            break
    return out


def with_facts(app):
    """app together with its lemma instances, for use inside hypothesis bodies (instantiated later)"""
    if not z3.is_app(app) or z3.is_true(app) or z3.is_false(app):
        return app
    ls = lemma_closure(app, set(), depth=2)
    return z3.And(app, *ls) if ls else app


def no_break(zs, path=None):
    """zs contains no line boundary character."""
    if z3.is_string_value(zs):
        return z3.BoolVal(not any(c in LINE_BREAKS for c in _unescape(zs.as_string())))
    return _attach(path, _raw(P_NO_BREAK, zs))


def all_ws(zs, path=None):
    if z3.is_string_value(zs):
        return z3.BoolVal(_unescape(zs.as_string()).strip() == '')
    return _attach(path, _raw(P_ALL_WS, zs))


def ws_char(zs, path=None):
    if z3.is_string_value(zs):
        v = _unescape(zs.as_string())
        return z3.BoolVal(len(v) == 1 and v in WHITESPACE)
    return _attach(path, _raw(P_WS_CHAR, zs))


def break_char(zs, path=None):
    if z3.is_string_value(zs):
        v = _unescape(zs.as_string())
        return z3.BoolVal(len(v) == 1 and v in LINE_BREAKS)
    return _attach(path, _raw(P_BREAK_CHAR, zs))


def first_char(zs):
    return z3.SubString(zs, 0, 1)


def last_char(zs):
    return z3.SubString(zs, z3.Length(zs) - 1, 1)


_LEMMA_CACHE = {}      # (application id, regex flag) -> (application kept alive, lemmas, applications inside)


def _lemmas_for(a, out):
    name = a.decl().name()
    t = a.arg(0)
    if name == 'py.is_ident':
        # consequences of being an identifier that the proofs use (all cheap string facts)
        out.append(z3.Implies(a, z3.And(z3.Length(t) > 0,
                                        z3.Not(z3.Contains(t, zstr('.'))), z3.Not(z3.Contains(t, zstr(':'))),
                                        z3.Not(z3.Contains(t, zstr('::'))),
                                        z3.Not(z3.Contains(t, zstr(' '))), z3.Not(z3.Contains(t, zstr('\n'))),
                                        no_break(t), z3.Not(all_ws(t)),
                                        z3.Not(ws_char(first_char(t))))))
        if REGEX_USED[0]:
            out.append(a == z3.InRe(t, ident_regex()))
        return
    if name in ('py.ws_char', 'py.break_char'):
        chars = WHITESPACE if name == 'py.ws_char' else LINE_BREAKS
        out.append(a == z3.Or(*[t == zstr(c) for c in chars]))
        return
    pred = all_ws if name == 'py.all_ws' else no_break
    if z3.is_app(t) and t.decl().kind() == z3.Z3_OP_SEQ_CONCAT:
        out.append(a == z3.And(*[pred(c) for c in t.children()]))
    if z3.is_app(t) and t.decl().kind() == z3.Z3_OP_ITE:
        c, x, y = t.children()
        out.append(a == z3.If(c, pred(x), pred(y)))
    out.append(z3.Implies(z3.Length(t) == 0, a))
    if name == 'py.all_ws':
        out.append(z3.Implies(z3.And(a, z3.Length(t) > 0), z3.And(ws_char(first_char(t)), ws_char(last_char(t)))))
        out.append(z3.Implies(z3.Length(t) == 1, a == ws_char(t)))
    else:
        out.append(z3.Implies(z3.And(a, z3.Length(t) > 0),
                              z3.And(z3.Not(break_char(first_char(t))), z3.Not(break_char(last_char(t))))))
        out.append(z3.Implies(z3.Length(t) == 1, a == z3.Not(break_char(t))))


def mkstr(parts):
    """Normalise a list of parts (str | z3 String | JoinT | StrT) into str or StrT."""
    flat = []
    for p in parts:
        if isinstance(p, StrT):
            flat.extend(p.parts)
        elif isinstance(p, str):
            if p:
                flat.append(p)
        elif is_z3(p):
            if z3.is_string_value(p):
                s = p.as_string()
                s = _unescape(s)
                if s:
                    flat.append(s)
            else:
                flat.append(p)
        elif isinstance(p, JoinT):
            flat.append(p)
        else:
            raise Unsupported(f'string part of type {type(p).__name__}')
    out = []
    for p in flat:
        if isinstance(p, str) and out and isinstance(out[-1], str):
            out[-1] = out[-1] + p
        else:
            out.append(p)
    if not out:
        return ''
    if len(out) == 1 and isinstance(out[0], str):
        return out[0]
    return StrT(out)


def _unescape(s):
    # z3 prints non-ascii as \u{..}; as_string keeps escapes
    import re
    return re.sub(r'\\u\{([0-9a-fA-F]+)\}', lambda m: chr(int(m.group(1), 16)), s)


def canon(v):
    """Canonical structural key of a value (for abstraction constants and syntactic equality)."""
    if isinstance(v, (str, int, bool, float)) or v is None:
        return repr(v)
    if is_z3(v):
        return 'z3:' + v.sexpr()
    if isinstance(v, StrT):
        return 'S(' + '+'.join(canon(p) for p in v.parts) + ')'
    if isinstance(v, JoinT):
        return f'J({canon(v.sep)},{canon(v.seq)})'
    if isinstance(v, SeqT):
        return 'Q(' + '++'.join(canon(b) for b in v.blocks) + ')'
    if isinstance(v, LitB):
        return 'L[' + ','.join(canon(i) for i in v.items) + ']'
    if isinstance(v, CompB):
        # rename the bound variable to a positional name for alpha-equivalence
        ph = z3.Int('$b')
        b = subst_block(v, [(v.var, ph)])
        base = canon(b.base) if not isinstance(b.base, RangeB) else f'R({canon(b.base.lo)},{canon(b.base.hi)})'
        return f'C[{base}|{canon(b.guard)}|{canon(b.body)}]'
    if isinstance(v, GuardB):
        return f'G[{canon(v.cond)}|{canon(v.body)}]'
    if isinstance(v, SeqV):
        return 'V' + canon(v.term)
    if isinstance(v, EnumV):
        return repr(v)
    if isinstance(v, DtV):
        return f'D:{v.cls.name}:' + v.expr.sexpr()
    if isinstance(v, RecV):
        return f'J:{v.schema.name}:' + v.expr.sexpr()
    if type(v).__name__ == 'JUnionV':
        return f'JU:{v.uni.name}:' + v.expr.sexpr()
    if isinstance(v, ObjV):
        return f'O:{v.cls.name}{{' + ','.join(f'{k}={canon(x)}' for k, x in v.fields.items()) + '}'
    if isinstance(v, tuple):
        return '(' + ','.join(canon(x) for x in v) + ')'
    if isinstance(v, SetV):
        return 'Set:' + (repr(sorted(map(repr, v.concrete))) if v.sym is None else v.sym.sexpr())
    if isinstance(v, DictV):
        if v.dom is None:
            return 'Dict{' + ','.join(f'{canon(k)}:{canon(x)}' for k, x in v.concrete.items()) + '}'
        return f'Dict:{v.dom.sexpr()}:{v.val.sexpr()}'
    return f'?{type(v).__name__}:{id(v)}'


def abs_const(key, sort, prefix='abs'):
    """The z3 constant abstracting a non-z3 term (same canonical key -> same constant)."""
    k = (key, str(sort))
    if k not in _abs_consts:
        _abs_consts[k] = z3.Const(f'{prefix}#{len(_abs_consts)}', sort)
    return _abs_consts[k]


def to_zstr(v):
    """z3 String expression of a string value (JoinT parts become abstraction constants)."""
    if isinstance(v, str):
        return zstr(v)
    if is_z3(v):
        return v
    if isinstance(v, JoinT):
        if seq_is_lit(v.seq):
            items = seq_lit_items(v.seq)
            parts = []
            for i, it in enumerate(items):
                if i:
                    parts.append(v.sep)
                parts.append(it)
            return to_zstr(mkstr(parts))
        return abs_const(canon(v), z3.StringSort(), 'join')
    if isinstance(v, StrT):
        zs = [to_zstr(p) for p in v.parts]
        return z3.Concat(*zs) if len(zs) > 1 else zs[0]
    raise Unsupported(f'to_zstr({type(v).__name__})')


def str_len(v):
    if isinstance(v, str):
        return len(v)
    if isinstance(v, StrT):
        # literal parts are counted concretely: `len(f'...{x}...') > 0` is then linear arithmetic
        k = 0
        sym = None
        for p in v.parts:
            if isinstance(p, str):
                k += len(p)
            else:
                t = z3.Length(to_zstr(p))
                sym = t if sym is None else sym + t
        if sym is None:
            return k
        res = sym if k == 0 else k + sym
        res._lb = k          # lower bound known syntactically (lengths are non-negative)
        return res
    return z3.Length(to_zstr(v))


def str_nonempty(v):
    """python truthiness of a string value: bool or z3 Bool."""
    if isinstance(v, str):
        return len(v) > 0
    if isinstance(v, StrT):
        if any(isinstance(p, str) and p for p in v.parts):
            return True
    return z3.Length(to_zstr(v)) > 0


# ---- sequences -------------------------------------------------------------------------------------

def seq_is_lit(s: SeqT):
    return all(isinstance(b, LitB) for b in s.blocks)


def seq_lit_items(s: SeqT):
    res = []
    for b in s.blocks:
        res.extend(b.items)
    return res


def mkseq(blocks):
    """Normalise: drop empty literal blocks, merge adjacent literal blocks, flatten trivial guards."""
    out = []
    for b in blocks:
        if isinstance(b, SeqT):
            bs = b.blocks
        else:
            bs = (b,)
        for x in bs:
            if isinstance(x, LitB):
                if not x.items:
                    continue
                if out and isinstance(out[-1], LitB):
                    out[-1] = LitB(out[-1].items + x.items)
                    continue
            elif isinstance(x, GuardB):
                if x.cond is True or (is_z3(x.cond) and z3.is_true(x.cond)):
                    out2 = mkseq(list(out) + list(x.body.blocks))
                    out = list(out2.blocks)
                    continue
                if x.cond is False or (is_z3(x.cond) and z3.is_false(x.cond)) or not x.body.blocks:
                    continue
            elif isinstance(x, CompB):
                if not x.body.blocks:
                    continue
                if isinstance(x.base, RangeB):
                    lo, hi = _int_of(x.base.lo), _int_of(x.base.hi)
                    if lo is not None and hi is not None and hi - lo <= 8:
                        unrolled = []
                        for k in range(lo, hi):
                            g = True if x.guard is True else z3.simplify(z3.substitute(x.guard, (x.var, z3.IntVal(k))))
                            body = subst(x.body, [(x.var, z3.IntVal(k))])
                            if g is True or z3.is_true(g):
                                unrolled.extend(body.blocks)
                            elif z3.is_false(g):
                                continue
                            else:
                                unrolled.append(GuardB(g, body))
                        out2 = mkseq(list(out) + unrolled)
                        out = list(out2.blocks)
                        continue
            out.append(x)
    return SeqT(out)


def _int_of(v):
    if isinstance(v, bool):
        return None
    if isinstance(v, int):
        return v
    if is_z3(v):
        w = z3.simplify(v)
        if z3.is_int_value(w):
            return w.as_long()
    return None


def subst(v, pairs):
    """Substitute z3 constants inside any value (pure structures are rebuilt, heap cells are NOT copied)."""
    if not pairs:
        return v
    if is_z3(v):
        return z3.substitute(v, *pairs)
    if isinstance(v, (str, int, bool, float)) or v is None:
        return v
    if isinstance(v, StrT):
        return mkstr([subst(p, pairs) for p in v.parts])
    if isinstance(v, JoinT):
        return JoinT(subst(v.sep, pairs), subst(v.seq, pairs))
    if isinstance(v, SeqT):
        return SeqT([subst_block(b, pairs) for b in v.blocks])
    if isinstance(v, DtV):
        return DtV(v.cls, z3.substitute(v.expr, *pairs))
    if isinstance(v, RecV):
        return RecV(v.schema, z3.substitute(v.expr, *pairs))
    tn = type(v).__name__
    if tn == 'JUnionV':
        return type(v)(v.uni, z3.substitute(v.expr, *pairs))
    if tn == 'EnumSym':
        return type(v)(v.cls, z3.substitute(v.expr, *pairs))
    if tn == 'UnionV':
        return type(v)(v.uni, z3.substitute(v.expr, *pairs))
    if tn == 'OpaqueV' and v.expr is not None and is_z3(v.expr):
        return type(v)(z3.substitute(v.expr, *pairs), v.note)
    if isinstance(v, tuple):
        return tuple(subst(x, pairs) for x in v)
    if isinstance(v, SeqV):
        r = SeqV(subst(v.term, pairs), v.frozen)
        return r
    if isinstance(v, ObjV):
        r = ObjV(v.cls, {k: subst(x, pairs) for k, x in v.fields.items()})
        r.__class__ = v.__class__
        return r
    if isinstance(v, SetV):
        if v.sym is None:
            return v
        return SetV(sym=z3.substitute(v.sym, *pairs))
    if isinstance(v, DictV):
        if v.dom is None:
            return DictV(concrete={k: subst(x, pairs) for k, x in v.concrete.items()})
        return DictV(dom=z3.substitute(v.dom, *pairs), val=z3.substitute(v.val, *pairs), val_wrap=v.val_wrap)
    return v


def subst_block(b, pairs):
    if isinstance(b, LitB):
        return LitB([subst(i, pairs) for i in b.items])
    if isinstance(b, GuardB):
        return GuardB(subst(b.cond, pairs) if is_z3(b.cond) else b.cond, subst(b.body, pairs))
    if isinstance(b, CompB):
        base = b.base
        if isinstance(base, RangeB):
            base = RangeB(subst(base.lo, pairs), subst(base.hi, pairs))
        else:
            base = z3.substitute(base, *pairs)
        var = b.var
        for (old, new) in pairs:
            if old.eq(var) and z3.is_const(new) and new.decl().kind() == z3.Z3_OP_UNINTERPRETED:
                var = new
        guard = b.guard if b.guard is True else z3.substitute(b.guard, *pairs)
        return CompB(var, base, guard, subst(b.body, pairs), b.elem_cls)
    return b


def subseq(z, lo, n):
    """seq.extract with the identity  extract(extract(s,0,a),0,b) == extract(s,0,min(a,b))  applied at
    construction (holds for all integers a, b under z3's semantics of extract; z3's sequence solver does not
    find it by itself within any reasonable budget - measured)"""
    lo = lo if is_z3(lo) else z3.IntVal(lo)
    n = n if is_z3(n) else z3.IntVal(n)
    if z3.is_app(z) and z.decl().kind() == z3.Z3_OP_SEQ_EXTRACT and z3.is_int_value(lo) and lo.as_long() == 0:
        s0, lo0, a = z.children()
        if z3.is_int_value(lo0) and lo0.as_long() == 0:
            return z3.SubSeq(s0, z3.IntVal(0), z3.If(n <= a, n, a))
    return z3.SubSeq(z, lo, n)


def nth(base, idx):
    """base[idx] for an index that is in range of `base`;  extract(s, lo, n)[i]  is written  s[lo + i]
    (equal whenever 0 <= i < len(extract(s, lo, n)), which every use guarantees)"""
    if z3.is_app(base) and base.decl().kind() == z3.Z3_OP_SEQ_EXTRACT:
        s0, lo, n = base.children()
        if z3.is_int_value(lo) and lo.as_long() == 0:
            return nth(s0, idx)
        return nth(s0, lo + idx)
    return base[idx]


def base_len(base):
    if isinstance(base, RangeB):
        lo, hi = base.lo, base.hi
        d = hi - lo
        if isinstance(d, int):
            return max(d, 0)
        return z3.If(d > 0, d, z3.IntVal(0))
    return z3.Length(base)


def in_range(base, idx):
    if isinstance(base, RangeB):
        return z3.And(idx >= base.lo, idx < base.hi)
    return z3.And(idx >= 0, idx < z3.Length(base))


_JSON_TEXT = [0]


def fresh_json_text():
    _JSON_TEXT[0] += 1
    return f'json_text!{_JSON_TEXT[0]}'
