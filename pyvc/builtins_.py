"""Models of the builtins and stdlib functions that dznpy uses (DESIGN.md 2.7).  Trusted; cross-checked
against CPython by tools/selftest.py."""
from __future__ import annotations

import re as pyre
import os
import os as pyos

import z3

from . import ops
from .ops import GuardB, mkstr, mkseq, to_zstr, canon
from .path import fresh_name
from .values import (BuiltinFn, BuiltinClass, ClassV, FuncV, BoundMethod, EnumV, ObjV, DtV, StrT, JoinT, LitB,
                     CompB, RangeB, SeqT, SeqV, SetV, DictV, ExcV, RaiseSignal, Unsupported, Atomic, is_z3,
                     is_sym_bool)

BUILTINS = {}


def builtin(name):
    def deco(f):
        BUILTINS[name] = BuiltinFn(name, f)
        return f
    return deco


def uf(interp, name, *sorts):
    key = (name, tuple(str(s) for s in sorts))
    if key not in interp.uf:
        interp.uf[key] = z3.Function(name, *sorts)
    return interp.uf[key]


# ---------------------------------------------------------------------------------------- str / repr

def py_str(interp, v, path):
    from .interp import EnumSym, OpaqueV, UnionV, Poison
    from .values import JUnionV, RecV
    if isinstance(v, JUnionV):
        v = interp.narrow_json(v, path)
    if isinstance(v, (str, StrT)):
        return v
    if isinstance(v, RecV) or (isinstance(v, (SeqV, DictV)) and getattr(v, 'json', False)):
        # text of a JSON list / object of unknown content (only ever interpolated into messages)
        return mkstr([z3.String(ops.fresh_json_text())])
    if isinstance(v, bool):
        return 'True' if v else 'False'
    if v is None:
        return 'None'
    if isinstance(v, int):
        return str(v)
    if isinstance(v, float):
        return repr(v)
    if is_sym_bool(v):
        return mkstr([z3.If(v, z3.StringVal('True'), z3.StringVal('False'))])
    if is_z3(v) and z3.is_int(v):
        return mkstr([z3.If(v >= 0, z3.IntToStr(v), z3.Concat(z3.StringVal('-'), z3.IntToStr(-v)))])
    if isinstance(v, EnumV):
        return f'{v.cls.name}.{v.name}'
    if isinstance(v, EnumSym):
        members = list(v.cls.members.values())
        e = z3.StringVal(f'{v.cls.name}.{members[-1].name}')
        for m in members[:-1][::-1]:
            e = z3.If(v.expr == interp.sorts.enum_const(m), z3.StringVal(f'{v.cls.name}.{m.name}'), e)
        return mkstr([e])
    if isinstance(v, ExcV):
        f = v.cls.lookup('__str__') if isinstance(v.cls, ClassV) else None
        if f is not None:
            return _expect_str(interp, interp.call_function(f, [v], {}, path))
        a = v.fields.get('args', ())
        if len(a) == 1:
            return py_str(interp, a[0], path)
        if not a:
            return ''
        return py_repr(interp, a, path)
    if isinstance(v, (ObjV, DtV)):
        f = v.cls.lookup('__str__')
        if f is not None:
            return _expect_str(interp, interp.call_function(f, [v], {}, path))
        return py_repr(interp, v, path)
    if isinstance(v, UnionV):
        return py_str(interp, interp.narrow_union(v, path), path)
    if isinstance(v, (SeqV, SetV, DictV, tuple, ClassV, BuiltinClass)):
        return py_repr(interp, v, path)
    if isinstance(v, (BuiltinFn, FuncV)):
        return f'<function {v.name}>'
    if isinstance(v, OpaqueV):
        raise Unsupported('str() of a value of unknown type')
    if isinstance(v, Poison):
        raise Unsupported('use of loop-local value')
    raise Unsupported(f'str({type(v).__name__})')


def _expect_str(interp, r):
    if not isinstance(r, (str, StrT)):
        interp.raise_builtin('TypeError', '__str__ returned non-string')
    return r


def py_repr(interp, v, path):
    from .interp import EnumSym
    if isinstance(v, str):
        return repr(v)
    if isinstance(v, StrT):
        f = uf(interp, 'py.repr_str', z3.StringSort(), z3.StringSort())
        return mkstr([f(to_zstr(v))])
    if isinstance(v, (bool, int, float)) or v is None or is_z3(v):
        return py_str(interp, v, path)
    if isinstance(v, EnumV):
        return f'<{v.cls.name}.{v.name}: {v.value!r}>'
    if isinstance(v, EnumSym):
        members = list(v.cls.members.values())
        txt = lambda m: f'<{v.cls.name}.{m.name}: {m.value!r}>'
        e = z3.StringVal(txt(members[-1]))
        for m in members[:-1][::-1]:
            e = z3.If(v.expr == interp.sorts.enum_const(m), z3.StringVal(txt(m)), e)
        return mkstr([e])
    if isinstance(v, ClassV):
        return f"<class '{v.module.name}.{v.name}'>"
    if isinstance(v, BuiltinClass):
        return f"<class '{v.name}'>"
    if isinstance(v, tuple):
        inner = [py_repr(interp, x, path) for x in v]
        if len(v) == 1:
            return mkstr(['(', inner[0], ',)'])
        parts = ['(']
        for i, s in enumerate(inner):
            if i:
                parts.append(', ')
            parts.append(s)
        parts.append(')')
        return mkstr(parts)
    if isinstance(v, SeqV):
        if ops.seq_is_lit(v.term):
            parts = ['[']
            for i, it in enumerate(ops.seq_lit_items(v.term)):
                if i:
                    parts.append(', ')
                parts.append(py_repr(interp, it, path))
            parts.append(']')
            return mkstr(parts)
        return mkstr([ops.abs_const('repr:' + canon(v.term), z3.StringSort(), 'repr')])
    if isinstance(v, SetV):
        if v.sym is None:
            if not v.concrete:
                return 'set()'
            if len(v.concrete) == 1:
                return mkstr(['{', py_repr(interp, v.concrete[0], path), '}'])
        interp.set_iteration_sites.append(('repr(set)', list(interp.call_stack)))
        if v.sym is None:
            parts = ['{']
            for i, x in enumerate(omega_order(interp, v.concrete)):
                if i:
                    parts.append(', ')
                parts.append(py_repr(interp, x, path))
            parts.append('}')
            return mkstr(parts)
        return mkstr([ops.abs_const('repr-set:' + canon(v) + fresh_name('omega'), z3.StringSort(), 'reprset')])
    if isinstance(v, DictV):
        if v.dom is None:
            parts = ['{']
            for i, (k, x) in enumerate(v.concrete.items()):
                if i:
                    parts.append(', ')
                parts += [py_repr(interp, k, path), ': ', py_repr(interp, x, path)]
            parts.append('}')
            return mkstr(parts)
        return mkstr([ops.abs_const('repr:' + canon(v), z3.StringSort(), 'repr')])
    if isinstance(v, (ObjV, DtV)):
        f = v.cls.lookup('__repr__')
        if f is not None:
            return _expect_str(interp, interp.call_function(f, [v], {}, path))
        if v.cls.is_dataclass:
            parts = [f'{v.cls.name}(']
            for i, (fname, td) in enumerate(interp.sorts.fields_of(v.cls)):
                if i:
                    parts.append(', ')
                parts += [f'{fname}=', py_repr(interp, interp.getattr_(v, fname, path), path)]
            parts.append(')')
            return mkstr(parts)
        return mkstr([ops.abs_const(f'objrepr:{v.cls.name}:{canon(v)}', z3.StringSort(), 'repr')])
    if isinstance(v, ExcV):
        return mkstr([v.cls.name, '(', py_repr(interp, v.fields.get('args', ()), path), ')'])
    raise Unsupported(f'repr({type(v).__name__})')


def apply_format_spec(interp, s, spec, path):
    """Only the  '<fill><align><width>'  shape used by the code:  f'{x : <{n}}'."""
    if spec == '':
        return s
    if isinstance(spec, str):
        m = pyre.fullmatch(r'(.)?([<>^])(\d+)', spec)
        if not m:
            raise Unsupported(f'format spec {spec!r}')
        fill, align, width = (m.group(1) or ' '), m.group(2), int(m.group(3))
    else:
        # symbolic width: spec = literal '<fill><align>' followed by str(int)
        parts = spec.parts
        if not (isinstance(parts[0], str) and len(parts) == 2 and pyre.fullmatch(r'(.)?[<>^]', parts[0])):
            raise Unsupported('symbolic format spec')
        fill = parts[0][0] if len(parts[0]) == 2 else ' '
        align = parts[0][-1]
        width = getattr(interp, '_last_int_str', {}).get(canon(parts[1]))
        if width is None:
            raise Unsupported('symbolic format width not traceable')
    if align != '<':
        raise Unsupported('format alignment other than <')
    return ljust(interp, s, width, fill, path)


def ljust(interp, s, width, fill, path):
    if isinstance(s, str) and isinstance(width, int):
        return s.ljust(width, fill)
    n = ops.str_len(s)
    pad = width - n
    return mkstr([s, interp.str_repeat(fill, pad if is_z3(pad) else z3.IntVal(pad), path)])


# ---------------------------------------------------------------------------------------- sequences

def seq_of(interp, v, path, what='iterable'):
    """SeqT of an iterable value."""
    from .interp import Poison
    from .values import JUnionV
    if isinstance(v, JUnionV):
        v = interp.narrow_json(v, path)
    if isinstance(v, SeqV):
        return v.term
    if isinstance(v, SeqT):
        return v
    if isinstance(v, tuple):
        return SeqT([LitB(v)]) if v else SeqT()
    if isinstance(v, str):
        return SeqT([LitB(list(v))]) if v else SeqT()
    if isinstance(v, SetV):
        if v.sym is None:
            if len(v.concrete) > 1:
                interp.set_iteration_sites.append(('iterate(set)', list(interp.call_stack)))
            items = omega_order(interp, v.concrete)
            return SeqT([LitB(items)]) if items else SeqT()
        raise Unsupported('iteration over a symbolic set needs a loop invariant')
    if isinstance(v, DictV):
        if v.dom is None:
            return SeqT([LitB(list(v.concrete.keys()))]) if v.concrete else SeqT()
        raise Unsupported('iteration over a symbolic dict')
    if v is None:
        interp.raise_builtin('TypeError', "'NoneType' object is not iterable")
    if isinstance(v, Poison):
        raise Unsupported('use of loop-local value')
    if isinstance(v, (int, bool, float)) or (is_z3(v) and not z3.is_seq(v)):
        interp.raise_builtin('TypeError', 'object is not iterable')
    raise Unsupported(f'iteration over {type(v).__name__}')


def omega_order(interp, items):
    """the iteration order of a finite set under the oracle interp.omega (index into the permutations of the
    insertion order; 0 = insertion order).  Set iteration order is NOT defined by the language: output must not
    depend on it (C08), which the harness checks by comparing runs under different oracles."""
    import itertools
    items = list(items)
    k = getattr(interp, 'omega', 0)
    if k == 0 or len(items) < 2:
        return items
    if len(items) > 4:
        return items[::-1] if k % 2 else items
    perms = list(itertools.permutations(items))
    return list(perms[k % len(perms)]) if k % len(perms) else items[::-1]


def list_extend(interp, path, lst: SeqV, other):
    t = seq_of(interp, other, path)
    if lst.frozen:
        interp.frame_violation(path, lst, 'extend')
    interp.journal_write(path, lst, ('extend', t))
    lst.term = mkseq(list(lst.term.blocks) + list(t.blocks))


def list_append(interp, path, lst: SeqV, item):
    if lst.frozen:
        interp.frame_violation(path, lst, 'append')
    interp.journal_write(path, lst, ('extend', SeqT([LitB([item])])))
    lst.term = mkseq(list(lst.term.blocks) + [LitB([item])])


def _plus(a, b):
    if isinstance(a, int) and a == 0:
        return b
    if isinstance(b, int) and b == 0:
        return a
    return a + b


def seq_len(interp, t: SeqT, path):
    n = 0
    for b in t.blocks:
        if isinstance(b, LitB):
            n = _plus(n, len(b.items))
        elif isinstance(b, GuardB):
            inner = seq_len(interp, b.body, path)
            n = _plus(n, z3.If(interp.zbool(b.cond), inner if is_z3(inner) else z3.IntVal(inner), z3.IntVal(0)))
        elif isinstance(b, CompB):
            if b.guard is True and len(b.body.blocks) == 1 and isinstance(b.body.blocks[0], LitB):
                k_ = len(b.body.blocks[0].items)
                n = _plus(n, ops.base_len(b.base) if k_ == 1 else ops.base_len(b.base) * k_)
            else:
                c = ops.abs_const('len:' + canon(b), z3.IntSort(), 'len')
                path.define(c >= 0)
                ex = interp.exists_block(b, path)
                path.define((c > 0) == interp.zbool(ex))
                n = _plus(n, c)
    return n


def do_index(interp, obj, idx, path):
    from .interp import UnionV
    from .values import JUnionV as _JU
    if isinstance(obj, _JU):
        obj = interp.narrow_json(obj, path)
    if isinstance(obj, (str, StrT)):
        return str_index(interp, obj, idx, path)
    if isinstance(obj, tuple):
        if not isinstance(idx, int):
            raise Unsupported('symbolic tuple index')
        if not -len(obj) <= idx < len(obj):
            interp.raise_builtin('IndexError', 'tuple index out of range')
        return obj[idx]
    if isinstance(obj, SeqV):
        return seq_index(interp, obj.term, idx, path)
    if isinstance(obj, DictV):
        return dict_get(interp, obj, idx, path)
    from .values import RecV, JUnionV
    if isinstance(obj, JUnionV):
        obj = interp.narrow_json(obj, path)
    if isinstance(obj, RecV):
        return interp.rec_get(obj, idx, path)
    if obj is None:
        interp.raise_builtin('TypeError', "'NoneType' object is not subscriptable")
    if isinstance(obj, (ObjV, DtV)):
        f = obj.cls.lookup('__getitem__')
        if f is not None:
            return interp.call_function(f, [obj, idx], {}, path)
        interp.raise_builtin('TypeError', f"'{obj.cls.name}' object is not subscriptable")
    raise Unsupported(f'subscript of {type(obj).__name__}')


def str_index(interp, s, idx, path):
    if isinstance(s, str) and isinstance(idx, int):
        if not -len(s) <= idx < len(s):
            interp.raise_builtin('IndexError', 'string index out of range')
        return s[idx]
    if isinstance(idx, int) and isinstance(s, StrT):
        # literal prefix / suffix
        if idx >= 0 and isinstance(s.parts[0], str) and idx < len(s.parts[0]):
            return s.parts[0][idx]
        if idx < 0 and isinstance(s.parts[-1], str) and -idx <= len(s.parts[-1]):
            return s.parts[-1][idx]
    z = to_zstr(s)
    n = z3.Length(z)
    i = idx if is_z3(idx) else z3.IntVal(idx)
    if isinstance(idx, int) and idx >= 0:
        ok = n > idx
        pos = z3.IntVal(idx)
    elif isinstance(idx, int):
        ok = n >= -idx
        pos = n + idx
    else:
        ok = z3.And(i < n, i >= -n)
        pos = z3.If(i >= 0, i, n + i)
    if not path.branch(ok):
        interp.raise_builtin('IndexError', 'string index out of range')
    return mkstr([z3.SubString(z, pos, 1)])


def seq_index(interp, t: SeqT, idx, path):
    t = mkseq(t.blocks)
    if isinstance(idx, int) and t.blocks and not isinstance(t.blocks[0 if idx >= 0 else -1], LitB) \
            and interp.to_zseq(t) is not None:
        pass      # directly indexable (below)
    elif isinstance(idx, int):
        # concrete prefix/suffix
        if idx >= 0:
            k = idx
            for b in t.blocks:
                if isinstance(b, LitB):
                    if k < len(b.items):
                        return b.items[k]
                    k -= len(b.items)
                else:
                    break
            else:
                interp.raise_builtin('IndexError', 'list index out of range')
            if k == 0:
                return seq_first(interp, SeqT(t.blocks[t.blocks.index(b):]), path)
        else:
            k = -idx - 1
            for b in reversed(t.blocks):
                if isinstance(b, LitB):
                    if k < len(b.items):
                        return b.items[len(b.items) - 1 - k]
                    k -= len(b.items)
                else:
                    break
            else:
                interp.raise_builtin('IndexError', 'list index out of range')
            if k == 0:
                return seq_last(interp, SeqT(t.blocks[:t.blocks.index(b) + 1]), path)
    z = interp.to_zseq(t)
    if z is not None:
        n = z3.Length(z)
        i = idx if is_z3(idx) else z3.IntVal(idx)
        ok = z3.And(i < n, i >= -n)
        if not path.branch(ok):
            interp.raise_builtin('IndexError', 'list index out of range')
        pos = (i if isinstance(idx, int) and idx >= 0 else (n + i if isinstance(idx, int) else z3.If(i >= 0, i, n + i)))
        td = _elem_td(interp, t)
        return interp.wrap_elem(td, z[pos]) if td is not None else _wrap_by_sort(interp, z[pos])
    raise Unsupported('index into a symbolic sequence')


def _elem_td(interp, t):
    for b in t.blocks:
        if isinstance(b, CompB) and not isinstance(b.base, RangeB):
            return b.elem_cls
    return None


def _wrap_by_sort(interp, e):
    if e.sort() == z3.StringSort():
        return mkstr([e])
    return e


def seq_first(interp, t: SeqT, path):
    """First element of a sequence whose first block is symbolic."""
    ne = interp.seq_nonempty(t, path)
    if not path.branch(ne):
        interp.raise_builtin('IndexError', 'list index out of range')
    return _first_of_blocks(interp, list(t.blocks), path)


def _first_of_blocks(interp, blocks, path):
    b = blocks[0]
    if isinstance(b, LitB):
        return b.items[0]
    if isinstance(b, GuardB):
        if path.branch(interp.and_(b.cond, interp.seq_nonempty(b.body, path))):
            return _first_of_blocks(interp, list(b.body.blocks), path)
        return _first_of_blocks(interp, blocks[1:], path)
    if isinstance(b, CompB):
        ex = interp.exists_block(b, path)
        if path.branch(ex):
            sk = path.fresh_const('first', z3.IntSort())
            path.add_index(sk)
            path.define(ops.in_range(b.base, sk))
            inner_ne = interp.seq_nonempty(ops.subst(b.body, [(b.var, sk)]), path)
            g = b.guard if b.guard is True else z3.substitute(b.guard, (b.var, sk))
            path.define(interp.zbool(interp.and_(g, inner_ne)))
            q = z3.Int(fresh_name('q'))
            gq = True if b.guard is True else z3.substitute(b.guard, (b.var, q))
            inner_q = interp.seq_nonempty(ops.subst(b.body, [(b.var, q)]), path)
            lo = b.base.lo if isinstance(b.base, RangeB) else 0
            path.add_hyp([q], z3.Implies(z3.And(q >= lo, q < sk), z3.Not(interp.zbool(interp.and_(gq, inner_q)))),
                         'first-match')
            body = ops.subst(b.body, [(b.var, sk)])
            return _first_of_blocks(interp, list(body.blocks), path)
        return _first_of_blocks(interp, blocks[1:], path)
    raise Unsupported('first of block')


def seq_last(interp, t: SeqT, path):
    ne = interp.seq_nonempty(t, path)
    if not path.branch(ne):
        interp.raise_builtin('IndexError', 'list index out of range')
    return _last_of_blocks(interp, list(t.blocks), path)


def _last_of_blocks(interp, blocks, path):
    b = blocks[-1]
    if isinstance(b, LitB):
        return b.items[-1]
    if isinstance(b, GuardB):
        if path.branch(interp.and_(b.cond, interp.seq_nonempty(b.body, path))):
            return _last_of_blocks(interp, list(b.body.blocks), path)
        return _last_of_blocks(interp, blocks[:-1], path)
    if isinstance(b, CompB):
        ex = interp.exists_block(b, path)
        if path.branch(ex):
            sk = path.fresh_const('last', z3.IntSort())
            path.add_index(sk)
            path.define(ops.in_range(b.base, sk))
            inner_ne = interp.seq_nonempty(ops.subst(b.body, [(b.var, sk)]), path)
            g = b.guard if b.guard is True else z3.substitute(b.guard, (b.var, sk))
            path.define(interp.zbool(interp.and_(g, inner_ne)))
            body = ops.subst(b.body, [(b.var, sk)])
            return _last_of_blocks(interp, list(body.blocks), path)
        return _last_of_blocks(interp, blocks[:-1], path)
    raise Unsupported('last of block')


def do_slice(interp, obj, lo, hi, st, path):
    if st is not None and st != 1:
        raise Unsupported('slice step')
    from .values import JUnionV as _JUs, RecV as _RecVs
    if isinstance(obj, _JUs):
        # any JSON value: decide its variant (one fork per variant), then slice the list / string; every other JSON
        # value (object, number, bool, null) is not sliceable in CPython
        obj = interp.narrow_json(obj, path)
        if isinstance(obj, (_RecVs, DictV)):
            interp.raise_builtin('TypeError', "unhashable type: 'slice'")
        if obj is None or isinstance(obj, (bool, int, float)) or z3.is_expr(obj):
            interp.raise_builtin('TypeError', 'object is not subscriptable')
    if isinstance(obj, str) and all(x is None or isinstance(x, int) for x in (lo, hi)):
        return obj[lo:hi]
    if isinstance(obj, (str, StrT)):
        if isinstance(obj, StrT) and isinstance(lo, int) and lo >= 0 and hi is None and \
                isinstance(obj.parts[0], str) and lo <= len(obj.parts[0]):
            return mkstr([obj.parts[0][lo:]] + list(obj.parts[1:]))
        z = to_zstr(obj)
        n = z3.Length(z)
        if isinstance(lo, int) and lo >= 0 and hi is None:
            # s[k:] == substr(s, k, len - k)  (z3's substr yields '' when k > len, like Python)
            return mkstr([z3.SubString(z, z3.IntVal(lo), n - lo)])
        a = _norm_bound(lo, n, 0)
        b = _norm_bound(hi, n, n)
        return mkstr([z3.SubString(z, a, z3.If(b - a > 0, b - a, z3.IntVal(0)))])
    if isinstance(obj, tuple):
        return obj[lo:hi]
    if isinstance(obj, SeqV):
        t = mkseq(obj.term.blocks)
        if ops.seq_is_lit(t) and all(x is None or isinstance(x, int) for x in (lo, hi)):
            items = ops.seq_lit_items(t)[lo:hi]
            return SeqV(SeqT([LitB(items)]) if items else SeqT())
        # drop / keep a concrete number of leading or trailing literal items
        if isinstance(lo, int) and lo >= 0 and hi is None:
            blocks = list(t.blocks)
            k = lo
            while k > 0 and blocks and isinstance(blocks[0], LitB):
                take = min(k, len(blocks[0].items))
                rest = blocks[0].items[take:]
                blocks = ([LitB(rest)] if rest else []) + blocks[1:]
                k -= take
            if k == 0:
                return SeqV(mkseq(blocks))
            if not blocks:
                return SeqV(SeqT())
        if lo is None and isinstance(hi, int) and hi < 0:
            blocks = list(t.blocks)
            k = -hi
            while k > 0 and blocks and isinstance(blocks[-1], LitB):
                take = min(k, len(blocks[-1].items))
                rest = blocks[-1].items[:len(blocks[-1].items) - take]
                blocks = blocks[:-1] + ([LitB(rest)] if rest else [])
                k -= take
            if k == 0:
                return SeqV(mkseq(blocks))
            if not blocks:
                return SeqV(SeqT())
        z = interp.to_zseq(t) if t.blocks else None
        if z is not None:
            n = z3.Length(z)
            if isinstance(lo, int) and lo >= 0 and hi is None:
                # xs[k:]  ==  extract(xs, k, len - k)   (z3's extract yields the empty sequence when k > len)
                sub = ops.subseq(z, z3.IntVal(lo), n - lo)
            elif lo is None and isinstance(hi, int) and hi < 0:
                sub = ops.subseq(z, z3.IntVal(0), n + hi)
            else:
                a = _norm_bound(lo, n, 0)
                b = _norm_bound(hi, n, n)
                sub = ops.subseq(z, a, z3.If(b - a > 0, b - a, z3.IntVal(0)))
            td = _elem_td(interp, t)
            if td is None:
                from .sorts import TypeDesc
                td = TypeDesc('str') if z.sort() == z3.SeqSort(z3.StringSort()) else None
            if td is None:
                raise Unsupported('slice of sequence with unknown element type')
            return SeqV(interp.seq_of_base(sub, td, path))
        if not t.blocks:
            return SeqV(SeqT())
        raise Unsupported('slice of a symbolic sequence')
    raise Unsupported(f'slice of {type(obj).__name__}')


def _norm_bound(x, n, default):
    if x is None:
        return default if is_z3(default) else z3.IntVal(default)
    xi = x if is_z3(x) else z3.IntVal(x)
    if isinstance(x, int):
        if x >= 0:
            return z3.If(xi > n, n, xi)
        return z3.If(n + xi < 0, z3.IntVal(0), n + xi)
    return z3.If(xi >= 0, z3.If(xi > n, n, xi), z3.If(n + xi < 0, z3.IntVal(0), n + xi))


def do_setitem(interp, obj, key, v, path):
    if isinstance(obj, DictV):
        check_hashable(interp, key)
        interp.journal_write(path, obj, ('setitem', key))
        if obj.dom is None and isinstance(key, (str, int, StrT)) and not isinstance(key, bool):
            # finite dict: (possibly symbolic) keys are kept as they are; equal keys are merged
            for k in list(obj.concrete.keys()):
                r = interp.eq(k, key, path)
                if r is True or (r is not False and path.branch(r)):
                    obj.concrete[k] = v
                    return
            obj.concrete[key] = v
            return
        if obj.dom is not None and isinstance(key, (str, StrT)):
            zk = to_zstr(key)
            zv = interp.to_z3(v)
            if zv is None or zv.sort() != obj.val.sort().range():
                raise Unsupported('dict value sort')
            obj.dom = z3.SetAdd(obj.dom, zk)
            obj.val = z3.Store(obj.val, zk, zv)
            return
        raise Unsupported('dict item assignment')
    if isinstance(obj, SeqV):
        raise Unsupported('list item assignment')
    raise Unsupported(f'item assignment on {type(obj).__name__}')


def _dict_make_symbolic(interp, d: DictV, sample):
    zs = interp.to_z3(sample)
    if zs is None:
        raise Unsupported('symbolic dict with non-scalar values')
    dom = z3.EmptySet(z3.StringSort())
    val = z3.K(z3.StringSort(), zs)
    for k, x in d.concrete.items():
        if not isinstance(k, str):
            raise Unsupported('dict keys')
        dom = z3.SetAdd(dom, z3.StringVal(k))
        val = z3.Store(val, z3.StringVal(k), interp.to_z3(x))
    d.dom, d.val = dom, val
    d.val_wrap = _wrapper_for(interp, sample)
    d.concrete = None


def _wrapper_for(interp, sample):
    from .interp import EnumSym
    if isinstance(sample, (EnumV, EnumSym)):
        cls = sample.cls
        return lambda e: EnumSym(cls, e)
    if isinstance(sample, (str, StrT)):
        return lambda e: mkstr([e])
    if isinstance(sample, DtV):
        cls = sample.cls
        return lambda e: DtV(cls, e)
    return lambda e: e


def check_hashable(interp, key):
    """dict / set keys must be hashable: list, dict and set values raise TypeError in CPython"""
    if isinstance(key, (SeqV, DictV, SetV)):
        interp.raise_builtin('TypeError', f"unhashable type: '{interp.class_of(key).name}'")
    if isinstance(key, tuple):
        for x in key:
            check_hashable(interp, x)


def dict_get(interp, d: DictV, key, path):
    check_hashable(interp, key)
    if d.dom is None:
        for k, v in d.concrete.items():
            r = interp.eq(k, key, path)
            if r is True:
                return v
            if r is not False and path.branch(r):
                return v
        exc = interp.new_exc('KeyError', key)
        raise RaiseSignal(exc)
    if not isinstance(key, (str, StrT)):
        raise RaiseSignal(interp.new_exc('KeyError', key))
    zk = to_zstr(key)
    if not path.branch(z3.IsMember(zk, d.dom)):
        raise RaiseSignal(interp.new_exc('KeyError', key))
    return d.val_wrap(z3.Select(d.val, zk))


def set_from_seq(interp, t: SeqT, path):
    if ops.seq_is_lit(t):
        return interp.make_set(ops.seq_lit_items(t), path)
    s = SetV(concrete=None, sym=None)
    s.comp = t
    return s


# ---------------------------------------------------------------------------------------- builtin functions

@builtin('len')
def _len(interp, path, args, kw):
    v = args[0]
    if isinstance(v, (str, StrT)):
        return ops.str_len(v)
    if isinstance(v, SeqV):
        return seq_len(interp, v.term, path)
    if isinstance(v, tuple):
        return len(v)
    if isinstance(v, SetV):
        if v.sym is None and v.concrete is not None:
            return len(v.concrete)
        if getattr(v, 'comp', None) is not None:
            return SetLen(v.comp)
        return symbolic_set_len(interp, path, v.sym)
    if isinstance(v, DictV):
        if v.dom is None:
            return len(v.concrete)
        raise Unsupported('len of a symbolic dict')
    if isinstance(v, (ObjV, DtV)):
        f = v.cls.lookup('__len__')
        if f is not None:
            return interp.call_function(f, [v], {}, path)
    interp.raise_builtin('TypeError', f'object has no len()')


def symbolic_set_len(interp, path, s):
    """len() of a symbolic string set: an integer tied to the set by the facts that small-cardinality
    comparisons need (0 / 1 / >= 2); sound, not complete for larger constants."""
    key = 'card:' + s.sexpr()
    n = ops.abs_const(key, z3.IntSort(), 'card')
    reg = path.__dict__.setdefault('_cards', set())
    if key in reg:
        return n
    reg.add(key)
    empty = z3.EmptySet(z3.StringSort())
    w1, w2, w3 = (path.fresh_const('cw', z3.StringSort()) for _ in range(3))
    path.define(n >= 0)
    path.define((n == 0) == (s == empty))
    path.define(z3.Implies(n == 1, s == z3.SetAdd(empty, w1)))
    path.define(z3.Implies(n >= 2, z3.And(z3.IsMember(w2, s), z3.IsMember(w3, s), w2 != w3)))
    a, b = z3.String(fresh_name('ca')), z3.String(fresh_name('cb'))
    path.add_hyp([a, b], z3.Implies(z3.And(z3.IsMember(a, s), z3.IsMember(b, s), a != b), n >= 2), 'card>=2')
    path.add_hyp([a], z3.Implies(s == z3.SetAdd(empty, a), n == 1), 'card==1')
    for w in (w1, w2, w3):
        path.add_index(w)
    return n


class SetLen:
    """len({f(x) for x in seq}) - only comparisons against small constants are supported."""

    def __init__(self, comp):
        self.comp = comp


@builtin('isinstance')
def _isinstance(interp, path, args, kw):
    return interp.isinstance_(args[0], args[1], path)


@builtin('str')
def _str(interp, path, args, kw):
    if not args:
        return ''
    return py_str(interp, args[0], path)


@builtin('repr')
def _repr(interp, path, args, kw):
    return py_repr(interp, args[0], path)


@builtin('print')
def _print(interp, path, args, kw):
    for a in args:
        py_str(interp, a, path)   # evaluation may raise, output itself is not modelled
    return None


@builtin('any')
def _any(interp, path, args, kw):
    t = seq_of(interp, args[0], path)
    return seq_any(interp, t, path, lambda x: interp.truthy(x, path))


@builtin('all')
def _all(interp, path, args, kw):
    t = seq_of(interp, args[0], path)
    return interp.not_(seq_any(interp, t, path, lambda x: interp.not_(interp.truthy(x, path))))


def seq_any(interp, t: SeqT, path, pred):
    res = False
    for b in t.blocks:
        if isinstance(b, LitB):
            for it in b.items:
                res = interp.or_(res, pred(it))
                if res is True:
                    return True
        elif isinstance(b, GuardB):
            res = interp.or_(res, interp.and_(b.cond, seq_any(interp, b.body, path, pred)))
        elif isinstance(b, CompB):
            path.binders.append(b.var)
            try:
                inner = seq_any(interp, b.body, path, pred)
            finally:
                path.binders.pop()
            if inner is False:
                continue
            res = interp.or_(res, interp.exists_atom(b.var, b.base, interp.and_(b.guard, inner), path))
    return res


@builtin('hasattr')
def _hasattr(interp, path, args, kw):
    obj, name = args
    if not isinstance(name, str):
        raise Unsupported('hasattr with symbolic name')
    if isinstance(obj, (SeqV, SetV, DictV, tuple, str, StrT)):
        return name in ('__iter__', '__len__', '__contains__', '__getitem__') and not (
            isinstance(obj, SetV) and name == '__getitem__')
    if isinstance(obj, (ObjV, DtV)):
        if isinstance(obj, ObjV) and name in obj.fields:
            return True
        if any(f == name for f, _ in interp.sorts.fields_of(obj.cls)) if obj.cls.is_dataclass else False:
            return True
        return obj.cls.lookup(name) is not None
    if obj is None or isinstance(obj, (int, float, bool)) or is_z3(obj):
        return False
    if isinstance(obj, (EnumV,)):
        return name in ('name', 'value')
    raise Unsupported(f'hasattr on {type(obj).__name__}')


@builtin('type')
def _type(interp, path, args, kw):
    c = interp.class_of(args[0])
    if c is None:
        raise Unsupported('type() of unknown value')
    return c


@builtin('sorted')
def _sorted(interp, path, args, kw):
    v = args[0]
    if kw:
        raise Unsupported('sorted with key/reverse')
    if isinstance(v, SetV) and v.sym is None and interp.set_has_symbolic(v):
        if len(v.concrete) <= 1:
            return SeqV(SeqT([LitB(list(v.concrete))]) if v.concrete else SeqT())
        v = SetV(sym=interp.set_z3(v))
    if isinstance(v, SetV) and v.sym is not None:
        f = uf(interp, 'py.sorted_strset', z3.SetSort(z3.StringSort()), z3.SeqSort(z3.StringSort()))
        from .sorts import TypeDesc
        base = f(v.sym)
        # facts: same cardinality/emptiness; membership agrees (instantiated lazily by the engine)
        path.define((z3.Length(base) == 0) == (v.sym == z3.EmptySet(z3.StringSort())))
        return SeqV(interp.seq_of_base(base, TypeDesc('str'), path))
    t = seq_of(interp, SetV(concrete=list(v.concrete)) if isinstance(v, SetV) else v, path) \
        if not isinstance(v, SetV) else SeqT([LitB(v.concrete)])
    if ops.seq_is_lit(t):
        items = ops.seq_lit_items(t)
        if all(isinstance(x, str) for x in items) or all(isinstance(x, int) for x in items):
            return SeqV(SeqT([LitB(sorted(items))]) if items else SeqT())
    raise Unsupported('sorted of symbolic items')


@builtin('list')
def _list(interp, path, args, kw):
    if not args:
        return SeqV()
    v = args[0]
    if isinstance(v, SetV) and (v.sym is not None or len(v.concrete or ()) > 1):
        interp.set_iteration_sites.append(('list(set)', list(interp.call_stack)))
        if v.sym is not None:
            f = uf(interp, 'py.list_of_set_omega', z3.SetSort(z3.StringSort()), z3.IntSort(),
                   z3.SeqSort(z3.StringSort()))
            from .sorts import TypeDesc
            omega = z3.Int(fresh_name('omega'))
            return SeqV(interp.seq_of_base(f(v.sym, omega), TypeDesc('str'), path))
    return SeqV(seq_of(interp, v, path))


@builtin('tuple')
def _tuple(interp, path, args, kw):
    if not args:
        return ()
    t = seq_of(interp, args[0], path)
    if not ops.seq_is_lit(t):
        raise Unsupported('tuple of symbolic sequence')
    return tuple(ops.seq_lit_items(t))


@builtin('set')
def _set(interp, path, args, kw):
    if not args:
        return SetV(concrete=[])
    v = args[0]
    if isinstance(v, SetV):
        return SetV(concrete=list(v.concrete), sym=None) if v.sym is None else SetV(sym=v.sym)
    return set_from_seq(interp, seq_of(interp, v, path), path)


@builtin('dict')
def _dict(interp, path, args, kw):
    if args:
        raise Unsupported('dict(...)')
    return DictV(concrete=dict(kw))


@builtin('range')
def _range(interp, path, args, kw):
    if len(args) == 1:
        lo, hi = 0, args[0]
    elif len(args) == 2:
        lo, hi = args
    else:
        raise Unsupported('range step')
    if isinstance(lo, int) and isinstance(hi, int):
        return SeqV(SeqT([LitB(list(range(lo, hi)))]) if hi > lo else SeqT())
    var = z3.Int(fresh_name('r'))
    return SeqV(SeqT([CompB(var, RangeB(lo, hi), True, SeqT([LitB([var])]), None)]))


@builtin('int')
def _int(interp, path, args, kw):
    v = args[0]
    if isinstance(v, (int, bool)):
        return int(v)
    if isinstance(v, str):
        try:
            return int(v)
        except ValueError:
            interp.raise_builtin('ValueError', 'invalid literal for int()')
    raise Unsupported('int() of symbolic value')


@builtin('bool')
def _bool(interp, path, args, kw):
    return interp.truthy(args[0], path) if args else False


@builtin('min')
def _min(interp, path, args, kw):
    if len(args) == 2 and all(interp.is_num(a) for a in args):
        a, b = args
        if isinstance(a, int) and isinstance(b, int):
            return min(a, b)
        return z3.If(a <= b, a, b)
    raise Unsupported('min')


@builtin('max')
def _max(interp, path, args, kw):
    if len(args) == 2 and all(interp.is_num(a) for a in args):
        a, b = args
        if isinstance(a, int) and isinstance(b, int):
            return max(a, b)
        return z3.If(a >= b, a, b)
    raise Unsupported('max')


@builtin('zip')
def _zip(interp, path, args, kw):
    ts = [seq_of(interp, a, path) for a in args]
    if all(ops.seq_is_lit(t) for t in ts):
        items = list(zip(*[ops.seq_lit_items(t) for t in ts]))
        return SeqV(SeqT([LitB(items)]) if items else SeqT())
    raise Unsupported('zip of symbolic sequences')


@builtin('enumerate')
def _enumerate(interp, path, args, kw):
    t = seq_of(interp, args[0], path)
    if ops.seq_is_lit(t):
        items = list(enumerate(ops.seq_lit_items(t)))
        return SeqV(SeqT([LitB(items)]) if items else SeqT())
    raise Unsupported('enumerate of symbolic sequence')


@builtin('open')
def _open(interp, path, args, kw):
    raise Unsupported('file I/O is outside every verified cone')


@builtin('id')
def _id(interp, path, args, kw):
    raise Unsupported('id() is an ambient source')


@builtin('hash')
def _hash(interp, path, args, kw):
    raise Unsupported('hash() is an ambient source')


@builtin('getattr')
def _getattr(interp, path, args, kw):
    raise Unsupported('getattr()')


@builtin('setattr')
def _setattr(interp, path, args, kw):
    raise Unsupported('setattr()')


def call_builtin_class(interp, cls: BuiltinClass, args, kwargs, path):
    n = cls.name
    if cls.is_subclass_of(BuiltinClass.get('BaseException')):
        return ExcV(cls, {'args': tuple(args)})
    if n in BUILTINS:
        return BUILTINS[n].impl(interp, path, args, kwargs)
    if n == 'float':
        if isinstance(args[0], (int, float)):
            return float(args[0])
    if n == 'object':
        return ObjV(cls, {})
    raise Unsupported(f'call of builtin class {n}')


def builtin_class_attr(interp, cls: BuiltinClass, name):
    if cls.name == 'str' and name in STR_METHODS:
        return BuiltinFn('str.' + name, STR_METHODS[name])
    if cls.name == 'dict' and name == 'fromkeys':
        raise Unsupported('dict.fromkeys')
    raise Unsupported(f'{cls.name}.{name}')


def opaque_attr(interp, obj, name, path):
    h = getattr(obj, 'handlers', None)
    if h and name in h:
        return BuiltinFn(name, h[name])
    raise Unsupported(f'attribute {name} of a value of unknown type ({obj.note})')


# ---------------------------------------------------------------------------------------- methods

def method_of(interp, obj, name):
    if isinstance(obj, (str, StrT)):
        if name in STR_METHODS:
            return BoundMethod(obj, BuiltinFn('str.' + name, STR_METHODS[name]))
        interp.raise_builtin('AttributeError', f"'str' object has no attribute '{name}'")
    if isinstance(obj, SeqV):
        if name in LIST_METHODS:
            return BoundMethod(obj, BuiltinFn('list.' + name, LIST_METHODS[name]))
        interp.raise_builtin('AttributeError', f"'list' object has no attribute '{name}'")
    if isinstance(obj, SetV):
        if name in SET_METHODS:
            return BoundMethod(obj, BuiltinFn('set.' + name, SET_METHODS[name]))
        interp.raise_builtin('AttributeError', f"'set' object has no attribute '{name}'")
    if isinstance(obj, DictV):
        if name in DICT_METHODS:
            return BoundMethod(obj, BuiltinFn('dict.' + name, DICT_METHODS[name]))
        interp.raise_builtin('AttributeError', f"'dict' object has no attribute '{name}'")
    if isinstance(obj, tuple):
        interp.raise_builtin('AttributeError', f"'tuple' object has no attribute '{name}'")
    interp.raise_builtin('AttributeError', f"object has no attribute '{name}'")


def _s_join(interp, path, args, kw):
    sep, it = args
    t = seq_of(interp, it, path)
    t = mkseq(t.blocks)
    if ops.seq_is_lit(t):
        items = ops.seq_lit_items(t)
        parts = []
        for i, x in enumerate(items):
            if not isinstance(x, (str, StrT)):
                interp.raise_builtin('TypeError', f'sequence item {i}: expected str instance')
            if i:
                parts.append(sep)
            parts.append(x)
        return mkstr(parts)
    _check_str_items(interp, t)
    res = mkstr([JoinT(sep, t)])
    if getattr(interp, 'join_laws', False) and isinstance(sep, str) and sep:
        join_laws(interp, path, sep, t, res)
    return res


def join_laws(interp, path, sep, t, res):
    """Trusted laws of str.join / str.split (validated against CPython by tools/selftest.py), given to the path
    only after their side conditions have been PROVED at a fresh index:
       for L whose elements are non-empty and do not contain sep, J = sep.join(L):
         J == ''  <=>  len(L) == 0;   sep in J  <=>  len(L) >= 2;   len(L) == 1  =>  J == L[0];
         len(L) >= 1  =>  J.split(sep) == L;   c in J  =>  some element contains c   (c not a substring of sep)"""
    seqz = interp.to_zseq(t)
    if seqz is None:
        return
    zj = to_zstr(res)
    zsep = z3.StringVal(sep)
    i0 = z3.Int(fresh_name('jl'))
    sub = path.child()
    sub.add_index(i0)
    inr = z3.And(i0 >= 0, i0 < z3.Length(seqz))
    if not sub.entails(z3.Implies(inr, z3.And(z3.Length(seqz[i0]) > 0, z3.Not(z3.Contains(seqz[i0], zsep))))):
        return
    n = z3.Length(seqz)
    path.add_index(z3.IntVal(0))
    path.define((z3.Length(zj) == 0) == (n == 0))
    path.define(z3.Contains(zj, zsep) == (n >= 2))
    path.define(z3.Implies(n == 1, zj == seqz[0]))
    f = uf(interp, f'py.split[{sep!r}]', z3.StringSort(), z3.SeqSort(z3.StringSort()))
    path.define(z3.Implies(n >= 1, f(zj) == seqz))
    interp.__dict__.setdefault('_join_reg', {})[zj.get_id()] = (sep, t, zj, seqz)
    for c in ('.', ':', '::'):
        if c not in sep and sep not in c:
            if sub.entails(z3.Implies(inr, z3.Not(z3.Contains(seqz[i0], z3.StringVal(c))))):
                path.define(z3.Not(z3.Contains(zj, z3.StringVal(c))))


def _check_str_items(interp, t):
    for b in t.blocks:
        if isinstance(b, LitB):
            for x in b.items:
                if not isinstance(x, (str, StrT)):
                    interp.raise_builtin('TypeError', 'sequence item: expected str instance')
        elif isinstance(b, (GuardB, CompB)):
            _check_str_items(interp, b.body)


def _s_split(interp, path, args, kw):
    s = args[0]
    sep = args[1] if len(args) > 1 else None
    if isinstance(s, str) and (sep is None or isinstance(sep, str)):
        items = s.split(sep)
        return SeqV(SeqT([LitB(items)]))
    if not isinstance(sep, str) or not sep:
        raise Unsupported('split with symbolic separator')
    reg = getattr(interp, '_join_reg', {}).get(to_zstr(s).get_id())
    if reg is not None and reg[0] == sep and path.entails(z3.Length(reg[3]) >= 1):
        # split(sep.join(L), sep) == L  (law of join_laws, side conditions proved there)
        return SeqV(reg[1])
    f = uf(interp, f'py.split[{sep!r}]', z3.StringSort(), z3.SeqSort(z3.StringSort()))
    from .sorts import TypeDesc
    base = f(to_zstr(s))
    path.define(z3.Length(base) >= 1)
    hook = getattr(interp, 'split_axioms', None)
    if hook:
        hook(interp, path, sep, to_zstr(s), base)
    return SeqV(interp.seq_of_base(base, TypeDesc('str'), path))


def split_lines_syntactic(interp, path, s):
    """SeqT of the lines of a string whose symbolic parts are all free of line boundaries, else None"""
    if isinstance(s, str):
        items = s.splitlines()
        return SeqT([LitB(items)]) if items else SeqT()
    r = _split_core(interp, path, s)
    return r


def _s_splitlines(interp, path, args, kw):
    s = args[0]
    if len(args) > 1 or kw:
        raise Unsupported('splitlines(keepends)')
    if isinstance(s, str):
        items = s.splitlines()
        return SeqV(SeqT([LitB(items)]) if items else SeqT())
    r = _split_core(interp, path, s)
    if r is not None:
        return SeqV(r)
    f = uf(interp, 'py.splitlines', z3.StringSort(), z3.SeqSort(z3.StringSort()))
    from .sorts import TypeDesc
    z = to_zstr(s)
    base = f(z)
    reg = path.__dict__.setdefault('_splitlines_terms', set())
    if base.get_id() not in reg:
        reg.add(base.get_id())
        # facts about str.splitlines() (CPython): a string has no lines iff it is empty; no line contains a line
        # boundary (instantiable hypothesis)
        path.define((z3.Length(base) == 0) == (z3.Length(z) == 0))
        q = z3.Int(fresh_name('q'))
        path.add_hyp([q], z3.Implies(z3.And(q >= 0, q < z3.Length(base)), ops.with_facts(ops.no_break(base[q]))),
                     'splitlines-lines-break-free')
    hook = getattr(interp, 'splitlines_axioms', None)
    if hook:
        hook(interp, path, z, base)
    return SeqV(interp.seq_of_base(base, TypeDesc('str'), path))


def _split_core(interp, path, s):
    """Syntactic str.splitlines() of a string term.  Literal parts are split at every line boundary; symbolic parts
    must be provably free of boundaries.  A part  '\n'.join(L)  that starts at a line start and is followed by a
    literal line break contributes the elements of L as lines when every element of L is free of boundaries and L
    is non-empty (law T1 of DESIGN.md: splitlines('\n'.join(L) + '\n') == L; trusted stdlib law, validated against
    CPython by tools/selftest.py)."""
    blocks = []          # finished lines (LitB) and whole line sequences (blocks of L)
    cur = []             # parts of the line being built
    parts = list(s.parts)
    i = 0
    while i < len(parts):
        p = parts[i]
        if isinstance(p, str):
            j = 0
            while j < len(p):
                ch = p[j]
                if ch in ops.LINE_BREAKS:
                    if ch == '\r' and j + 1 < len(p) and p[j + 1] == '\n':
                        j += 1
                    blocks.append(LitB([mkstr(cur)]))
                    cur = []
                else:
                    cur.append(ch)
                j += 1
            i += 1
            continue
        if isinstance(p, JoinT) and p.sep == '\n' and not cur and i + 1 < len(parts) and \
                isinstance(parts[i + 1], str) and parts[i + 1].startswith('\n'):
            okj = forall_items(interp, path, p.seq, lambda it, pp: str_break_free(interp, it, pp))
            ne = interp.seq_nonempty(p.seq, path)
            if okj and (ne is True or (ne is not False and path.entails(interp.zbool(ne)))):
                blocks.extend(p.seq.blocks)
                parts[i + 1] = parts[i + 1][1:]
                i += 1
                continue
            return None
        if not part_break_free(interp, path, p):
            if os.environ.get('PYVC_DEBUG_SPLIT'):
                print('splitlines: not provably break-free:', str(p)[:300], '| stack', interp.call_stack[-3:])
            return None
        cur.append(p)
        i += 1
    last = mkstr(cur)
    ne = ops.str_nonempty(last)
    if ne is True:
        blocks.append(LitB([last]))
    elif ne is not False:
        blocks.append(GuardB(ne, SeqT([LitB([last])])))
    return mkseq(blocks)


def _syntactic_break_free(e, declared=(), depth=0):
    """Assumption MV-1 (model validity): no string stored in a model object contains a line boundary.  Under it
    a string term is break-free when it is built from model fields by operations that cannot introduce one."""
    if depth > 12:
        return False
    if z3.is_string_value(e):
        return not any(c in ops.LINE_BREAKS for c in ops._unescape(e.as_string()))
    if not z3.is_app(e):
        return False
    k = e.decl().kind()
    if k == z3.Z3_OP_DT_ACCESSOR:
        return True
    if k == z3.Z3_OP_ITE:
        return _syntactic_break_free(e.arg(1), declared, depth + 1) and \
            _syntactic_break_free(e.arg(2), declared, depth + 1)
    if k == z3.Z3_OP_SEQ_CONCAT:
        return all(_syntactic_break_free(c, declared, depth + 1) for c in e.children())
    if k in (z3.Z3_OP_SEQ_EXTRACT, z3.Z3_OP_SEQ_AT):
        return _syntactic_break_free(e.arg(0), declared, depth + 1)
    if k == z3.Z3_OP_SEQ_NTH:
        # an element of a list of strings stored in a model object (NamespaceIds.items ...)
        base = e.arg(0)
        while z3.is_app(base) and base.decl().kind() == z3.Z3_OP_SEQ_EXTRACT:
            base = base.arg(0)
        return z3.is_app(base) and base.decl().kind() == z3.Z3_OP_DT_ACCESSOR
    if k == z3.Z3_OP_UNINTERPRETED:
        name = e.decl().name()
        if name in ('py.upper', 'py.lower', 'py.strip', 'py.lstrip', 'py.rstrip', 'os.path.basename',
                    'os.path.splitext.root', 'os.path.splitext.ext') and e.num_args() == 1:
            return _syntactic_break_free(e.arg(0), declared, depth + 1)
        if name.startswith('py.repeat['):
            ch = name[len('py.repeat['):-1]
            return ch not in ("'\\n'", "'\\r'")
        if e.num_args() == 0 and e.get_id() in declared:
            return True
    return False


def forall_items(interp, path, t: SeqT, pred):
    """PROVES  pred(item) for every item of the sequence term (fresh index per comprehension); pred maps an
    executor value and a path to a z3 Bool / bool.  Returns True only when every item is proved."""
    for b in t.blocks:
        if isinstance(b, LitB):
            for it in b.items:
                g = pred(it, path)
                if g is True:
                    continue
                if g is False or not path.entails(g):
                    return False
        elif isinstance(b, GuardB):
            sub = path.child()
            sub.binders = path.binders
            try:
                sub.assume(interp.zbool(b.cond))
            except Exception:
                continue
            if not forall_items(interp, sub, b.body, pred):
                return False
        elif isinstance(b, CompB):
            k = z3.Int(fresh_name('fa'))
            sub = path.child()
            sub.binders = path.binders + [k]
            sub.add_index(k)
            sub.assume(ops.in_range(b.base, k))
            if b.guard is not True:
                sub.assume(z3.substitute(b.guard, (b.var, k)))
            if not forall_items(interp, sub, ops.subst(b.body, [(b.var, k)]), pred):
                return False
        else:
            return False
    return True


def str_break_free(interp, v, path):
    """z3 Bool / bool: the string value contains no line boundary"""
    if isinstance(v, str):
        return not any(c in ops.LINE_BREAKS for c in v)
    if not isinstance(v, StrT):
        return False
    res = True
    for p in v.parts:
        if isinstance(p, str):
            if any(c in ops.LINE_BREAKS for c in p):
                return False
        elif isinstance(p, JoinT):
            if not part_break_free(interp, path, p):
                return False
        elif getattr(interp, 'model_strings_break_free', False) and \
                _syntactic_break_free(p, interp.break_free_syms):
            continue
        else:
            res = interp.and_(res, ops.no_break(p, path))
    return res


def part_break_free(interp, path, p):
    if isinstance(p, JoinT):
        cache = path.__dict__.setdefault('_bfj', {})
        key = canon(p)
        if key not in cache:
            cache[key] = str_break_free(interp, p.sep, path) is True and \
                forall_items(interp, path, p.seq, lambda it, pp: str_break_free(interp, it, pp))
        return cache[key]
    if getattr(interp, 'model_strings_break_free', False):
        # declared-break-free mode: decided syntactically (no solver), see assumption MV-1
        return _syntactic_break_free(p, interp.break_free_syms)
    key = p.get_id()
    cache = path.__dict__.setdefault('_bf', {})
    if key not in cache:
        cache[key] = path.entails(ops.no_break(p, path))
    return cache[key]


def _s_strip(interp, path, args, kw, left=True, right=True):
    s = args[0]
    if len(args) > 1:
        raise Unsupported('strip(chars)')
    if isinstance(s, str):
        return s.strip() if left and right else (s.lstrip() if left else s.rstrip())
    parts = list(s.parts)
    done_l = not left
    done_r = not right
    while parts and not done_l and isinstance(parts[0], str):
        st = parts[0].lstrip()
        if st:
            parts[0] = st
            done_l = True
        else:
            parts.pop(0)
    while parts and not done_r and isinstance(parts[-1], str):
        st = parts[-1].rstrip()
        if st:
            parts[-1] = st
            done_r = True
        else:
            parts.pop()
    if not parts:
        return ''
    if done_l and done_r:
        return mkstr(parts)
    cur = mkstr(parts)
    z = to_zstr(cur)
    mode = 'strip' if (not done_l and not done_r) else ('lstrip' if not done_l else 'rstrip')
    r = strip_term(interp, path, z, mode)
    if any(isinstance(p, str) and p.strip() for p in parts):
        # a literal non-whitespace character survives stripping
        path.define(z3.Length(r) > 0)
    return mkstr([r])


def strip_term(interp, path, z, mode, depth=0):
    """str.strip / lstrip / rstrip as uninterpreted functions String -> String; every application gets the
    instances of the defining facts (decomposition into whitespace + core) and of the derived facts that make
    the usual obligations propositional."""
    ops._init_re()
    S = z3.StringSort()
    f = uf(interp, f'py.{mode}', S, S)
    r = f(z)
    reg = path.__dict__.setdefault('_strip_terms', set())
    key = (mode, z.get_id())
    if key in reg:
        return r
    reg.add(key)
    empty = z3.StringVal('')
    first_ws = ops.ws_char(ops.first_char(z), path)
    last_ws = ops.ws_char(ops.last_char(z), path)
    r_first_ws = ops.ws_char(ops.first_char(r), path)
    r_last_ws = ops.ws_char(ops.last_char(r), path)
    path.define((r == empty) == ops.all_ws(z, path))
    if mode == 'strip':
        lead = uf(interp, 'py.strip.lead', S, S)(z)
        trail = uf(interp, 'py.strip.trail', S, S)(z)
        path.define(z == z3.Concat(lead, r, trail))
        path.define(ops.all_ws(lead, path))
        path.define(ops.all_ws(trail, path))
        path.define(z3.Or(r == empty, z3.And(z3.Not(r_first_ws), z3.Not(r_last_ws))))
        if depth == 0:
            rs = strip_term(interp, path, z, 'rstrip', 1)
            ls = strip_term(interp, path, z, 'lstrip', 1)
            path.define(z3.Implies(z3.And(z3.Length(z) > 0, z3.Not(first_ws)), z3.And(lead == empty, r == rs)))
            path.define(z3.Implies(z3.And(z3.Length(z) > 0, z3.Not(last_ws)), z3.And(trail == empty, r == ls)))
    elif mode == 'rstrip':
        trail = uf(interp, 'py.rstrip.trail', S, S)(z)
        path.define(z == z3.Concat(r, trail))
        # text up to a literal non-whitespace character at the start survives: rstrip('// ' + x) starts with '//'
        first = z.arg(0) if (z3.is_app(z) and z.decl().kind() == z3.Z3_OP_SEQ_CONCAT) else z
        if z3.is_string_value(first):
            lit = ops._unescape(first.as_string()).rstrip()
            if lit:
                path.define(z3.PrefixOf(z3.StringVal(lit), r))
        path.define(ops.all_ws(trail, path))
        path.define(z3.Or(r == empty, z3.Not(r_last_ws)))
        path.define(z3.Implies(z3.And(z3.Length(z) > 0, z3.Not(last_ws)), r == z))
    else:
        lead = uf(interp, 'py.lstrip.lead', S, S)(z)
        path.define(z == z3.Concat(lead, r))
        path.define(ops.all_ws(lead, path))
        path.define(z3.Or(r == empty, z3.Not(r_first_ws)))
        path.define(z3.Implies(z3.And(z3.Length(z) > 0, z3.Not(first_ws)), r == z))
    return r


def _s_upper(interp, path, args, kw):
    s = args[0]
    if isinstance(s, str):
        return s.upper()
    f = uf(interp, 'py.upper', z3.StringSort(), z3.StringSort())
    return mkstr([f(to_zstr(s))])


def _s_lower(interp, path, args, kw):
    s = args[0]
    if isinstance(s, str):
        return s.lower()
    f = uf(interp, 'py.lower', z3.StringSort(), z3.StringSort())
    z = to_zstr(s)
    r = f(z)
    # lower() is the identity on strings without cased-upper characters; stated for [0-9a-f]* which is what
    # hexdigest() yields (DESIGN 2.7)
    hexre = z3.Star(z3.Union(z3.Range(z3.StringVal('0'), z3.StringVal('9')),
                             z3.Range(z3.StringVal('a'), z3.StringVal('f'))))
    path.define(z3.Implies(z3.InRe(z, hexre), r == z))
    return mkstr([r])


def _s_startswith(interp, path, args, kw):
    s, pre = args[0], args[1]
    if isinstance(s, str) and isinstance(pre, str):
        return s.startswith(pre)
    if isinstance(pre, str) and isinstance(s, StrT) and isinstance(s.parts[0], str) and len(s.parts[0]) >= len(pre):
        return s.parts[0].startswith(pre)
    return z3.PrefixOf(to_zstr(pre), to_zstr(s))


def _s_endswith(interp, path, args, kw):
    s, suf = args[0], args[1]
    if isinstance(s, str) and isinstance(suf, str):
        return s.endswith(suf)
    return z3.SuffixOf(to_zstr(suf), to_zstr(s))


def _s_encode(interp, path, args, kw):
    from .interp import OpaqueV
    s = args[0]
    enc = args[1] if len(args) > 1 else kw.get('encoding', 'utf-8')
    if not isinstance(enc, str):
        raise Unsupported('symbolic encoding')
    enc = enc.lower().replace('_', '-')
    enc = 'utf-8' if enc in ('utf8', 'utf-8') else enc
    o = OpaqueV(to_zstr(s), f'bytes:{enc}')
    return o


def _s_ljust(interp, path, args, kw):
    s, w = args[0], args[1]
    fill = args[2] if len(args) > 2 else ' '
    return ljust(interp, s, w, fill, path)


def _s_replace(interp, path, args, kw):
    s, a, b = args[:3]
    if isinstance(s, str) and isinstance(a, str) and isinstance(b, str):
        return s.replace(a, b)
    raise Unsupported('replace on symbolic string')


def _s_format(interp, path, args, kw):
    raise Unsupported('str.format')


def _s_isidentifier(interp, path, args, kw):
    s = args[0]
    if isinstance(s, str):
        return s.isidentifier()
    raise Unsupported('isidentifier on symbolic string')


STR_METHODS = {
    'join': _s_join, 'split': _s_split, 'splitlines': _s_splitlines,
    'strip': _s_strip,
    'lstrip': lambda i, p, a, k: _s_strip(i, p, a, k, True, False),
    'rstrip': lambda i, p, a, k: _s_strip(i, p, a, k, False, True),
    'upper': _s_upper, 'lower': _s_lower, 'startswith': _s_startswith, 'endswith': _s_endswith,
    'encode': _s_encode, 'ljust': _s_ljust, 'replace': _s_replace, 'format': _s_format,
    'isidentifier': _s_isidentifier,
}


def _l_append(interp, path, args, kw):
    list_append(interp, path, args[0], args[1])


def _l_extend(interp, path, args, kw):
    list_extend(interp, path, args[0], args[1])


def _l_pop(interp, path, args, kw):
    lst = args[0]
    if lst.frozen:
        interp.frame_violation(path, lst, 'pop')
    t = mkseq(lst.term.blocks)
    interp.journal_write(path, lst, ('pop', None))
    if len(args) > 1:
        if args[1] != 0:
            raise Unsupported('pop(index) with an index other than 0')
        if t.blocks and isinstance(t.blocks[0], LitB):
            items = t.blocks[0].items
            lst.term = mkseq([LitB(items[1:])] + list(t.blocks[1:]))
            return items[0]
        if not t.blocks:
            interp.raise_builtin('IndexError', 'pop from empty list')
        z = interp.to_zseq(t)
        if z is None:
            raise Unsupported('pop(0) on symbolic list')
        n = z3.Length(z)
        if not path.branch(n > 0):
            interp.raise_builtin('IndexError', 'pop from empty list')
        td = _elem_td(interp, t)
        if td is None:
            from .sorts import TypeDesc
            td = TypeDesc('str')
        first = interp.wrap_elem(td, ops.nth(z, z3.IntVal(0)))
        lst.term = interp.seq_of_base(ops.subseq(z, 1, n - 1), td, path)
        return first
    if t.blocks and isinstance(t.blocks[-1], LitB):
        items = t.blocks[-1].items
        lst.term = mkseq(list(t.blocks[:-1]) + [LitB(items[:-1])])
        return items[-1]
    if not t.blocks:
        interp.raise_builtin('IndexError', 'pop from empty list')
    z = interp.to_zseq(t)
    if z is not None:
        n = z3.Length(z)
        if not path.branch(n > 0):
            interp.raise_builtin('IndexError', 'pop from empty list')
        td = _elem_td(interp, t)
        if td is None:
            from .sorts import TypeDesc
            td = TypeDesc('str')
        last = interp.wrap_elem(td, z[n - 1])
        lst.term = interp.seq_of_base(ops.subseq(z, 0, n - 1), td, path)
        return last
    raise Unsupported('pop on symbolic list')


def _l_insert(interp, path, args, kw):
    lst, idx, item = args
    if lst.frozen:
        interp.frame_violation(path, lst, 'insert')
    interp.journal_write(path, lst, ('insert', None))
    if idx == 0:
        lst.term = mkseq([LitB([item])] + list(lst.term.blocks))
        return
    raise Unsupported('insert at non-zero index')


def _l_copy(interp, path, args, kw):
    return SeqV(args[0].term)


def _l_clear(interp, path, args, kw):
    lst = args[0]
    if lst.frozen:
        interp.frame_violation(path, lst, 'clear')
    interp.journal_write(path, lst, ('clear', None))
    lst.term = SeqT()


def _l_unsupported(name):
    def f(interp, path, args, kw):
        raise Unsupported(f'list.{name}')
    return f


LIST_METHODS = {'append': _l_append, 'extend': _l_extend, 'pop': _l_pop, 'insert': _l_insert, 'copy': _l_copy,
                'clear': _l_clear, 'sort': _l_unsupported('sort'), 'reverse': _l_unsupported('reverse'),
                'remove': _l_unsupported('remove'), 'index': _l_unsupported('index'),
                'count': _l_unsupported('count')}


def _set_add(interp, path, args, kw):
    s, x = args
    check_hashable(interp, x)
    interp.journal_write(path, s, ('add', x))
    if s.sym is None and (isinstance(x, (str, int, bool, EnumV, StrT)) or x is None):
        interp.set_add(s, x, path)
        return
    if isinstance(x, (str, StrT)):
        s.sym = z3.SetAdd(interp.set_z3(s), to_zstr(x))
        s.concrete = None
        return
    raise Unsupported('set.add of symbolic non-string')


def _set_pop(interp, path, args, kw):
    s = args[0]
    interp.journal_write(path, s, ('pop', None))
    if getattr(s, 'comp', None) is not None:
        # any element of the comprehension (order = oracle); sound only for singleton value sets
        interp.set_iteration_sites.append(('set.pop', list(interp.call_stack)))
        from .builtins_ import seq_first
        return seq_first(interp, s.comp, path)
    if s.sym is None:
        if not s.concrete:
            interp.raise_builtin('KeyError', 'pop from an empty set')
        if len(s.concrete) > 1:
            interp.set_iteration_sites.append(('set.pop', list(interp.call_stack)))
            x = omega_order(interp, s.concrete)[-1]
            s.concrete.remove(x)
            return x
        return s.concrete.pop()
    raise Unsupported('pop on symbolic set')


def _set_update(interp, path, args, kw):
    s = args[0]
    for o in args[1:]:
        t = seq_of(interp, o, path) if not isinstance(o, SetV) else None
        if isinstance(o, SetV):
            interp.journal_write(path, s, ('update', None))
            if s.sym is None and o.sym is None:
                for x in o.concrete:
                    _set_add(interp, path, [s, x], {})
            else:
                s.sym = z3.SetUnion(interp.set_z3(s), interp.set_z3(o))
                s.concrete = None
        else:
            if not ops.seq_is_lit(t):
                raise Unsupported('set.update with symbolic sequence')
            for x in ops.seq_lit_items(t):
                _set_add(interp, path, [s, x], {})


def _set_unary(op):
    def f(interp, path, args, kw):
        import ast as pyast
        return interp.binop({'union': pyast.BitOr(), 'difference': pyast.Sub(),
                             'intersection': pyast.BitAnd()}[op], args[0], args[1], path)
    return f


def _set_issubset(interp, path, args, kw):
    import ast as pyast
    return interp.compare(pyast.LtE(), args[0], args[1], path)


def _set_copy(interp, path, args, kw):
    s = args[0]
    return SetV(concrete=list(s.concrete) if s.concrete is not None else None, sym=s.sym)


SET_METHODS = {'add': _set_add, 'pop': _set_pop, 'update': _set_update, 'union': _set_unary('union'),
               'difference': _set_unary('difference'), 'intersection': _set_unary('intersection'),
               'issubset': _set_issubset, 'copy': _set_copy}


def _d_update(interp, path, args, kw):
    d, o = args
    if not isinstance(o, DictV):
        raise Unsupported('dict.update with non-dict')
    interp.journal_write(path, d, ('update', None))
    if d.dom is None and o.dom is None:
        for k, v in o.concrete.items():
            do_setitem(interp, d, k, v, path)
        return
    if d.dom is None:
        if d.concrete:
            sample = next(iter(d.concrete.values()))
            _dict_make_symbolic(interp, d, sample)
        else:
            d.dom, d.val, d.val_wrap, d.concrete = o.dom, o.val, o.val_wrap, None
            return
    if o.dom is None:
        for k, v in o.concrete.items():
            do_setitem(interp, d, k, v, path)
        return
    # pointwise override:  val'[k] = o.val[k] if k in o.dom else d.val[k]
    newv = z3.Const(fresh_name('dmap'), d.val.sort())
    k = z3.String(fresh_name('k'))
    path.add_hyp([k], newv[k] == z3.If(z3.IsMember(k, o.dom), o.val[k], d.val[k]), 'dict-update')
    path.__dict__.setdefault('string_terms_hook', None)
    d.update_defs = getattr(d, 'update_defs', []) + [(newv, o.dom, o.val, d.val)]
    d.dom = z3.SetUnion(d.dom, o.dom)
    d.val = newv


def _d_values(interp, path, args, kw):
    d = args[0]
    if d.dom is None:
        vals = list(d.concrete.values())
        return SeqV(SeqT([LitB(vals)]) if vals else SeqT())
    raise Unsupported('values() of symbolic dict')


def _d_keys(interp, path, args, kw):
    d = args[0]
    if d.dom is None:
        ks = list(d.concrete.keys())
        return SeqV(SeqT([LitB(ks)]) if ks else SeqT())
    raise Unsupported('keys() of symbolic dict')


def _d_items(interp, path, args, kw):
    d = args[0]
    if d.dom is None:
        its = list(d.concrete.items())
        return SeqV(SeqT([LitB(its)]) if its else SeqT())
    raise Unsupported('items() of symbolic dict')


def _d_get(interp, path, args, kw):
    d, key = args[0], args[1]
    default = args[2] if len(args) > 2 else None
    try:
        return dict_get(interp, d, key, path)
    except RaiseSignal as rs:
        if rs.exc.cls is BuiltinClass.get('KeyError'):
            return default
        raise


DICT_METHODS = {'update': _d_update, 'values': _d_values, 'keys': _d_keys, 'items': _d_items, 'get': _d_get}


# ---------------------------------------------------------------------------------------- external modules

class _Placeholder(Atomic):
    def __init__(self, name):
        self.name = name

    def __repr__(self):
        return f'<{self.name}>'


def ext_attr(interp, m, name):
    from .interp import ExtModule, ENUM_BASE
    mod = m.name
    if mod == 'enum' and name == 'Enum':
        return ENUM_BASE
    if mod in ('typing', 'typing_extensions', 'dataclasses'):
        return _Placeholder(f'{mod}.{name}')
    if mod == 'copy' and name == 'deepcopy':
        return BuiltinFn('deepcopy', _deepcopy)
    if mod == 'os' and name == 'path':
        return ExtModule('os.path')
    if mod == 'os.path' and name in ('basename', 'splitext'):
        return BuiltinFn('os.path.' + name, _ospath(name))
    if mod == 're' and name in ('fullmatch', 'match', 'search', 'compile'):
        return BuiltinFn('re.' + name, _re_fn(name))
    if mod == 'hashlib':
        return BuiltinFn('hashlib.' + name, _hashlib(name))
    if mod == 'orjson' and name == 'loads':
        h = getattr(interp, 'orjson_loads', None)
        if h is None:
            raise Unsupported('orjson.loads (no JSON model installed)')
        return BuiltinFn('orjson.loads', h)
    raise Unsupported(f'external {mod}.{name} is not modelled (ambient source or unknown library call)')


def deepcopy_value(interp, v, memo=None):
    memo = {} if memo is None else memo
    if isinstance(v, (ObjV, SeqV, SetV, DictV)):
        if id(v) in memo:
            return memo[id(v)]
    if isinstance(v, ExcV):
        return v
    if isinstance(v, ObjV):
        f = v.cls.lookup('__deepcopy__') if isinstance(v.cls, ClassV) else None
        if f is not None:
            raise Unsupported('__deepcopy__ override')
        r = ObjV(v.cls, {})
        r.__class__ = v.__class__
        memo[id(v)] = r
        for k, x in v.fields.items():
            r.fields[k] = deepcopy_value(interp, x, memo)
        r.fresh_in = interp.act_counter
        return r
    if isinstance(v, SeqV):
        r = SeqV(_copy_term(interp, v.term, memo))
        memo[id(v)] = r
        r.fresh_in = interp.act_counter
        return r
    if isinstance(v, SetV):
        r = SetV(concrete=list(v.concrete) if v.concrete is not None else None, sym=v.sym)
        if getattr(v, 'comp', None) is not None:
            r.comp = v.comp
        memo[id(v)] = r
        return r
    if isinstance(v, DictV):
        r = DictV(concrete={k: deepcopy_value(interp, x, memo) for k, x in v.concrete.items()}
                  if v.dom is None else None, dom=v.dom, val=v.val, val_wrap=v.val_wrap)
        memo[id(v)] = r
        return r
    if isinstance(v, tuple):
        return tuple(deepcopy_value(interp, x, memo) for x in v)
    if isinstance(v, DtV) and v.cls.is_dataclass:
        # a deep copy of an immutable symbolic instance is a FRESH heap object with the same field values
        from .path import Path as _P
        path = getattr(interp, '_deepcopy_path', None)
        if path is None:
            return v
        if interp.sorts.is_recursive(v.cls):
            return v
        r = ObjV(v.cls, {})
        r.fresh_in = interp.act_counter
        for (fname, td) in interp.sorts.fields_of(v.cls):
            x = interp.getattr_(v, fname, path)
            if isinstance(x, SeqV):
                x = SeqV(x.term)        # fresh, unfrozen list with the same elements
                x.fresh_in = interp.act_counter
            elif isinstance(x, DtV):
                x = deepcopy_value(interp, x, memo)
            r.fields[fname] = x
        return r
    return v


def _copy_term(interp, t: SeqT, memo):
    blocks = []
    for b in t.blocks:
        if isinstance(b, LitB):
            blocks.append(LitB([deepcopy_value(interp, x, memo) for x in b.items]))
        else:
            blocks.append(b)    # templates are pure values
    return SeqT(blocks)


def _deepcopy(interp, path, args, kw):
    interp._deepcopy_path = path
    try:
        return deepcopy_value(interp, args[0])
    finally:
        interp._deepcopy_path = None


def _ospath(name):
    def f(interp, path, args, kw):
        s = args[0]
        if isinstance(s, str):
            if name == 'basename':
                return pyos.path.basename(s)
            return tuple(pyos.path.splitext(s))
        z = to_zstr(s)
        if name == 'basename':
            g = uf(interp, 'os.path.basename', z3.StringSort(), z3.StringSort())
            return mkstr([g(z)])
        g0 = uf(interp, 'os.path.splitext.root', z3.StringSort(), z3.StringSort())
        g1 = uf(interp, 'os.path.splitext.ext', z3.StringSort(), z3.StringSort())
        path.define(z3.Concat(g0(z), g1(z)) == z)
        return (mkstr([g0(z)]), mkstr([g1(z)]))
    return f


def _hashlib(alg):
    def f(interp, path, args, kw):
        from .interp import OpaqueV
        b = args[0]
        if not isinstance(b, OpaqueV) or not b.note.startswith('bytes:'):
            raise Unsupported('hashlib on non-bytes')
        enc = b.note[6:]
        o = OpaqueV(b.expr, f'hash:{alg}:{enc}')

        def hexdigest(interp_, path_, a, k):
            g = uf(interp_, f'hashlib.{alg}.hexdigest.of.{enc}', z3.StringSort(), z3.StringSort())
            r = g(b.expr)
            hexre = z3.Star(z3.Union(z3.Range(z3.StringVal('0'), z3.StringVal('9')),
                                     z3.Range(z3.StringVal('a'), z3.StringVal('f'))))
            path_.define(z3.InRe(r, hexre))
            return mkstr([r])
        o.handlers = {'hexdigest': hexdigest}
        return o
    return f


# ---- regular expressions (the small subset the code uses) ----------------------------------------

class _CompiledRe(Atomic):
    def __init__(self, pattern):
        self.pattern = pattern


def _re_fn(name):
    def f(interp, path, args, kw):
        if name == 'compile':
            if not isinstance(args[0], str):
                raise Unsupported('symbolic regex')
            from .interp import OpaqueV
            o = OpaqueV(None, 're.Pattern')
            pat = args[0]
            o.handlers = {k: (lambda kk: (lambda i, p, a, kw_: _re_apply(i, p, kk, pat, a[0])))(k)
                          for k in ('fullmatch', 'match', 'search')}
            return o
        pat, s = args[0], args[1]
        if len(args) > 2 or kw:
            raise Unsupported('regex flags')
        if not isinstance(pat, str):
            raise Unsupported('symbolic regex')
        return _re_apply(interp, path, name, pat, s)
    return f


def _re_apply(interp, path, mode, pat, s):
    """Returns a truthiness value (match object or None): python bool or z3 Bool."""
    if not isinstance(s, (str, StrT)):
        interp.raise_builtin('TypeError', 'expected string or bytes-like object')
    if isinstance(s, str):
        return getattr(pyre, mode)(pat, s) is not None
    z = to_zstr(s)
    core, anchored_start, dollar_end = _parse_regex(pat)
    full = z3.Full(z3.ReSort(z3.StringSort()))
    r = core
    is_ident_re = core.sexpr() == ops.ident_regex().sexpr()

    def in_core(zz):
        if is_ident_re:
            return ops.is_ident(zz, path)
        ops.REGEX_USED[0] = True
        return z3.InRe(zz, r)
    if mode == 'fullmatch':
        # '$' before a final newline cannot help a full match: nothing is left to consume the newline
        return in_core(z)
    ops.REGEX_USED[0] = True
    if mode == 'match':
        if dollar_end:
            return z3.Or(in_core(z), z3.InRe(z, z3.Concat(r, z3.Re(z3.StringVal('\n')))))
        return z3.InRe(z, z3.Concat(r, full))
    if mode == 'search':
        pre = full if not anchored_start else z3.Re(z3.StringVal(''))
        if dollar_end:
            return z3.Or(z3.InRe(z, z3.Concat(pre, r)), z3.InRe(z, z3.Concat(pre, r, z3.Re(z3.StringVal('\n')))))
        return z3.InRe(z, z3.Concat(pre, r, full))
    raise Unsupported(mode)


def _parse_regex(pat):
    """Tiny regex subset: ^ $ literals, [classes with ranges], * + ?  (no groups / alternation)."""
    i = 0
    anchored = False
    dollar = False
    if pat.startswith('^'):
        anchored = True
        i = 1
    items = []
    while i < len(pat):
        c = pat[i]
        if c == '$' and i == len(pat) - 1:
            dollar = True
            i += 1
            continue
        if c == '[':
            j = pat.index(']', i + 1)
            body = pat[i + 1:j]
            neg = body.startswith('^')
            if neg:
                raise Unsupported('negated character class')
            alts = []
            k = 0
            while k < len(body):
                if k + 2 < len(body) and body[k + 1] == '-':
                    alts.append(z3.Range(z3.StringVal(body[k]), z3.StringVal(body[k + 2])))
                    k += 3
                else:
                    if body[k] == '\\':
                        raise Unsupported('escape in character class')
                    alts.append(z3.Re(z3.StringVal(body[k])))
                    k += 1
            atom = z3.Union(*alts) if len(alts) > 1 else alts[0]
            i = j + 1
        elif c in '()|\\.{}':
            raise Unsupported(f'regex feature {c!r}')
        else:
            atom = z3.Re(z3.StringVal(c))
            i += 1
        if i < len(pat) and pat[i] in '*+?':
            q = pat[i]
            atom = z3.Star(atom) if q == '*' else (z3.Plus(atom) if q == '+' else z3.Option(atom))
            i += 1
        items.append(atom)
    if not items:
        core = z3.Re(z3.StringVal(''))
    else:
        core = z3.Concat(*items) if len(items) > 1 else items[0]
    return core, anchored, dollar
