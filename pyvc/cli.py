"""Command line: run the contracts of one property against the current working tree of /repo."""
from __future__ import annotations

import argparse
import importlib
import json
import os
import subprocess
import sys
import time
import traceback

VERIF = os.path.dirname(os.path.dirname(os.path.abspath(__file__)))
REPO = os.environ.get('DZNPY_TREE', '/repo')
sys.path.insert(0, VERIF)
sys.setrecursionlimit(20000)

from pyvc.harness import Ctx, PROVED, REFUTED, UNDECIDED, ERROR   # noqa: E402
from pyvc.interp import Interp                                     # noqa: E402
from pyvc.path import STATS                                        # noqa: E402
from pyvc.values import Unsupported, FrameViolation                                # noqa: E402

ASSUMED_SEMANTICS = [
    'types as preconditions: parameters have the types their annotations / dataclass fields state',
    'no monkey-patching, __getattr__, setattr, globals(), exec/eval in /repo/src/dznpy (syntactic scan on every run)',
    'int is mathematical; memory and recursion depth are unbounded',
    'set iteration order / list(set) / set.pop depend on an unconstrained oracle; dict preserves insertion order',
    'stdlib models of pyvc/builtins_.py (str methods, splitlines break set, strip whitespace set, re subset, '
    'os.path, hashlib as opaque pure functions)',
]


def load_known():
    p = os.path.join(VERIF, 'known_findings.json')
    if not os.path.exists(p):
        return []
    return json.load(open(p)).get('findings', [])


def scan_forbidden(src_root):
    """assumption 3 of DESIGN 2.3: fail closed if dynamic features appear in the sources"""
    import ast
    bad = []
    for dp, dn, fn in os.walk(os.path.join(src_root, 'dznpy')):
        for f in fn:
            if not f.endswith('.py'):
                continue
            path = os.path.join(dp, f)
            try:
                tree = ast.parse(open(path, 'rb').read())
            except SyntaxError as e:
                bad.append(f'{path}: syntax error {e}')
                continue
            for n in ast.walk(tree):
                if isinstance(n, ast.Call) and isinstance(n.func, ast.Name) and \
                        n.func.id in ('exec', 'eval', 'setattr', 'globals', 'locals', '__import__', 'vars'):
                    bad.append(f'{path}:{n.lineno}: {n.func.id}()')
                if isinstance(n, ast.FunctionDef) and n.name in ('__getattr__', '__getattribute__', '__setattr__'):
                    bad.append(f'{path}:{n.lineno}: def {n.name}')
    return bad


def main():
    import faulthandler, signal
    faulthandler.register(signal.SIGUSR1, all_threads=False)
    ap = argparse.ArgumentParser()
    ap.add_argument('prop')
    ap.add_argument('--tier', default=os.environ.get('VERIF_TIER', 'quick'))
    ap.add_argument('--replay', default=None)
    ap.add_argument('--verbose', action='store_true')
    a = ap.parse_args()
    tier = a.tier if a.tier in ('quick', 'thorough') else 'quick'
    seed = int(os.environ.get('VERIF_SEED', '0') or 0)
    prop = a.prop
    src_root = os.path.join(REPO, 'src')

    if a.replay:
        from pyvc import replay
        sys.exit(replay.run_replay_file(a.replay, REPO))

    t0 = time.time()
    mod = importlib.import_module(f'props.{prop}')
    interp = Interp(src_root, extra_roots=[VERIF])
    ctx = Ctx(prop, interp, tier, seed)
    status = 'ok'
    message = ''
    import signal as _signal
    limit = int(os.environ.get('PYVC_WALL_LIMIT_S', '780' if tier == 'quick' else '5400'))

    phase = {'name': 'generation'}

    def _on_alarm(signum, frame):
        if phase['name'] == 'generation':
            _signal.alarm(20)   # keep interrupting: the parts of a check that still follow are cut short as well
        raise Unsupported(f'wall-clock limit of {limit} s for the {tier} tier reached during {phase["name"]} (obligation '
                          f'generation or discharge did not finish)')
    _signal.signal(_signal.SIGALRM, _on_alarm)
    _signal.alarm(limit)
    t_run = None
    try:
        bad = scan_forbidden(src_root)
        if bad:
            raise Unsupported('dynamic feature outside the assumed Python semantics: ' + '; '.join(bad[:5]))
        mod.run(ctx)
    except FrameViolation as e:
        status, message = 'undecided', f'frame: {e} (outside a contract that could attribute it)'
    except Unsupported as e:
        status, message = 'undecided', f'unsupported construct / drift: {e}'
        if a.verbose:
            traceback.print_exc()
    except Exception as e:   # checker crash: never a verdict about the code
        status, message = 'crash', f'{type(e).__name__}: {e}'
        traceback.print_exc()
    # the obligations generated so far are discharged in any case: an undecided run can still exhibit a violation
    _signal.alarm(0)
    phase['name'] = 'discharge'
    if status != 'crash':
        t_run = time.time() - t0
        _signal.alarm(max(180, limit - int(t_run)) if status == 'ok' else 240)
        try:
            ctx.discharge_all()
            ctx.notes.append(f'phases: generation {t_run:.1f}s, discharge {time.time() - t0 - t_run:.1f}s')
        except Unsupported as e:
            if status == 'ok':
                status, message = 'undecided', f'unsupported construct / drift: {e}'
        except Exception as e:   # noqa
            status, message = 'crash', f'{type(e).__name__}: {e}'
            traceback.print_exc()
    _signal.alarm(0)
    wall = time.time() - t0

    from pyvc import report
    rc = report.finish(ctx, mod, status, message, wall, REPO, VERIF, load_known(), verbose=a.verbose)
    sys.exit(rc)


if __name__ == '__main__':
    main()
