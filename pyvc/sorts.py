"""Mapping of repository dataclasses / enums / annotations to z3 sorts (generated on every run)."""
from __future__ import annotations

import ast as pyast
import z3

from .values import ClassV, BuiltinClass, Unsupported, EnumV


class TypeDesc:
    """kind in: str int bool float none list set dict opt cls enum any union tuple"""

    def __init__(self, kind, *args):
        self.kind, self.args = kind, args

    def __repr__(self):
        return f'T({self.kind}{"," if self.args else ""}{",".join(map(repr, self.args))})'


ANY = TypeDesc('any')


class SortReg:
    def __init__(self, interp):
        self.interp = interp
        self.cls_sort = {}     # ClassV -> z3 sort
        self.enum_sort = {}    # ClassV -> (sort, {name: const})
        self.opt_sort = {}     # key -> (sort, none, some, val)
        self.field_types = {}  # ClassV -> [(fname, TypeDesc)]
        self.opaque = {}
        self.rec_sort = {}
        self.opaque_classes = set()   # qualnames of dataclasses deliberately kept abstract (an uninterpreted sort)

    # ---- annotations -------------------------------------------------------------------------
    def typedesc(self, node, module, self_cls=None) -> TypeDesc:
        """Interpret an annotation AST node in the scope of `module`."""
        if node is None:
            return ANY
        if isinstance(node, pyast.Constant):
            if node.value is None:
                return TypeDesc('none')
            if isinstance(node.value, str):
                return self.typedesc(pyast.parse(node.value, mode='eval').body, module, self_cls)
            return ANY
        if isinstance(node, pyast.Name):
            n = node.id
            if n in ('str', 'int', 'bool', 'float'):
                return TypeDesc(n)
            if n == 'Any':
                return ANY
            if n == 'Self' and self_cls is not None:
                return TypeDesc('cls', self_cls)
            if n in ('list', 'List'):
                return TypeDesc('list', ANY)
            if n in ('dict', 'Dict'):
                return TypeDesc('dict', ANY, ANY)
            if n in ('set', 'Set'):
                return TypeDesc('set', ANY)
            v = module.globals.get(n)
            return self._from_value(v)
        if isinstance(node, pyast.Attribute):
            try:
                v = self.interp.eval_static(node, module)
            except Exception:
                return ANY
            return self._from_value(v)
        if isinstance(node, pyast.Subscript):
            head = node.value.id if isinstance(node.value, pyast.Name) else (
                node.value.attr if isinstance(node.value, pyast.Attribute) else None)
            sl = node.slice
            args = list(sl.elts) if isinstance(sl, pyast.Tuple) else [sl]
            if head in ('List', 'list'):
                return TypeDesc('list', self.typedesc(args[0], module, self_cls))
            if head in ('Set', 'set'):
                return TypeDesc('set', self.typedesc(args[0], module, self_cls))
            if head in ('Dict', 'dict'):
                return TypeDesc('dict', self.typedesc(args[0], module, self_cls),
                                self.typedesc(args[1], module, self_cls))
            if head == 'Optional':
                return TypeDesc('opt', self.typedesc(args[0], module, self_cls))
            if head == 'Tuple':
                return TypeDesc('tuple', *[self.typedesc(a, module, self_cls) for a in args])
            if head == 'Union':
                return TypeDesc('union', *[self.typedesc(a, module, self_cls) for a in args])
            return ANY
        if isinstance(node, pyast.BoolOp) and isinstance(node.op, pyast.Or):
            # `A or B` used as a poor man's union in annotations (PortSelect.value, scope: Struct or Class)
            return TypeDesc('union', *[self.typedesc(v, module, self_cls) for v in node.values])
        return ANY

    def _from_value(self, v):
        if isinstance(v, ClassV):
            return TypeDesc('enum', v) if v.is_enum else TypeDesc('cls', v)
        if isinstance(v, BuiltinClass) and v.name in ('str', 'int', 'bool', 'float'):
            return TypeDesc(v.name)
        return ANY

    def fields_of(self, cls: ClassV):
        if cls not in self.field_types:
            res = []
            for c in reversed([c for c in cls.mro() if isinstance(c, ClassV)]):
                for (fname, ann, _dflt) in c.fields:
                    res = [(n, t) for (n, t) in res if n != fname]
                    res.append((fname, self.typedesc(ann, c.module, cls)))
            self.field_types[cls] = res
        return self.field_types[cls]

    # ---- sorts -----------------------------------------------------------------------------------
    def sort_of(self, td: TypeDesc):
        k = td.kind
        if k == 'str':
            return z3.StringSort()
        if k == 'int':
            return z3.IntSort()
        if k == 'bool':
            return z3.BoolSort()
        if k == 'list':
            return z3.SeqSort(self.sort_of(td.args[0]))
        if k == 'set' and td.args[0].kind == 'str':
            return z3.SetSort(z3.StringSort())
        if k == 'enum':
            return self.sort_of_enum(td.args[0])[0]
        if k == 'cls':
            return self.sort_of_class(td.args[0])
        if k == 'opt':
            return self.sort_of_opt(td.args[0])[0]
        if k == 'rec':
            return self.sort_of_rec(td.args[0])
        if k == 'junion':
            return td.args[0].sort
        return self.opaque_sort('Any')

    def opaque_sort(self, name):
        if name not in self.opaque:
            self.opaque[name] = z3.DeclareSort('U_' + name)
        return self.opaque[name]

    def sort_of_enum(self, cls: ClassV):
        if cls not in self.enum_sort:
            names = list(cls.members)
            if not names:
                raise Unsupported(f'enum {cls.name} without members')
            s, consts = z3.EnumSort(f'E_{cls.name}', names)
            self.enum_sort[cls] = (s, dict(zip(names, consts)))
        return self.enum_sort[cls]

    def enum_const(self, ev: EnumV):
        return self.sort_of_enum(ev.cls)[1][ev.name]

    def sort_of_opt(self, inner: TypeDesc):
        s = self.sort_of(inner)
        key = str(s)
        if key not in self.opt_sort:
            d = z3.Datatype(f'Opt_{key}')
            d.declare('none')
            d.declare('some', ('val', s))
            d = d.create()
            self.opt_sort[key] = (d, d.none, d.some, d.val)
        return self.opt_sort[key]

    def sort_of_rec(self, schema):
        if schema.sort is not None:
            return schema.sort
        if schema not in self.rec_sort:
            d = z3.Datatype('J_' + schema.name)
            flds = []
            for (key, td) in schema.fields:
                t = TypeDesc('opt', td) if key in schema.optional else td
                flds.append((f'J_{schema.name}.{key}', self.sort_of(t)))
            d.declare('mk_J_' + schema.name, *flds)
            self.rec_sort[schema] = d.create()
        return self.rec_sort[schema]

    def rec_accessor(self, schema, key):
        if schema.acc is not None:
            return schema.acc[key]
        s = self.sort_of_rec(schema)
        return s.accessor(0, [k for (k, _) in schema.fields].index(key))

    def sort_of_class(self, cls: ClassV):
        if cls in self.cls_sort:
            return self.cls_sort[cls]
        if not cls.is_dataclass or cls.qualname in self.opaque_classes:
            s = self.opaque_sort(cls.name)
            self.cls_sort[cls] = s
            return s
        fields = self.fields_of(cls)
        # self-recursive class (NamespaceTree): parent: Optional[Self], scope_name: Optional[X]
        rec = [n for (n, t) in fields if t.kind == 'opt' and t.args[0].kind == 'cls' and t.args[0].args[0] is cls]
        if rec:
            if len(fields) != 2 or fields[0][0] != rec[0] or fields[1][1].kind != 'opt':
                raise Unsupported(f'drift: unexpected shape of recursive dataclass {cls.name}')
            other = self.sort_of(fields[1][1].args[0])
            d = z3.Datatype(cls.name)
            d.declare(f'{cls.name}_root')
            d.declare(f'{cls.name}_node', (fields[0][0], d), (fields[1][0], other))
            s = d.create()
            self.cls_sort[cls] = s
            return s
        d = z3.Datatype(cls.name)
        d.declare(f'mk_{cls.name}', *[(f'{cls.name}.{n}', self.sort_of(t)) for (n, t) in fields])
        s = d.create()
        self.cls_sort[cls] = s
        return s

    def is_recursive(self, cls):
        fields = self.fields_of(cls)
        return any(t.kind == 'opt' and t.args[0].kind == 'cls' and t.args[0].args[0] is cls for (n, t) in fields)

    def accessor(self, cls: ClassV, fname: str):
        s = self.sort_of_class(cls)
        fields = self.fields_of(cls)
        names = [n for (n, _) in fields]
        i = names.index(fname)
        if self.is_recursive(cls):
            return s.accessor(1, i)
        return s.accessor(0, i)

    def constructor(self, cls: ClassV):
        s = self.sort_of_class(cls)
        return s.constructor(1 if self.is_recursive(cls) else 0)
