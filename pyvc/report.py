"""Evidence files, VIOLATION / KNOWN-FINDING lines, exit codes (DESIGN 2.8, 2.12)."""
from __future__ import annotations

import json
import os
import subprocess

from .harness import PROVED, REFUTED, UNDECIDED, ERROR
from .path import STATS


def finish(ctx, mod, status, message, wall, repo, verif, known, verbose=False):
    prop = ctx.prop
    counts = ctx.counts()
    refuted = [o for o in ctx.obligations if o.status == REFUTED]
    undecided = [o for o in ctx.obligations if o.status == UNDECIDED]
    errors = [o for o in ctx.obligations if o.status == ERROR]
    os.makedirs(os.path.join(verif, 'evidence'), exist_ok=True)
    os.makedirs(os.path.join(verif, 'replays'), exist_ok=True)

    violations = []
    known_hits = []
    open_known = [k for k in known if k.get('property') == prop and k.get('status') == 'open']
    # undecided obligations: a bounded native search may still refute them with a real failing input
    searched = {}
    if hasattr(mod, 'native_search'):
        for o in list(undecided):
            if getattr(o, 'structural', False) and hasattr(mod, 'make_replay'):
                rep = mod.make_replay(ctx, o)
                if rep:
                    okr, outr = run_native(rep, repo, verif)
                    if okr:
                        o.status, o.backend = REFUTED, 'native-replay'
                        o.detail = 'structural mismatch of the generated text; reproduced natively with default names'
                        undecided.remove(o)
                        refuted.append(o)
                        continue
            found = _native_search(ctx, mod, o, repo, verif)
            searched[o.id] = found
            if found and found[0]:
                o.status, o.backend = REFUTED, 'native-search'
                o.detail = (o.detail or '') + ' | refuted by bounded native search on the real code'
                o.replay = found[1]
                undecided.remove(o)
                refuted.append(o)
    # the run itself ended undecided (unsupported construct / drift): the bounded native corpus may still exhibit
    # a real failing input, which is then reported as a violation of a synthetic obligation
    if status == 'undecided' and hasattr(mod, 'native_search'):
        class _O:
            pass
        o = ctx.new('engine:undecided-run:native-corpus', 'bounded', '', f'run undecided ({message[:120]}); bounded '
                                                                         f'native corpus')
        found = _native_search(ctx, mod, o, repo, verif)
        if found and found[0]:
            ctx.settle(o, REFUTED, 'native-search', 'failing input found by the bounded native corpus')
            o.replay = found[1]
            o._script = found[2]
            refuted.append(o)
            searched[o.id] = found
        else:
            ctx.obligations.remove(o)
    for o in refuted:
        # replay the counter-model on the real code
        rep = None
        if hasattr(mod, 'make_replay'):
            try:
                rep = mod.make_replay(ctx, o)
            except Exception as e:  # noqa
                rep = {'error': f'{type(e).__name__}: {e}'}
        rpath = os.path.join(verif, 'replays', _fname(o.id) + '.json')
        doc = {'property': prop, 'obligation': o.id, 'kind': o.kind, 'function': o.function, 'text': o.text,
               'solver': o.backend, 'solver_output': o.detail, 'model': o.model, 'sources': ctx.interp.files_read,
               'replay': rep,
               'rerun': f'./check {prop} --replay replays/{_fname(o.id)}.json'}
        reproduced = None
        if rep and 'script' in rep:
            reproduced, out = run_native(rep, repo, verif)
            doc['native_outcome'] = out
            doc['reproduced'] = reproduced
        if not reproduced and hasattr(mod, 'native_search'):
            found = searched.get(o.id) or _native_search(ctx, mod, o, repo, verif)
            if found and found[0]:
                reproduced = True
                doc['replay'] = {'script': found[2], 'input': found[1]}
                doc['native_outcome'] = found[3]
                doc['reproduced'] = True
                doc['failing_input_found_by'] = 'bounded native search over the replay corpus (the solver model ' \
                                                'did not concretise / did not reproduce)'
        json.dump(doc, open(rpath, 'w'), indent=1, default=str)
        hit = None
        for k in open_known:
            if k.get('obligation') and k['obligation'] in o.id and _shape_matches(k, doc):
                hit = k
        if hit is not None:
            known_hits.append((hit, o))
            continue
        violations.append((o, rpath, reproduced))

    checker_cmd = f'./check {prop} --tier {ctx.tier}'
    samples = []
    for o in ctx.obligations[:3] + refuted[:3] + undecided[:2]:
        d = o.as_dict()
        if d not in samples:
            samples.append(d)
    discharged = counts.get(PROVED, 0)
    cov = {
        'obligations': len(ctx.obligations),
        'discharged': discharged,
        'refuted': len(refuted),
        'undecided': len(undecided) + (1 if status == 'undecided' else 0),
        'errors': len(errors),
        'checker_cmd': checker_cmd,
        'trusted_base': sorted(set(ctx.trusted)),
        'backends': ctx.backends,
        'solver_seconds': {k: round(v, 3) for k, v in ctx.backend_s.items()},
        'solver_calls_total': STATS['solver_calls'],
        'functions_under_contract': ctx.functions,
        'sources_sha256': ctx.interp.files_read,
        'samples': samples,
        'bounded': getattr(ctx, 'bounded', []),
        'notes': ctx.notes + ([f'cvc5 cross-check of z3 unsat verdicts ({"all" if ctx.tier == "thorough" else "10 % sample"}): '
                               f'{ctx.xcheck.get("unsat", 0)} confirmed unsat, {ctx.xcheck.get("unknown", 0)} not decided by '
                               f'cvc5 within 4 s, {ctx.xcheck.get("sat", 0)} disagreements'] if ctx.xcheck else []),
        'status': status,
        'message': message,
        'explanation': 'contract-based deductive verification: verification conditions generated by symbolic '
                       'execution of the ast of /repo/src on this run, discharged by z3 (cvc5 / z3 4.8.12 as second '
                       'opinion); see DESIGN.md.  ' + getattr(ctx, 'level_explanation', ''),
    }
    from .cli import ASSUMED_SEMANTICS
    ev = {'property_id': prop, 'tier': ctx.tier, 'seed': ctx.seed, 'level': getattr(ctx, 'level', 'proof'), 'coverage': cov,
          'assumptions': ASSUMED_SEMANTICS + ctx.assumptions, 'wall_s': round(wall, 2),
          'violations': len(violations)}
    evdir = os.environ.get('PYVC_EVIDENCE_DIR') or os.path.join(verif, 'evidence')   # development runs on scratch trees
    os.makedirs(evdir, exist_ok=True)
    json.dump(ev, open(os.path.join(evdir, f'{prop}.json'), 'w'), indent=1, default=str)

    for (k, o) in known_hits:
        print(f'KNOWN-FINDING: property={prop} {k.get("what", o.id)}')
    print(f'[{prop}] tier={ctx.tier} obligations={len(ctx.obligations)} proved={discharged} '
          f'refuted={len(refuted)} undecided={len(undecided)} errors={len(errors)} '
          f'solver_calls={STATS["solver_calls"]} wall={wall:.1f}s status={status}'
          + (f' both_unsat={STATS["both_unsat"]}' if STATS.get('both_unsat') else ''))
    if message:
        print(f'[{prop}] {message}')
    if os.environ.get('PYVC_PROF'):
        from .path import PROF
        for k, (n, t) in sorted(PROF.items(), key=lambda kv: -kv[1][1])[:15]:
            print(f'   PROF {t:7.1f}s {n:5d} calls  {k}')
    if os.environ.get('PYVC_TIMES'):
        for o in sorted(ctx.obligations, key=lambda x: -x.seconds)[:12]:
            print(f'   {o.seconds:7.2f}s {o.status} {o.backend} {o.id}')
    if verbose:
        for o in ctx.obligations:
            if o.status != PROVED:
                print('  ', o.status, o.id, '|', o.text, '|', (o.detail or '')[:200])
    if status == 'crash' or errors:
        for o in errors:
            print(f'[{prop}] SELF-TEST/ERROR {o.id}: {o.detail}')
        return 3
    if violations:
        for (o, rpath, reproduced) in violations:
            tail = '' if reproduced else ' no-failing-input-found'
            print(f'[{prop}] failed obligation {o.id}: {o.text}')
            print(f'VIOLATION property={prop} replay={os.path.relpath(rpath, verif)}{tail}')
        return 1
    if status == 'undecided' or undecided:
        for o in undecided[:10]:
            print(f'[{prop}] UNDECIDED {o.id}: {o.detail[:200]}')
        return 2
    if len(ctx.obligations) == 0:
        print(f'[{prop}] zero obligations generated')
        return 3
    return 0


def _native_search(ctx, mod, o, repo, verif):
    try:
        srch = mod.native_search(ctx, o)
    except Exception as e:  # noqa
        return None
    if not srch:
        return None
    last = None
    for one in (srch if isinstance(srch, list) else [srch]):      # several corpora: the first failing input wins
        ok, out = run_native(one, repo, verif)
        if ok:
            for line in out.splitlines():
                if line.startswith('FAILING-INPUT: '):
                    return (True, json.loads(line[len('FAILING-INPUT: '):]), one['script'], out)
        last = (False, None, one['script'], out)
    return last


def _fname(s):
    return ''.join(c if c.isalnum() or c in '-_.' else '_' for c in s)[:180]


def _shape_matches(k, doc):
    shape = k.get('witness_shape')
    if not shape:
        return True
    return shape in json.dumps(doc.get('replay') or {}, default=str)


def run_native(rep, repo, verif):
    """Run the concretised counterexample against the real code; returns (reproduced, text)."""
    script = os.path.join(verif, rep['script'])
    env = dict(os.environ, PYTHONPATH=os.path.join(repo, 'src') + os.pathsep + verif, DZNPY_TREE=repo,
               PYTHONDONTWRITEBYTECODE='1')
    try:
        p = subprocess.run(['/venv/bin/python', script, '-'], input=json.dumps(rep.get('input'), default=str),
                           capture_output=True, text=True, timeout=300, env=env, cwd=verif)
    except Exception as e:
        return None, f'replay failed to run: {e}'
    out = (p.stdout + p.stderr)[-3000:]
    if p.returncode == 1:
        return True, out
    if p.returncode == 0:
        return False, out
    return None, out
