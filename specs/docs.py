"""Abstract Dezyne documents for the parser properties (C05 C15 C16): pure Python, shared by the symbolic harness
and the native replay.

A document is described by a list of nodes (nested through namespaces).  `to_json` renders the JSON AST of the
description; `expected` lists what the parsed FileContents must hold: one entry per declaration, in source order,
with its fully qualified name and all details.  The parser has to invert `to_json`.

Leaves are given by a naming function N(key) -> value, so that the same description is instantiated with symbolic
strings (proofs) or concrete ones (replay)."""


def scope_name(ids):
    return {'<class>': 'scope_name', 'ids': list(ids)}


def node_json(n, N):
    k = n['kind']
    if k == 'namespace':
        return {'<class>': 'namespace', 'name': scope_name([N(x) for x in n['name']]),
                'elements': [node_json(c, N) for c in n['elements']]}
    if k in ('import', 'file-name'):
        return {'<class>': k, 'name': N(n['name'])}
    if k == 'unknown':
        return {'<class>': N(n['cls']), 'name': scope_name([N(n['name'])]), 'whatever': [1, 2]}
    if k == 'raw':
        return n['value']
    name = scope_name([N(n['name'])])
    if k == 'extern':
        return {'<class>': 'extern', 'name': name, 'value': {'<class>': 'data', 'value': N(n['value'])}}
    if k == 'enum':
        return {'<class>': 'enum', 'name': name, 'fields': {'<class>': 'fields', 'elements': [N(f) for f in n['fields']]}}
    if k == 'subint':
        return {'<class>': 'subint', 'name': name, 'range': {'<class>': 'range', 'from': N(n['from']), 'to': N(n['to'])}}
    if k == 'interface':
        return {'<class>': 'interface', 'name': name,
                'types': {'<class>': 'types', 'elements': [node_json(t, N) for t in n.get('types', [])]},
                'events': {'<class>': 'events', 'elements': [event_json(e, N) for e in n.get('events', [])]}}
    ports = {'<class>': 'ports', 'elements': [port_json(p, N) for p in n.get('ports', [])]}
    if k in ('component', 'foreign'):
        return {'<class>': k, 'name': name, 'ports': ports}
    if k == 'system':
        return {'<class>': 'system', 'name': name, 'ports': ports,
                'instances': {'<class>': 'instances', 'elements': [
                    {'<class>': 'instance', 'name': N(i['name']), 'type_name': scope_name([N(x) for x in i['type']])}
                    for i in n.get('instances', [])]},
                'bindings': {'<class>': 'bindings', 'elements': [
                    {'<class>': 'binding', 'left': endpoint_json(b['left'], N), 'right': endpoint_json(b['right'], N)}
                    for b in n.get('bindings', [])]}}
    raise ValueError(k)


def endpoint_json(e, N):
    d = {'<class>': 'end-point', 'port_name': N(e['port'])}
    if e.get('instance') is not None:
        d['instance_name'] = N(e['instance'])
    return d


def port_json(p, N):
    d = {'<class>': 'port', 'name': N(p['name']), 'type_name': scope_name([N(x) for x in p['type']]),
         'direction': p['dir'], 'formals': {'<class>': 'formals', 'elements': []}}
    if p.get('injected'):
        d['injected?'] = 'injected'
    return d


def event_json(e, N):
    return {'<class>': 'event', 'name': N(e['name']), 'direction': e['dir'],
            'signature': {'<class>': 'signature', 'type_name': scope_name([x if x == 'void' else N(x) for x in e['ret']]),
                          'formals': {'<class>': 'formals', 'elements': [
                              {'<class>': 'formal', 'name': N(f['name']),
                               'type_name': scope_name([N(x) for x in f['type']]), 'direction': f['dir']}
                              for f in e.get('formals', [])]}}}


def to_json(nodes, N):
    return {'<class>': 'root', 'elements': [node_json(n, N) for n in nodes], 'working-directory': N('wd')}


KINDS = ('components', 'enums', 'externs', 'filenames', 'foreigns', 'imports', 'interfaces', 'subints', 'systems')


def expected(nodes, N, ns=(), out=None):
    """what FileContents must hold: {container: [description, ...]} in source order"""
    out = {k: [] for k in KINDS} if out is None else out
    for n in nodes:
        k = n['kind']
        if k == 'namespace':
            expected(n['elements'], N, tuple(ns) + tuple(N(x) for x in n['name']), out)
        elif k == 'import':
            out['imports'].append(('Import', N(n['name'])))
        elif k == 'file-name':
            out['filenames'].append(('Filename', N(n['name'])))
        elif k in ('unknown', 'raw'):
            continue
        else:
            fqn = tuple(ns) + (N(n['name']),)
            if k == 'extern':
                out['externs'].append(('Extern', fqn, N(n['value'])))
            elif k == 'enum':
                out['enums'].append(('Enum', fqn, tuple(N(f) for f in n['fields'])))
            elif k == 'subint':
                out['subints'].append(('SubInt', fqn, N(n['from']), N(n['to'])))
            elif k == 'interface':
                evs = tuple((N(e['name']), e['dir'], tuple(x if x == 'void' else N(x) for x in e['ret']),
                             tuple((N(f['name']), tuple(N(x) for x in f['type']), f['dir']) for f in e.get('formals', [])))
                            for e in n.get('events', []))
                out['interfaces'].append(('Interface', fqn, evs))
                # types nested in an interface are declarations of their own, named under the interface
                for t in n.get('types', []):
                    tf = fqn + (N(t['name']),)
                    if t['kind'] == 'enum':
                        out['enums'].append(('Enum', tf, tuple(N(f) for f in t['fields'])))
                    elif t['kind'] == 'subint':
                        out['subints'].append(('SubInt', tf, N(t['from']), N(t['to'])))
            else:
                ports = tuple((N(p['name']), tuple(N(x) for x in p['type']), p['dir'], bool(p.get('injected')))
                              for p in n.get('ports', []))
                if k == 'component':
                    out['components'].append(('Component', fqn, ports))
                elif k == 'foreign':
                    out['foreigns'].append(('Foreign', fqn, ports))
                else:
                    inst = tuple((N(i['name']), tuple(N(x) for x in i['type'])) for i in n.get('instances', []))
                    binds = tuple(((N(b['left']['port']), None if b['left'].get('instance') is None else
                                    N(b['left']['instance'])),
                                   (N(b['right']['port']), None if b['right'].get('instance') is None else
                                    N(b['right']['instance']))) for b in n.get('bindings', []))
                    out['systems'].append(('System', fqn, ports, inst, binds))
    return out


def documents():
    """the structure corpus of documents (name keys are symbolic leaves)"""
    P = lambda name, typ, d='provides', inj=False: {'name': name, 'type': typ, 'dir': d, 'injected': inj}
    EV = lambda name, d='in', ret=('void',), formals=(): {'name': name, 'dir': d, 'ret': list(ret), 'formals': list(formals)}
    F = lambda name, typ, d='in': {'name': name, 'type': typ, 'dir': d}
    docs = {}
    docs['empty'] = []
    docs['flat-all-kinds'] = [
        {'kind': 'import', 'name': 'imp'}, {'kind': 'file-name', 'name': 'fn'},
        {'kind': 'extern', 'name': 'X', 'value': 'xval'}, {'kind': 'enum', 'name': 'E', 'fields': ['f0', 'f1']},
        {'kind': 'subint', 'name': 'S', 'from': 'lo', 'to': 'hi'},
        {'kind': 'interface', 'name': 'I', 'events': [EV('e0'), EV('e1', 'out', formals=[F('a', ['X'])]),
                                                       EV('e2', 'in', ret=['E'], formals=[F('b', ['X'], 'out'),
                                                                                          F('c', ['X'], 'inout')])]},
        {'kind': 'component', 'name': 'C', 'ports': [P('p', ['I']), P('r', ['I'], 'requires'),
                                                     P('j', ['I'], 'requires', True)]},
        {'kind': 'foreign', 'name': 'Fo', 'ports': [P('fp', ['I'])]},
        {'kind': 'system', 'name': 'Sy', 'ports': [P('sp', ['I'])],
         'instances': [{'name': 'i0', 'type': ['C']}, {'name': 'i1', 'type': ['ns', 'C']}],
         'bindings': [{'left': {'port': 'sp'}, 'right': {'port': 'p', 'instance': 'i0'}},
                      {'left': {'port': 'r', 'instance': 'i0'}, 'right': {'port': 'p', 'instance': 'i1'}}]},
    ]
    docs['nested-namespaces'] = [
        {'kind': 'namespace', 'name': ['A'], 'elements': [
            {'kind': 'extern', 'name': 'X', 'value': 'v1'},
            {'kind': 'namespace', 'name': ['B', 'Cc'], 'elements': [
                {'kind': 'interface', 'name': 'I', 'events': [EV('e')],
                 'types': [{'kind': 'enum', 'name': 'R', 'fields': ['ok']},
                           {'kind': 'subint', 'name': 'N', 'from': 'lo', 'to': 'hi'}]},
                {'kind': 'component', 'name': 'C', 'ports': [P('p', ['I'])]}]},
            {'kind': 'enum', 'name': 'E2', 'fields': []}]},
        {'kind': 'namespace', 'name': ['A'], 'elements': [            # re-opened namespace: not merged, not reordered
            {'kind': 'namespace', 'name': ['B', 'Cc'], 'elements': [{'kind': 'extern', 'name': 'Y', 'value': 'v2'}]}]},
        {'kind': 'namespace', 'name': ['Z'], 'elements': [
            {'kind': 'namespace', 'name': ['B', 'Cc'], 'elements': [{'kind': 'extern', 'name': 'X', 'value': 'v3'}]}]},
        {'kind': 'system', 'name': 'Top', 'ports': []},
    ]
    docs['unknown-and-junk'] = [
        {'kind': 'extern', 'name': 'X', 'value': 'v'}, {'kind': 'unknown', 'cls': 'ucls', 'name': 'U'},
        {'kind': 'raw', 'value': 7}, {'kind': 'raw', 'value': 'text'}, {'kind': 'raw', 'value': None},
        {'kind': 'raw', 'value': [1, 2]},
        {'kind': 'namespace', 'name': ['N'], 'elements': [{'kind': 'unknown', 'cls': 'ucls', 'name': 'U2'},
                                                          {'kind': 'enum', 'name': 'E', 'fields': ['a']},
                                                          {'kind': 'raw', 'value': True}]},
        {'kind': 'component', 'name': 'C', 'ports': []},
    ]
    docs['same-names-in-different-scopes'] = [
        {'kind': 'namespace', 'name': ['T'], 'elements': [{'kind': 'component', 'name': 'T', 'ports': []}]},
        {'kind': 'interface', 'name': 'St', 'types': [{'kind': 'enum', 'name': 'St', 'fields': ['x']}], 'events': []},
        {'kind': 'namespace', 'name': ['V1', 'H'], 'elements': [
            {'kind': 'namespace', 'name': ['D'], 'elements': [{'kind': 'extern', 'name': 'X', 'value': 'a'}]}]},
        {'kind': 'namespace', 'name': ['V2', 'H'], 'elements': [
            {'kind': 'namespace', 'name': ['D'], 'elements': [{'kind': 'extern', 'name': 'X', 'value': 'b'}]}]},
    ]
    return docs
