"""The shell as a wiring relation: what the generated C++ must contain, written from the statements of
C01 C02 C04 C09 C10 (DESIGN.md section 3, table of tuple kinds).  No part of this file looks at dznpy.

The functions build TEXT through a small string algebra `A` so that the same specification is evaluated
  * symbolically (A = props.gen_props.SymAlgebra: strings with holes, used for the proofs) and
  * natively    (A = NativeAlgebra below: plain str, used for replay against the real generator).

desc (plain data):
  ports : exposed ports in model order: {'name','dir' ('provides'|'requires'),'sem' ('STS'|'MTS'),'mc' bool,'itf' int}
  itfs  : {'fqn': [ids], 'events': [{'name','dir' ('in'|'out'),'formals': [{'name','dir','type'}]}]}
  mc    : None | {'claim': name, 'release': name, 'reply_fqn': [ids]}
  fac   : 'CREATE' | 'IMPORT';  shell: name of the generated struct;  sf_ns: [ids] support-files namespace
"""


class NativeAlgebra:
    def cat(self, *parts):
        return ''.join(parts)

    def cap(self, s):
        return s[0].upper() + s[1:]

    def join(self, sep, items):
        return sep.join(items)


def cpp_fqn(A, ids, root=True):
    return A.cat('::' if root else '', A.join('::', list(ids)))


def boundary(A, p):
    return A.cat('m_pp' if p['dir'] == 'provides' else 'm_rp', A.cap(p['name']))


def signature(A, ev, refs):
    """'(T a, T& b)' - out/inout parameters of in-events are passed by reference; '' without parameters"""
    if not ev['formals']:
        return ''
    ps = [A.cat(f['type'], '&' if (refs and f['dir'] != 'in') else '', ' ', f['name']) for f in ev['formals']]
    return A.cat('(', A.join(', ', ps), ')')


def call_args(A, ev):
    return A.join(', ', [f['name'] for f in ev['formals']])


def captures(A, ev):
    """in-parameters are captured by value (copied), everything else by reference"""
    return A.cat(*[A.cat(', ', f['name']) for f in ev['formals'] if f['dir'] == 'in'])


def in_blocking(A, b, p, ev):
    """boundary in-event -> dispatcher context, caller blocks, reply / out values returned"""
    return [A.cat(b, '.in.', ev['name'], ' = [&]', signature(A, ev, True), ' {'),
            A.cat('return dzn::shell(m_dispatcher, [&', captures(A, ev), '] { return m_encapsulee.', p['name'], '.in.',
                  ev['name'], '(', call_args(A, ev), '); });'),
            '};']


def out_posted(A, b, p, ev):
    """boundary out-event of a requires port -> queued on the dispatcher, returns at once"""
    return [A.cat(b, '.out.', ev['name'], ' = [&]', signature(A, ev, False), ' {'),
            A.cat('return m_dispatcher([&', captures(A, ev), '] { return m_encapsulee.', p['name'], '.out.', ev['name'],
                  '(', call_args(A, ev), '); });'),
            '};']


def ref_stmt(A, lhs_port, rhs_port, direction, ev):
    return [A.cat(lhs_port, '.', direction, '.', ev['name'], ' = std::ref(', rhs_port, '.', direction, '.', ev['name'],
                  ');')]


def mc_out(A, b, ev):
    return [A.cat(b, '().out.', ev['name'], ' = [&]', signature(A, ev, False), ' {'),
            A.cat('auto lockAndData = ', b, '.CurrentClient();'),
            A.cat('if (lockAndData->has_value()) lockAndData->value().get().dznPort.out.', ev['name'], '(',
                  call_args(A, ev), ');'),
            '};']


def constructor_statements(A, d):
    """every statement of the constructor body that touches an event slot (C01, C02): one per (port, event)"""
    res = []
    enc = 'm_encapsulee'
    for p in d['ports']:
        if p['sem'] != 'MTS':
            continue            # single-threaded: the wrapped component's own port is handed out, nothing rerouted
        itf = d['itfs'][p['itf']]
        b = boundary(A, p)
        encp = A.cat(enc, '.', p['name'])
        for ev in itf['events']:
            if p['dir'] == 'provides' and not p['mc']:
                res.append(in_blocking(A, b, p, ev) if ev['dir'] == 'in' else ref_stmt(A, encp, b, 'out', ev))
            elif p['dir'] == 'provides':
                arb = A.cat(b, '()')
                if ev['dir'] == 'in':
                    res.append(in_blocking(A, arb, p, ev))
                else:
                    res.append(mc_out(A, b, ev))
                    res.append(ref_stmt(A, encp, arb, 'out', ev))
            else:
                res.append(out_posted(A, b, p, ev) if ev['dir'] == 'out' else ref_stmt(A, encp, b, 'in', ev))
    return res


def member_init_ports(A, d):
    """member initialisers of the boundary ports (after the facility part): provides first, then requires"""
    res = []
    for side in ('provides', 'requires'):
        for p in d['ports']:
            if p['dir'] != side or p['sem'] != 'MTS':
                continue
            b = boundary(A, p)
            if p['mc']:
                res.append(A.cat(b, '(multiclientLog, "', p['name'], '", [this](const auto& identifier) { return '
                                 'InitializePort', A.cap(p['name']), '(identifier); })'))
            else:
                res.append(A.cat(b, '(m_encapsulee.', p['name'], ')'))
    return res


def accessor(A, d, p):
    """(function name, return type, parameter declarations, body, member variable declaration | None)"""
    itf = cpp_fqn(A, d['itfs'][p['itf']]['fqn'])
    sf = cpp_fqn(A, d['sf_ns'])
    dirname = 'Provides' if p['dir'] == 'provides' else 'Requires'
    b = boundary(A, p)
    if p['sem'] == 'STS':
        return (A.cat(dirname, A.cap(p['name'])), A.cat(sf, '::Sts<', itf, '>'), '',
                A.cat('return {m_encapsulee.', p['name'], '};'), None)
    if not p['mc']:
        return (A.cat(dirname, A.cap(p['name'])), A.cat(sf, '::Mts<', itf, '>'), '',
                A.cat('return {', b, '};'), A.cat(itf, ' ', b, ';'))
    return (A.cat(dirname, 'MultiClient', A.cap(p['name'])), A.cat(sf, '::Mts<', itf, '>'),
            A.cat('const ', sf, '::ClientIdentifier& identifier'),
            A.cat('return {', b, '.Index(identifier).dznPort};'),
            A.cat(sf, '::MultiClientSelector<', itf, '> ', b, ';'))


def initialize_port_body(A, d, p):
    """lines of InitializePort<Cap>(identifier) for the multi-client port (C04)"""
    itf = d['itfs'][p['itf']]
    b = boundary(A, p)
    sf = cpp_fqn(A, d['sf_ns'])
    lines = [A.cat('auto port(', sf, '::CreatePort<', cpp_fqn(A, itf['fqn']), '>("', p['name'], '", "arbiter',
                   A.cap(p['name']), '"));')]
    for ev in itf['events']:
        if ev['dir'] != 'in':
            continue
        head = A.cat('port.in.', ev['name'], ' = [&, identifier]', signature(A, ev, True), ' {')
        if ev['name'] is d['mc']['claim'] or ev['name'] == d['mc']['claim']:
            lines += [head,
                      A.cat('const auto r = ', b, '.Arbitered().in.', ev['name'], '(', call_args(A, ev), ');'),
                      A.cat('if (r == ', cpp_fqn(A, d['mc']['reply_fqn']), ') ', b, '.Select(identifier);'),
                      'return r;', '};']
        elif ev['name'] is d['mc']['release'] or ev['name'] == d['mc']['release']:
            lines += [head,
                      A.cat(b, '.Arbitered().in.', ev['name'], '(', call_args(A, ev), ');'),
                      A.cat(b, '.Deselect(identifier);'), '};']
        else:
            lines += [A.cat('port.in.', ev['name'], ' = std::ref(', b, '().in.', ev['name'], ');')]
    lines.append('return port;')
    return lines


def final_construct_lines(A, d):
    """FinalConstruct(): multi-client ports are finally constructed, every other exposed port and the wrapped
    component are checked for unbound events, the parent is recorded (C10)"""
    lines = []
    for p in d['ports']:
        if p['dir'] == 'provides' and p['mc']:
            lines.append(A.cat(boundary(A, p), '.FinalConstruct();'))
    for side in ('provides', 'requires'):
        for p in d['ports']:
            if p['dir'] != side or p['mc']:
                continue
            target = A.cat('m_encapsulee.', p['name']) if p['sem'] == 'STS' else boundary(A, p)
            lines.append(A.cat(target, '.check_bindings();'))
    lines += ['m_encapsulee.dzn_meta.parent = parentComponentMeta;', 'm_encapsulee.check_bindings();']
    return lines


def facilities(A, d):
    """C09: members (declaration = initialisation order), facility initialisers, locator accessor, check body"""
    if d['fac'] == 'CREATE':
        return {
            'members': ['dzn::runtime m_runtime;', 'dzn::pump m_dispatcher;', 'dzn::locator m_locator;'],
            'init': ['m_locator(std::move(FacilitiesCheck(prototypeLocator).clone().set(m_runtime)'
                     '.set(m_dispatcher)))', 'm_encapsulee(m_locator)'],
            'locator_param': 'const dzn::locator& prototypeLocator',
            'accessor': ('dzn::locator& Locator();', 'return m_locator;'),
            'check': [A.cat('if (locator.try_get<dzn::pump>() != nullptr) throw std::runtime_error("', d['shell'],
                            ': Overlapping dispatcher found (dzn::pump)");'),
                      A.cat('if (locator.try_get<dzn::runtime>() != nullptr) throw std::runtime_error("', d['shell'],
                            ': Overlapping Dezyne runtime found (dzn::runtime)");'),
                      'return locator;'],
        }
    return {
        'members': ['dzn::pump& m_dispatcher;'],
        'init': ['m_dispatcher(FacilitiesCheck(locator).get<dzn::pump>())', 'm_encapsulee(locator)'],
        'locator_param': 'const dzn::locator& locator',
        'accessor': None,
        'check': [A.cat('if (locator.try_get<dzn::pump>() == nullptr) throw std::runtime_error("', d['shell'],
                        ': Dispatcher missing (dzn::pump)");'),
                  A.cat('if (locator.try_get<dzn::runtime>() == nullptr) throw std::runtime_error("', d['shell'],
                        ': Dezyne runtime missing (dzn::runtime)");'),
                  'return locator;'],
    }
