"""Ghost specification of the C++ building blocks (C20), written from the property statement.

Declaration and definition are built from the SAME sub-texts (return type, name, parameter types/names/order, cv
qualifier); defaults, virtual/static/explicit/override and '= default/0/delete' appear only on the declaration; the
definition is qualified by the owning struct/class; an initialised declaration has no definition."""
from specs.ghost import all_ws


def fqn_text(fqn):
    ids = fqn.ns_ids.items
    if not ids:
        return ''
    return ('::' if fqn.prefix_root_ns else '') + '::'.join(ids)


def type_text(td):
    tpl = '<' + fqn_text(td.template_arg.fqn) + '>' if td.template_arg else ''
    return ('const ' if td.const else '') + fqn_text(td.fqn) + tpl + td.postfix.value


def param_def(p):
    return type_text(p.type_desc) + ' ' + p.name


def param_decl(p):
    return param_def(p) + (' = ' + p.type_desc.default_value if p.type_desc.default_value else '')


def block(signature, contents):
    """signature line, '{', the contents indented by four blanks (blank lines stay empty), '}'"""
    body = ['' if all_ws(x) else '    ' + x for x in contents.splitlines()]
    return '\n'.join([signature, '{'] + body + ['}']) + '\n'


def function_decl(f):
    prefix = f.prefix.value + ' ' if f.prefix.value is not None else ''
    params = ', '.join([param_decl(p) for p in f.params])
    return (prefix + type_text(f.return_type) + ' ' + f.name + '(' + params + ')' +
            (' ' + f.cav if f.cav != '' else '') + (' override' if f.override else '') +
            (' = ' + f.initialization if f.initialization != '' else '') + ';\n')


def function_def(f):
    if f.initialization:
        return ''
    params = ', '.join([param_def(p) for p in f.params])
    sig = (type_text(f.return_type) + ' ' + (f.scope.name + '::' if f.scope is not None else '') + f.name +
           '(' + params + ')' + (' ' + f.cav if f.cav != '' else ''))
    return sig + ' {}\n' if not f.contents else block(sig, f.contents)


def constructor_decl(c):
    params = ', '.join([param_decl(p) for p in c.params])
    return (('explicit ' if c.explicit else '') + c.scope.name + '(' + params + ')' +
            (' = ' + c.initialization if c.initialization else '') + ';\n')


def constructor_def(c):
    if c.initialization:
        return ''
    params = ', '.join([param_def(p) for p in c.params])
    sig = c.scope.name + '::' + c.scope.name + '(' + params + ')'
    if not c.member_initlist and not c.contents:
        return sig + ' {}\n'
    mil = []
    if c.member_initlist:
        mil = ['    : ' + c.member_initlist[0]] + ['    , ' + x for x in c.member_initlist[1:]]
    body = ['' if all_ws(x) else '    ' + x for x in c.contents.splitlines()] if c.contents else []
    return '\n'.join([sig] + mil + ['{'] + body + ['}']) + '\n'


def destructor_decl(d):
    return ('~' + d.scope.name + '()' + (' override' if d.override else '') +
            (' = ' + d.initialization if d.initialization else '') + ';\n')


def destructor_def(d):
    if d.initialization:
        return ''
    sig = d.scope.name + '::~' + d.scope.name + '()'
    return sig + ' {}\n' if not d.contents else block(sig, d.contents)


def struct_text(keyword, name, content_lines):
    """balanced, correctly named open/close pair around unchanged contents"""
    return '\n'.join([keyword + ' ' + name, '{'] + content_lines + ['};']) + '\n'


def namespace_text(ids, content_lines):
    name = ' ' + '::'.join(ids) if ids else ''
    if not content_lines:
        return 'namespace' + name + ' {}\n'
    return '\n'.join(['namespace' + name + ' {'] + content_lines + ['} // namespace' + name]) + '\n'


def member_variable_text(mv):
    return type_text(mv.type) + ' ' + mv.name + ';'
