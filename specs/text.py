"""Ghost specification of text blocks (C17), written from the property statement."""
from dznpy.text_gen import TextBlock


def flat(v, skip_empty):
    """depth-first, left-to-right pieces: None and empty containers contribute nothing; '' is kept unless skipped;
    anything that is not a list / dict / str contributes its str() unless that is empty"""
    if isinstance(v, list):
        return [x for item in v for x in flat(item, skip_empty)]
    if isinstance(v, dict):
        return [x for item in v.values() for x in flat(item, skip_empty)]
    if isinstance(v, str):
        return [] if (skip_empty and v == '') else [v]
    if v is None:
        return []
    s = str(v)
    return [s] if s else []


def lines_of(content):
    """the lines a content contributes: a text block given directly contributes its lines; otherwise every piece is
    split at line breaks, an empty piece is one blank line"""
    if isinstance(content, TextBlock):
        return content.lines
    return [ln for s in flat(content, False) for ln in ([''] if s == '' else s.splitlines())]


def text_of(header, lines):
    """every header and content line followed by exactly one newline"""
    allv = header + lines
    return '\n'.join(allv) + '\n' if allv else ''


def trimmable(x):
    return not isinstance(x, (bool, int, float, complex)) and not x


def trimmed(lst, end_only):
    """the longest slice without leading (unless end_only) and trailing empty items"""
    i = 0
    if not end_only:
        while i < len(lst) and trimmable(lst[i]):
            i += 1
    j = len(lst)
    while j > i and trimmable(lst[j - 1]):
        j -= 1
    return lst[i:j]


def chunk_lines(content, appendix):
    """None for empty content, else content followed by the appendix"""
    if not flat(content, True):
        return None
    return lines_of([content, flat(appendix, True)])


def comment_text(lines):
    """every line of the comment is rendered as '// ' + text without trailing whitespace; nothing else is emitted"""
    out = [('// ' + x).rstrip() for x in lines]
    return '\n'.join(out) + '\n' if out else ''
