"""Ghost predicates usable in specification code.  Native definitions (CPython) are below; the symbolic
executor replaces each of them by its z3 counterpart (pyvc/ghostlib.py)."""

LINE_BREAKS = '\n\r\x0b\x0c\x1c\x1d\x1e\x85  '


def all_ws(s):
    """s consists only of characters that str.strip() removes"""
    return s.strip() == ''


def no_break(s):
    """s contains no character at which str.splitlines() splits"""
    return not any(c in LINE_BREAKS for c in s)


def is_ident(s):
    import re
    return re.fullmatch('[a-zA-Z_][a-zA-Z0-9_]*', s) is not None


def implies(a, b):
    return (not a) or b


def prefix(lst, k):
    """the first k elements (0 <= k <= len)"""
    return lst[:k]


def extern_of(fct, type_ids, scope_fqn):
    """the extern type declaration that the (possibly relative) type name denotes, seen from scope_fqn.
    Symbolically an uninterpreted function of (type name, scope): which declaration it is, is C07's subject."""
    from dznpy.ast_view import find_fqn
    from dznpy.ast import Extern
    return find_fqn(fct, type_ids, scope_fqn).get_single_instance(Extern)


def lookup(fct, ids, scope_fqn):
    """the declarations the name denotes on the scope chain of scope_fqn (specification of find_fqn: specs/scoping.py,
    proved under C14).  Symbolically an uninterpreted sequence-valued function of (name, scope)."""
    from dznpy.ast_view import find_fqn
    return find_fqn(fct, ids, scope_fqn).items


def port_semantics(ports_cfg, side, name):
    """the semantics the configuration of that side gives the port (specs/port_selection.sem)"""
    from specs.port_selection import sem
    return sem(ports_cfg.provides if side == 'provides' else ports_cfg.requires, name)


def multiclient_fixture(mc_cfg, name, itf, fct):
    """the fixture check_multiclient_cfg returns for this port (None when the settings are absent / for another port)"""
    from dznpy.adv_shell.core.processing import check_multiclient_cfg
    return check_multiclient_cfg(mc_cfg, name, itf, fct)
