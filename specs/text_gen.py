"""Ghost specification of indentation (C18), written from the property statement."""
from dznpy.text_gen import Indentor, BulletListMode
from specs.ghost import all_ws


def ws_plain(ind):
    """the configured whitespace of a plain indenter"""
    return ' ' * ind.spaces_count if ind.indentor is Indentor.SPACES else '\t'


def bullet(ind):
    """bullet prefix: the glyph followed by at least one blank, padded to the indent width (tab mode: glyph, tab)"""
    glyph = ind.bullet_list.glyph
    return (glyph + ' ').ljust(ind.spaces_count) if ind.indentor is Indentor.SPACES else glyph + '\t'


def ws_cont(ind):
    """continuation lines of a first-line-only bullet are aligned with the text after the glyph"""
    return ' ' * len(bullet(ind)) if ind.indentor is Indentor.SPACES else '\t'


def plain_line(ws, line):
    """blank lines stay empty, every other line is prefixed with exactly the whitespace"""
    return '' if all_ws(line) else ws + line


def bullet_line(ind, line):
    """glyph prefix + text; no trailing whitespace is introduced"""
    return (bullet(ind) + line).rstrip()


def indent_lines(ind, lines):
    if not lines:
        return []
    if ind.bullet_list is None:
        return [plain_line(ws_plain(ind), x) for x in lines]
    if ind.bullet_list.mode == BulletListMode.ALL:
        return [bullet_line(ind, x) for x in lines]
    return [bullet_line(ind, lines[0])] + [plain_line(ws_cont(ind), x) for x in lines[1:]]


def indent_str(ind, lines):
    """the string form is the list form joined by, and ended with, an end-of-line"""
    return '\n'.join(ind.to_list(lines)) + '\n'
