"""Ghost specification of name lookup (C14), written from the property statement."""
from specs.ghost import is_ident, prefix


def inv_ids(items):
    """every namespace identifier is a valid identifier"""
    return all(is_ident(x) for x in items)


def chain(name_items, scope_items):
    """candidate qualified names, innermost scope first, global scope last"""
    n = len(scope_items)
    return [prefix(scope_items, n - j) + name_items for j in range(n + 1)]


def on_chain(fqn_items, name_items, scope_items):
    """fqn is the searched name prefixed by the calling scope or one of its enclosing scopes"""
    return any(fqn_items == c for c in chain(name_items, scope_items))


def containers(fct):
    """the declarations that can be looked up - never imports or file names"""
    return [fct.components, fct.enums, fct.externs, fct.foreigns, fct.interfaces, fct.subints, fct.systems]


def lookup(fct, name_items, scope_items):
    return [d for c in containers(fct) for d in c if on_chain(d.fqn.items, name_items, scope_items)]


def ends_with(fqn_items, tail_items):
    return len(fqn_items) >= len(tail_items) and fqn_items[len(fqn_items) - len(tail_items):] == tail_items


def suffix_search(fct, tail_items):
    return [d for c in containers(fct) for d in c if ends_with(d.fqn.items, tail_items)]


def tree_fqn(tree):
    """scope names along the parent chain, outermost first"""
    return [] if tree.parent is None else tree_fqn(tree.parent) + tree.scope_name.items
