"""Ghost specification of the std::ref binding functions for ANY number of events (C01)."""
from dznpy.ast import EventDirection


def ref_lines(port, encapsulee, direction, word):
    return [encapsulee.member_var.name + '.' + port.name + '.' + word + '.' + e.name + ' = std::ref(' +
            port.accessor_target + '.' + word + '.' + e.name + ');'
            for e in port.dzn_port_itf.interface.events.elements if e.direction == direction]


def text_or_none(lines):
    return '\n'.join(lines) + '\n' if lines else None


def ref_out_events(port, encapsulee):
    """every out-event of the boundary provides port is the target of the wrapped component's same-named out-event"""
    return text_or_none(ref_lines(port, encapsulee, EventDirection.OUT, 'out'))


def ref_in_events(port, encapsulee):
    return text_or_none(ref_lines(port, encapsulee, EventDirection.IN, 'in'))
