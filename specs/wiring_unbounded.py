"""Ghost specification of the std::ref binding functions for ANY number of events (C01)."""
from dznpy.ast import EventDirection


def ref_lines(port, encapsulee, direction, word):
    return [encapsulee.member_var.name + '.' + port.name + '.' + word + '.' + e.name + ' = std::ref(' +
            port.accessor_target + '.' + word + '.' + e.name + ');'
            for e in port.dzn_port_itf.interface.events.elements if e.direction == direction]


def text_or_none(lines):
    return '\n'.join(lines) + '\n' if lines else None


def ref_out_events(port, encapsulee):
    """every out-event of the boundary provides port is the target of the wrapped component's same-named out-event"""
    return text_or_none(ref_lines(port, encapsulee, EventDirection.OUT, 'out'))


def ref_in_events(port, encapsulee):
    return text_or_none(ref_lines(port, encapsulee, EventDirection.IN, 'in'))


# ---------------------------------------------------------------------------------------------- C10, any number of ports
def statements(lines):
    """the C++ statements of a body: its lines without comment lines and blank lines"""
    return [l for l in lines if not l.startswith('//') and l != '']


def final_construct_statements(provides_ports, requires_ports, encapsulee):
    """C10: every multi-client provides port is finally constructed; every other exposed port - provides first, then
    requires, each in model order - is checked for unbound events through the object the accessor hands out; the wrapped
    component gets its parent and is checked last"""
    mv = encapsulee.member_var.name
    return [p.accessor_target + '.FinalConstruct();' for p in provides_ports.ports if p.dzn_port_itf.multiclient is not None] + \
           [p.accessor_target + '.check_bindings();' for p in provides_ports.ports if p.dzn_port_itf.multiclient is None] + \
           [p.accessor_target + '.check_bindings();' for p in requires_ports.ports] + \
           [mv + '.dzn_meta.parent = parentComponentMeta;', mv + '.check_bindings();']
