"""Ghost specification of the std::ref binding functions for ANY number of events (C01)."""
from dznpy.ast import EventDirection


def ref_lines(port, encapsulee, direction, word):
    return [encapsulee.member_var.name + '.' + port.name + '.' + word + '.' + e.name + ' = std::ref(' +
            port.accessor_target + '.' + word + '.' + e.name + ');'
            for e in port.dzn_port_itf.interface.events.elements if e.direction == direction]


def text_or_none(lines):
    return '\n'.join(lines) + '\n' if lines else None


def ref_out_events(port, encapsulee):
    """every out-event of the boundary provides port is the target of the wrapped component's same-named out-event"""
    return text_or_none(ref_lines(port, encapsulee, EventDirection.OUT, 'out'))


def ref_in_events(port, encapsulee):
    return text_or_none(ref_lines(port, encapsulee, EventDirection.IN, 'in'))


# ---------------------------------------------------------------------------------------------- C10, any number of ports
def statements(lines):
    """the C++ statements of a body: its lines without comment lines and blank lines"""
    return [l for l in lines if not l.startswith('//') and l != '']


def final_construct_statements(provides_ports, requires_ports, encapsulee):
    """C10: every multi-client provides port is finally constructed; every other exposed port - provides first, then
    requires, each in model order - is checked for unbound events through the object the accessor hands out; the wrapped
    component gets its parent and is checked last"""
    mv = encapsulee.member_var.name
    return [p.accessor_target + '.FinalConstruct();' for p in provides_ports.ports if p.dzn_port_itf.multiclient is not None] + \
           [p.accessor_target + '.check_bindings();' for p in provides_ports.ports if p.dzn_port_itf.multiclient is None] + \
           [p.accessor_target + '.check_bindings();' for p in requires_ports.ports] + \
           [mv + '.dzn_meta.parent = parentComponentMeta;', mv + '.check_bindings();']


# ------------------------------------------------------------------- C01 C02 C04, any number of events and parameters
from dznpy.ast import FormalDirection
from specs import ghost


def param_text(fct, itf, f, refs):
    """'<C++ type of the extern the parameter type resolves to>[&] <name>': out / inout parameters by reference when
    the caller must see them (refs)"""
    return ghost.extern_of(fct, f.type_name.value, itf.fqn).value.value + \
        ('&' if refs and f.direction != FormalDirection.IN else '') + ' ' + f.name


def signature_text(fct, itf, e, refs):
    ps = [param_text(fct, itf, f, refs) for f in e.signature.formals.elements]
    return '(' + ', '.join(ps) + ')' if ps else ''


def call_args(e):
    return ', '.join([f.name for f in e.signature.formals.elements])


def captures(e):
    """in-parameters are copied into the closure that is handed to the dispatcher"""
    return ''.join([', ' + f.name for f in e.signature.formals.elements if f.direction == FormalDirection.IN])


def handler_lines(events, direction, head, body):
    """three lines per event of the given direction, in model order: '<head> {', the indented body, '};'"""
    lines = []
    for e in events:
        if e.direction == direction:
            lines.append(head(e) + ' {')
            for b in body(e):
                lines.append('    ' + b)
            lines.append('};')
    return text_or_none(lines)


def blocking_in_events(port, facilities, encapsulee, fct):
    """C02 (in-events of an MTS provides port): the boundary slot runs the wrapped component's same-named in-event of
    the same-named port inside dzn::shell on the dispatcher and returns its result"""
    itf = port.dzn_port_itf.interface
    target = port.accessor_target + ('()' if port.dzn_port_itf.multiclient is not None else '')
    return handler_lines(
        itf.events.elements, EventDirection.IN,
        lambda e: target + '.in.' + e.name + ' = [&]' + signature_text(fct, itf, e, True),
        lambda e: ['return dzn::shell(' + facilities.dispatcher.name + ', [&' + captures(e) + '] { return ' +
                   encapsulee.member_var.name + '.' + port.name + '.in.' + e.name + '(' + call_args(e) + '); });'])


def posted_out_events(port, facilities, encapsulee, fct):
    """C02 (out-events of an MTS requires port): posted on the dispatcher, the caller continues"""
    itf = port.dzn_port_itf.interface
    return handler_lines(
        itf.events.elements, EventDirection.OUT,
        lambda e: port.accessor_target + '.out.' + e.name + ' = [&]' + signature_text(fct, itf, e, False),
        lambda e: ['return ' + facilities.dispatcher.name + '([&' + captures(e) + '] { return ' +
                   encapsulee.member_var.name + '.' + port.name + '.out.' + e.name + '(' + call_args(e) + '); });'])


def multiclient_out_events(port, fct):
    """C04: an out-event of the wrapped component goes to the client that currently holds the claim, if any"""
    itf = port.dzn_port_itf.interface
    return handler_lines(
        itf.events.elements, EventDirection.OUT,
        lambda e: port.accessor_target + '().out.' + e.name + ' = [&]' + signature_text(fct, itf, e, False),
        lambda e: ['auto lockAndData = ' + port.accessor_target + '.CurrentClient();',
                   'if (lockAndData->has_value()) lockAndData->value().get().dznPort.out.' + e.name + '(' +
                   call_args(e) + ');'])


# ------------------------------------------------------------------------------ C04: InitializePort<Port>(identifier)
def claim_lines(port, multiclient, fct):
    """the claim in-event of a client port: forwarded to the arbitered port; the client is selected exactly when the
    reply is the configured granting reply; the reply is returned"""
    itf = port.dzn_port_itf.interface
    e = multiclient.claim_event
    return ['port.in.' + e.name + ' = [&, identifier]' + signature_text(fct, itf, e, True) + ' {',
            '    const auto r = ' + port.accessor_target + '.Arbitered().in.' + e.name + '(' + call_args(e) + ');',
            '    if (r == ::' + '::'.join(multiclient.claim_granting_reply.items) + ') ' + port.accessor_target +
            '.Select(identifier);',
            '    return r;',
            '};']


def release_lines(port, multiclient, fct):
    """the release in-event of a client port: forwarded to the arbitered port, then the client is deselected"""
    itf = port.dzn_port_itf.interface
    e = multiclient.release_event
    return ['port.in.' + e.name + ' = [&, identifier]' + signature_text(fct, itf, e, True) + ' {',
            '    ' + port.accessor_target + '.Arbitered().in.' + e.name + '(' + call_args(e) + ');',
            '    ' + port.accessor_target + '.Deselect(identifier);',
            '};']


def initialize_port_lines(port, support_files_ns, fct):
    """C04: a fresh client port whose in-events all go to the arbitered port - claim and release through their
    handlers, every other in-event by reference to the arbitered port's same-named in-event"""
    dzn = port.dzn_port_itf
    mc = dzn.multiclient
    cap = port.name[0].upper() + port.name[1:]
    head = ['auto port(::' + '::'.join(support_files_ns.items + ['CreatePort']) + '<::' +
            '::'.join(dzn.interface.fqn.items) + '>("' + port.name + '", "arbiter' + cap + '"));', '']
    handlers = []
    for e in dzn.interface.events.elements:
        if e.direction == EventDirection.IN:
            if e == mc.claim_event:
                handlers.extend(claim_lines(port, mc, fct))
            elif e == mc.release_event:
                handlers.extend(release_lines(port, mc, fct))
            else:
                handlers.append('port.in.' + e.name + ' = std::ref(' + port.accessor_target + '().in.' + e.name + ');')
    return head + (handlers + [''] if handlers else []) + ['return port;']


# --------------------------------------------------------------- C02 C10 C12: the accessor of one exposed port
from dznpy.ast import PortDirection
from dznpy.adv_shell.types import RuntimeSemantics
from specs.cpp_gen import type_text, param_decl, member_variable_text


def cpp_fqn(items):
    return '::' + '::'.join(items)


def portitf_view(r, dzn, scope):
    """what the rest of the generator reads from a CppPortItf, as text (rendering itself: C20)"""
    f = r.accessor_fn
    return (r.dzn_port_itf is dzn, f.scope is scope, type_text(r.type), type_text(f.return_type), f.name,
            [param_decl(p) for p in f.params], f.contents, f.prefix.value, f.cav, f.override, f.initialization,
            r.accessor_target, member_variable_text(r.member_var) if r.member_var is not None else None)


def portitf_expectation(dzn, scope, sfns, enc, sfs):
    """single-threaded: the wrapped component's own port in the Sts strict-port type, no boundary member;
    multi-threaded: a boundary member m_pp<Port> / m_rp<Port> of the interface type handed out in the Mts type;
    multi-client: the boundary member is a selector and the accessor takes the client identifier"""
    name = dzn.port.name
    cap = name[0].upper() + name[1:]
    word = 'Provides' if dzn.port.direction == PortDirection.PROVIDES else 'Requires'
    itf = cpp_fqn(dzn.interface.fqn.items)
    common = (None, '', False, '')
    if dzn.semantics == RuntimeSemantics.STS:
        target = enc.member_var.name + '.' + name
        return (True, True, itf, cpp_fqn(sfns.items + ['Sts']) + '<' + itf + '>', word + cap, [],
                'return {' + target + '};') + common + (target, None)
    boundary = ('m_pp' if dzn.port.direction == PortDirection.PROVIDES else 'm_rp') + cap
    if dzn.multiclient is None:
        return (True, True, itf, cpp_fqn(sfns.items + ['Mts']) + '<' + itf + '>', word + cap, [],
                'return {' + boundary + '};') + common + (boundary, itf + ' ' + boundary + ';')
    return (True, True, itf, cpp_fqn(sfns.items + ['Mts']) + '<' + itf + '>', word + 'MultiClient' + cap,
            ['const ' + cpp_fqn(sfs.multi_client_selector.namespace.items + ['ClientIdentifier']) + '& identifier'],
            'return {' + boundary + '.Index(identifier).dznPort};') + common + \
           (boundary, cpp_fqn(sfns.items + ['MultiClientSelector']) + '<' + itf + '> ' + boundary + ';')


# ------------------------------------------------------------------------------------- C09: facilities by origin
from dznpy.adv_shell.common import FacilitiesOrigin


def function_view(f, scope):
    return (f.scope is scope, f.prefix.value, type_text(f.return_type), f.name, [param_decl(p) for p in f.params], f.cav,
            f.override, f.initialization)


def facilities_view(fac, scope):
    acc = fac.locator_accessor_fn
    return (fac.origin,
            member_variable_text(fac.dispatcher),
            member_variable_text(fac.runtime) if fac.runtime is not None else None,
            member_variable_text(fac.locator) if fac.locator is not None else None,
            function_view(acc, scope) + (acc.contents,) if acc is not None else None)


def facilities_expectation(origin, scope):
    """'create': the shell owns dispatcher, runtime and locator (members by value) and hands out its locator;
    'import': only a reference to the user's dispatcher, no locator accessor"""
    if origin == FacilitiesOrigin.CREATE:
        return (origin, 'dzn::pump m_dispatcher;', 'dzn::runtime m_runtime;', 'dzn::locator m_locator;',
                (True, None, 'dzn::locator&', 'Locator', [], '', False, '', 'return m_locator;'))
    return (origin, 'dzn::pump& m_dispatcher;', None, None, None)


def facilities_check_view(f, scope):
    return function_view(f, scope) + (statements(f.contents.lines),)


def facilities_check_expectation(scope, origin):
    """'create' refuses a prototype locator that already carries a dispatcher or a runtime; 'import' refuses a
    locator in which one of them is missing; otherwise the locator is passed through"""
    head = (True, 'static', 'const dzn::locator&', 'FacilitiesCheck', ['const dzn::locator& locator'], '', False, '')
    if origin == FacilitiesOrigin.CREATE:
        return head + (['if (locator.try_get<dzn::pump>() != nullptr) throw std::runtime_error("' + scope.name +
                        ': Overlapping dispatcher found (dzn::pump)");',
                        'if (locator.try_get<dzn::runtime>() != nullptr) throw std::runtime_error("' + scope.name +
                        ': Overlapping Dezyne runtime found (dzn::runtime)");',
                        'return locator;'],)
    return head + (['if (locator.try_get<dzn::pump>() == nullptr) throw std::runtime_error("' + scope.name +
                    ': Dispatcher missing (dzn::pump)");',
                    'if (locator.try_get<dzn::runtime>() == nullptr) throw std::runtime_error("' + scope.name +
                    ': Dezyne runtime missing (dzn::runtime)");',
                    'return locator;'],)


# ------------------------------------------------------------------- C04 C13: the multi-client settings of one port
from dznpy.ast import Enum
from dznpy.scoping import NamespaceIds
from dznpy.adv_shell.types import MultiClientCfgError
from dznpy.adv_shell.common import MultiClientPortCfgFixture


def multiclient_fixture(cfg, candidate_port_name, itf, fct):
    """no settings, or settings for another port: nothing.  Otherwise the claim and release events are the (first)
    events of the interface with the configured names, the granting reply is the configured field of THE enum the claim
    event's reply type denotes from the interface's scope; anything else is a diagnosed configuration error"""
    if cfg is None or candidate_port_name != cfg.port_name:
        return None
    claims = [e for e in itf.events.elements if e.name == cfg.claim_event_name]
    if not claims:
        raise MultiClientCfgError('claim event not found')
    found = ghost.lookup(fct, claims[0].signature.type_name.value, itf.fqn)
    if len(found) != 1 or not isinstance(found[0], Enum):
        raise MultiClientCfgError('the reply type of the claim event is not (exactly one) enum')
    reply = cfg.claim_granting_reply_value.items[0]
    if reply not in found[0].fields.elements:
        raise MultiClientCfgError('not a value of the reply type')
    releases = [e for e in itf.events.elements if e.name == cfg.release_event_name]
    if not releases:
        raise MultiClientCfgError('release event not found')
    return MultiClientPortCfgFixture(claims[0], NamespaceIds(found[0].fqn.items + [reply]), releases[0])


# ------------------------------------------------- C03 C07 C13: the exposed ports of the wrapped component, any number
from dznpy.adv_shell.common import DznPortItf
from specs.scoping import tree_fqn


def exposed_ports(cfg, fct, encapsulee):
    """(provides, requires): every provides port and every requires port that is not injected, in model order, each with
    the interface its type name denotes from the scope the component lives in, the ONE semantics its side's
    configuration gives it (ghost.port_semantics: specs/port_selection.sem, proved for PortsCfg.match under C03), and -
    provides ports only - the multi-client fixture of check_multiclient_cfg"""
    scope = NamespaceIds(tree_fqn(encapsulee.parent_ns))
    provides, requires = [], []
    for p in encapsulee.ports.elements:
        itf = ghost.lookup(fct, p.type_name.value, scope)[0]
        if p.direction == PortDirection.PROVIDES:
            provides.append(DznPortItf(p, itf, ghost.port_semantics(cfg.ports_cfg, 'provides', p.name),
                                       ghost.multiclient_fixture(cfg.ports_cfg.multiclient, p.name, itf, fct)))
        elif not p.injected.value:
            requires.append(DznPortItf(p, itf, ghost.port_semantics(cfg.ports_cfg, 'requires', p.name), None))
    return (provides, requires)
