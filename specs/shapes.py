"""The structure corpus of the generator harness (pure Python: used by the symbolic harness and by native replay)."""


def ev(direction='in', formals=(), ret='void'):
    return {'dir': direction, 'formals': list(formals), 'ret': ret}


def shapes(tier='quick'):
    """The structure corpus.  Each shape: interfaces, ports, configuration kinds.  Names are symbolic."""
    S = []
    I_io = [ev('in'), ev('out')]
    I_rich = [ev('in', ['in', 'out']), ev('in', ['inout'], ret='enum'), ev('out', ['in', 'in'])]
    I_claim = [ev('in', ['in'], ret='enum'), ev('in'), ev('in', ['in']), ev('out', ['in']), ev('out')]
    I_outonly = [ev('out', ['in'])]
    I_inonly = [ev('in', ['in', 'inout'])]

    def shape(name, itfs, ports, prov='ALL_MTS', req=('NONE', 'ALL'), mc=None, fac='CREATE', prefix=None,
              creator=True, comp_ns=('My',), itf_ns=None, kind='component', expect='ok', extra=None):
        S.append({'name': name, 'itfs': itfs, 'ports': ports, 'prov': prov, 'req': req, 'mc': mc, 'fac': fac,
                  'prefix': prefix, 'creator': creator, 'comp_ns': list(comp_ns),
                  'itf_ns': [list(x) for x in (itf_ns or [comp_ns] * len(itfs))], 'kind': kind,
                  'expect': expect, 'extra': extra or {}})

    P, R = 'provides', 'requires'
    # -- baseline wiring, all kinds of routes
    shape('one-provides-mts', [I_io], [(0, P)])
    shape('one-provides-sts', [I_io], [(0, P)], prov='ALL_STS')
    shape('one-requires-mts', [I_io], [(0, R)])
    shape('one-requires-sts', [I_io], [(0, R)], req=('ALL', 'NONE'))
    shape('rich-all-mts', [I_rich], [(0, P), (0, R)], fac='IMPORT')
    shape('rich-all-sts', [I_rich], [(0, P), (0, R)], prov='ALL_STS', req=('ALL', 'NONE'), fac='IMPORT')
    shape('two-provides-mts', [I_io, I_rich], [(0, P), (1, P)])
    shape('three-provides-mts-shared-itf', [I_io, I_rich], [(0, P), (1, P), (0, P)], prefix=['Lib'])
    shape('two-requires-mixed', [I_io, I_rich], [(0, R), (1, R)], req=('SET0', 'REMAINING'))
    shape('two-requires-mixed-rev', [I_io, I_rich], [(0, R), (1, R)], req=('REMAINING', 'SET1'), fac='IMPORT')
    shape('two-named-requires', [I_io, I_rich], [(0, P), (0, R), (1, R)], req=('SET01', 'NONE'), fac='IMPORT')
    shape('three-requires-two-named', [I_io], [(0, R), (0, R), (0, R)], req=('REMAINING', 'SET02'))
    shape('out-only-provides', [I_outonly], [(0, P)])
    shape('in-only-requires', [I_inonly], [(0, R)])
    shape('out-only-requires-in-only-provides', [I_outonly, I_inonly], [(1, P), (0, R)], creator=False)
    shape('injected-requires', [I_io, I_io], [(0, P), (1, R), (0, R, 'injected')], req=('SET0', 'NONE'))
    shape('injected-requires-wild', [I_io], [(0, P), (0, R, 'injected'), (0, R)])
    shape('system-encapsulee', [I_io], [(0, P), (0, R)], kind='system', comp_ns=())
    shape('global-namespace', [I_rich], [(0, P)], comp_ns=(), fac='IMPORT')
    shape('itf-in-outer-namespace', [I_rich], [(0, P), (0, R)], comp_ns=('My', 'Sub'), itf_ns=[('My',)])
    # -- multi-client
    shape('mc-single', [I_claim], [(0, P)], mc=0)
    shape('mc-with-plain-before-after', [I_io, I_claim, I_rich], [(0, P), (1, P), (2, P)], mc=1)
    shape('mc-first-with-requires', [I_claim, I_io], [(0, P), (1, P), (1, R)], mc=0, fac='IMPORT', prefix=['A', 'B'])
    shape('mc-all-mts-all-sts', [I_claim], [(0, P), (0, R)], mc=0, req=('ALL', 'NONE'))
    # -- rejected configurations / models (C03, C13)
    shape('uncovered-requires', [I_io], [(0, P), (0, R), (0, R)], req=('SET0', 'NONE'), expect='AdvShellError')
    shape('unknown-configured-name', [I_io], [(0, P), (0, R)], req=('SETX', 'NONE'), expect='AdvShellError')
    shape('mc-on-sts', [I_claim], [(0, P)], prov='ALL_STS', mc=0, expect='MultiClientCfgError')
    shape('mc-port-missing', [I_claim], [(0, P)], mc='missing', expect='AdvShellError')
    shape('mc-claim-event-missing', [I_claim], [(0, P)], mc=0, expect='MultiClientCfgError',
          extra={'mc_claim': 'missing'})
    shape('mc-release-event-missing', [I_claim], [(0, P)], mc=0, expect='MultiClientCfgError',
          extra={'mc_release': 'missing'})
    shape('mc-reply-not-a-field', [I_claim], [(0, P)], mc=0, expect='MultiClientCfgError',
          extra={'mc_reply': 'missing'})
    shape('mc-claim-returns-void', [I_claim], [(0, P)], mc=0, expect='MultiClientCfgError',
          extra={'mc_claim': 'event1'})
    shape('mc-claim-returns-extern', [I_claim], [(0, P)], mc=0, expect='MultiClientCfgError',
          extra={'claim_ret': 'extern'})
    shape('empty-shell-name', [I_io], [(0, P)], expect='CppGenError', extra={'empty_shell_name': True})
    shape('encapsulee-unknown', [I_io], [(0, P)], expect='AdvShellError', extra={'encapsulee': 'missing'})
    shape('encapsulee-is-interface', [I_io], [(0, P)], expect='AdvShellError', extra={'encapsulee': 'interface'})
    shape('port-type-unknown', [I_io], [(0, P)], expect='FindError', extra={'port_type': 'missing'})
    shape('port-type-is-enum', [I_rich], [(0, P)], expect='FindError', extra={'port_type': 'enum'})
    shape('formal-type-is-enum', [I_inonly], [(0, P)], expect='FindError', extra={'formal_type': 'enum'})
    shape('formal-type-ambiguous', [I_inonly], [(0, P)], expect='FindError', extra={'formal_type': 'ambiguous'},
          comp_ns=('My', 'Sub'), itf_ns=[('My', 'Sub')])
    shape('formal-type-shadowed-by-enum', [I_inonly], [(0, P)], expect='FindError',
          extra={'formal_type': 'shadowed'}, comp_ns=('My', 'Sub'), itf_ns=[('My', 'Sub')])
    # -- scoping (C07): same-named declarations in unrelated namespaces must not influence the result
    shape('decoy-extern-unrelated-ns', [I_rich], [(0, P), (0, R)], extra={'decoy': 'extern'},
          comp_ns=('App',), itf_ns=[('Vendor',)])
    shape('decoy-interface-unrelated-ns', [I_io], [(0, P)], extra={'decoy': 'interface'}, comp_ns=('App', 'Deep'),
          itf_ns=[('App',)])
    # larger structures: the composition (create_constructor, Builder.build, file assembly) is decided on the corpus only,
    # so the quick tier too contains shapes with a 4th / 5th port per side and a multi-client port among four
    shape('four-provides-four-requires', [I_io, I_rich, I_outonly, I_inonly],
          [(0, P), (1, P), (2, P), (3, P), (3, R), (2, R), (1, R), (0, R)], req=('SET01', 'REMAINING'))
    shape('mc-among-four-provides', [I_io, I_claim, I_rich, I_inonly], [(0, P), (1, P), (2, P), (3, P), (0, R)], mc=1,
          prefix=['Sup', 'Port'])
    if tier == 'thorough':
        for fac in ('CREATE', 'IMPORT'):
            for prov in ('ALL_MTS', 'ALL_STS'):
                for req in (('NONE', 'ALL'), ('ALL', 'NONE'), ('SET0', 'REMAINING'), ('REMAINING', 'SET0')):
                    shape(f'grid-{fac}-{prov}-{req[0]}-{req[1]}', [I_rich, I_io],
                          [(0, P), (1, P), (1, R), (0, R)], prov=prov, req=req, fac=fac,
                          prefix=None if fac == 'CREATE' else ['X'])
        shape('mc-three-ports-mc-last', [I_io, I_rich, I_claim], [(0, P), (1, P), (2, P)], mc=2)
        # larger structures than the quick corpus: the composition is only sampled, so the thorough tier samples wider
        shape('five-requires-sts', [I_rich], [(0, R), (0, R), (0, R), (0, R), (0, R)], req=('ALL', 'NONE'), fac='IMPORT')
        shape('deep-namespaces', [I_rich, I_io], [(0, P), (1, R)], comp_ns=('A', 'B', 'C'), itf_ns=[('A',), ('A', 'B')])
    return S


