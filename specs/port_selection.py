"""Ghost specification functions for C03 (written from the property statement).

Pure Python: executed symbolically by pyvc for the proofs and natively by CPython for replay.
"""
from dznpy.adv_shell.port_selection import PortWildcard
from dznpy.adv_shell.types import RuntimeSemantics


def names(sel):
    """the port names a selection names explicitly"""
    return sel.value if isinstance(sel.value, set) else set()


def covers_rest(sel):
    """the selection is an 'all' / 'remaining' wildcard"""
    return isinstance(sel.value, PortWildcard) and sel.value != PortWildcard.NONE


def is_all(sel):
    return isinstance(sel.value, PortWildcard) and sel.value == PortWildcard.ALL


def is_none(sel):
    return isinstance(sel.value, PortWildcard) and sel.value == PortWildcard.NONE


def covered(cfg, p):
    """port p gets a semantics from this side's configuration"""
    return p in names(cfg.sts) or p in names(cfg.mts) or covers_rest(cfg.sts) or covers_rest(cfg.mts)


def sem(cfg, p):
    """the one semantics of a covered port: explicit naming first, wildcard otherwise"""
    return RuntimeSemantics.STS if p in names(cfg.sts) else (
        RuntimeSemantics.MTS if p in names(cfg.mts) else (
            RuntimeSemantics.STS if covers_rest(cfg.sts) else RuntimeSemantics.MTS))


def inv_port_select(sel):
    """a selection is a wildcard or a non-empty set of non-empty names"""
    return isinstance(sel.value, PortWildcard) or (bool(sel.value) and '' not in sel.value)


def overlap(sts, mts):
    """some port is named under both semantics"""
    return bool(names(sts) & names(mts))


def all_combined(sts, mts):
    """'all' combined with anything but 'none'"""
    return (is_all(sts) and not is_none(mts)) or (is_all(mts) and not is_none(sts))


def both_cover(sts, mts):
    """both wildcards would cover the same remaining ports"""
    return covers_rest(sts) and covers_rest(mts)


def must_reject_side(sts, mts):
    return overlap(sts, mts) or all_combined(sts, mts) or both_cover(sts, mts)


def inv_side(cfg):
    """well-formed one-side configuration: every port gets AT MOST one semantics"""
    return inv_port_select(cfg.sts) and inv_port_select(cfg.mts) and not must_reject_side(cfg.sts, cfg.mts)


def nothing_selected(sel):
    return is_none(sel)


def mixed_provides(provides):
    """semantics are mixed among provides ports: both selections of the provides side select something"""
    return not nothing_selected(provides.sts) and not nothing_selected(provides.mts)
