"""Ghost specification of the element parsers of dznpy.json_ast for WELL-FORMED elements (C05): every list element
becomes exactly one model object, in source order, with every name / direction / flag / value as written.
Plain Python over plain dicts: executed symbolically (typed JSON objects of any size) and natively (real dicts)."""
from dznpy.ast import (Formal, Formals, FormalDirection, ScopeName, Event, Events, EventDirection, Signature, Port, Ports,
                       PortDirection, Injected, Instance, Instances, Binding, Bindings, EndPoint, Fields, Range, Data)
from dznpy.scoping import NamespaceIds


def formal_direction(s):
    return FormalDirection.IN if s == 'in' else (FormalDirection.OUT if s == 'out' else FormalDirection.INOUT)


def event_direction(s):
    return EventDirection.IN if s == 'in' else EventDirection.OUT


def port_direction(s):
    return PortDirection.REQUIRES if s == 'requires' else PortDirection.PROVIDES


def scope_name(e):
    return ScopeName(NamespaceIds(e['ids']))


def formal(e):
    return Formal(e['name'], scope_name(e['type_name']), formal_direction(e['direction']))


def formals(e):
    return Formals([formal(x) for x in e['elements']])


def signature(e):
    return Signature(scope_name(e['type_name']), formals(e['formals']))


def event(e):
    return Event(e['name'], signature(e['signature']), event_direction(e['direction']))


def events(e):
    return Events([event(x) for x in e['elements']])


def port(e):
    return Port(e['name'], scope_name(e['type_name']), port_direction(e['direction']), formals(e['formals']),
                Injected('injected?' in e))


def ports(e):
    return Ports([port(x) for x in e['elements']])


def instance(e):
    return Instance(e['name'], scope_name(e['type_name']))


def instances(e):
    return Instances([instance(x) for x in e['elements']])


def endpoint(e):
    return EndPoint(e['port_name'], e['instance_name'] if 'instance_name' in e else None)


def binding(e):
    return Binding(endpoint(e['left']), endpoint(e['right']))


def bindings(e):
    return Bindings([binding(x) for x in e['elements']])


def fields(e):
    return Fields(e['elements'])


def range_(e):
    return Range(e['from'], e['to'])


def data(e):
    return Data(e['value'])


# ---------------------------------------------------------------- declarations: qualified by the enclosing namespaces
from dznpy.ast import (Enum, SubInt, Extern, Foreign, Component, System, Interface, Types, Namespace, Root, Comment, Import,
                       Filename)
from dznpy.scoping import NamespaceTree
from specs.scoping import tree_fqn


def qualified(parent_ns, name):
    """the fully qualified name: scope names of the enclosing namespaces, outermost first, then the own name"""
    return NamespaceIds(tree_fqn(parent_ns) + name.value.items)


def enum(e, parent_ns):
    name = scope_name(e['name'])
    return Enum(qualified(parent_ns, name), parent_ns, name, fields(e['fields']))


def subint(e, parent_ns):
    name = scope_name(e['name'])
    return SubInt(qualified(parent_ns, name), parent_ns, name, range_(e['range']))


def extern(e, parent_ns):
    name = scope_name(e['name'])
    return Extern(qualified(parent_ns, name), parent_ns, name, data(e['value']))


def foreign(e, parent_ns):
    name = scope_name(e['name'])
    return Foreign(qualified(parent_ns, name), parent_ns, name, ports(e['ports']))


def component(e, parent_ns):
    name = scope_name(e['name'])
    return Component(qualified(parent_ns, name), parent_ns, name, ports(e['ports']))


def system(e, parent_ns):
    name = scope_name(e['name'])
    return System(qualified(parent_ns, name), parent_ns, name, ports(e['ports']), instances(e['instances']),
                  bindings(e['bindings']))


def types(e, parent_ns):
    """enums and subints declared inside an interface, in source order; other classes are skipped"""
    res = []
    for x in e['elements']:
        if x['<class>'] == 'enum':
            res.append(enum(x, parent_ns))
        elif x['<class>'] == 'subint':
            res.append(subint(x, parent_ns))
    return Types(res)


def interface(e, parent_ns):
    name = scope_name(e['name'])
    trail = NamespaceTree(parent_ns, name.value)
    return Interface(qualified(parent_ns, name), parent_ns, trail, name, types(e['types'], trail), events(e['events']))


def namespace(e):
    return Namespace(scope_name(e['name']), e['elements'])


def root(e):
    return Root(Comment(e['comment']['string']) if 'comment' in e else None, e['elements'], e['working-directory'])


def comment(e):
    return Comment(e['string'])


def import_(e):
    return Import(e['name'])


def filename(e):
    return Filename(e['name'])


# ----------------------------------------------------------- whole documents: any nesting of namespaces, any size
from dznpy.ast import FileContents

KINDS = ('components', 'enums', 'externs', 'filenames', 'foreigns', 'imports', 'interfaces', 'subints', 'systems')


def decls_of(kind, item, tree):
    """the declarations of one kind that a document element contributes, in source order: itself if it is of that kind,
    the enums / subints nested in an interface, everything inside a namespace (qualified by it, recursively);
    unknown classes and non-dict elements contribute nothing"""
    if not isinstance(item, dict):
        return []
    cls = item['<class>']
    if cls == 'namespace':
        sub = NamespaceTree(tree, scope_name(item['name']).value)
        return [d for x in item['elements'] for d in decls_of(kind, x, sub)]
    if cls == 'interface':
        itf = interface(item, tree)
        if kind == 'interfaces':
            return [itf]
        if kind == 'enums':
            return [t for t in itf.types.elements if isinstance(t, Enum)]
        if kind == 'subints':
            return [t for t in itf.types.elements if isinstance(t, SubInt)]
        return []
    if cls == 'component' and kind == 'components':
        return [component(item, tree)]
    if cls == 'enum' and kind == 'enums':
        return [enum(item, tree)]
    if cls == 'extern' and kind == 'externs':
        return [extern(item, tree)]
    if cls == 'file-name' and kind == 'filenames':
        return [filename(item)]
    if cls == 'foreign' and kind == 'foreigns':
        return [foreign(item, tree)]
    if cls == 'import' and kind == 'imports':
        return [import_(item)]
    if cls == 'system' and kind == 'systems':
        return [system(item, tree)]
    if cls == 'subint' and kind == 'subints':
        return [subint(item, tree)]
    return []


def document_decls(kind, root_element):
    """FileContents.<kind> of a whole document"""
    top = NamespaceTree()
    return [d for x in root_element['elements'] for d in decls_of(kind, x, top)]


# ------------------------------------------------------------------ C15: an out event cannot answer or hand data back
def event_checked(e):
    """an out event with a reply type other than void, or with an out parameter, is refused; every other well-formed
    event is accepted as written"""
    from dznpy.json_ast import DznJsonError
    if e['direction'] == 'out':
        if e['signature']['type_name']['ids'] != ['void']:
            raise DznJsonError('an out event has no reply value')
        if [f for f in e['signature']['formals']['elements'] if f['direction'] == 'out']:
            raise DznJsonError('an out event has no out parameter')
    return event(e)
