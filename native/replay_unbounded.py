"""Native differential replay for the unbounded generator contracts (props/gen_unbounded.py).

The specification functions of specs/wiring_unbounded.py are plain Python: here they run under CPython next to the
real function on a small corpus of concrete ports / events / parameters built with the real parser.  A difference is a
failing input for the obligation of that function (input: {"function": name[, "case": label]}).
"""
import itertools
import os
import sys

sys.path.insert(0, os.path.dirname(os.path.abspath(__file__)))
import mkmodel as M  # noqa: E402

M.assert_tree()
from replay_common import fail, drive  # noqa: E402
from dznpy import ast, cpp_gen  # noqa: E402
from dznpy.scoping import ns_ids_t  # noqa: E402
from dznpy.adv_shell.types import RuntimeSemantics  # noqa: E402
from dznpy.adv_shell import common as C  # noqa: E402
from dznpy.adv_shell.core import processing as P  # noqa: E402
from specs import wiring_unbounded as S  # noqa: E402


def document():
    f = M.formal
    evs_plain = [M.event('Start', 'in'), M.event('Stop', 'in'), M.event('Done', 'out')]
    evs_rich = [M.event('Set', 'in', 'void', [f('a', 'T', 'in'), f('b', 'Sub.U', 'out'), f('c', 'T', 'inout')]),
                M.event('Get', 'in', 'Result', [f('x', 'T', 'out')]),
                M.event('Changed', 'out', 'void', [f('v', 'T', 'in'), f('w', 'Sub.U', 'in')]),
                M.event('Ping', 'out'), M.event('Last', 'in', 'void', [f('z', 'Sub.U', 'in')])]
    evs_mc = [M.event('Claim', 'in', 'Result', [f('who', 'T', 'in'), f('why', 'Sub.U', 'out')]),
              M.event('Work', 'in', 'void', [f('n', 'T', 'in')]),
              M.event('Release', 'in', 'void', [f('q', 'T', 'inout')]),
              M.event('Idle', 'in'), M.event('Fail', 'out', 'void', [f('e', 'T', 'in')]), M.event('Ok', 'out')]
    evs_mc0 = [M.event('Claim', 'in', 'Result'), M.event('Release', 'in')]
    evs_mcx = [M.event('Claim', 'in', 'T'), M.event('Release', 'in'), M.event('Work', 'in', 'Level'),
               M.event('Other', 'in', 'Sub.Result')]
    itfs = {'IEmpty': [], 'IPlain': evs_plain, 'IRich': evs_rich, 'IMc': evs_mc, 'IMc0': evs_mc0, 'IMcx': evs_mcx,
            'IOut': [M.event('Only', 'out', 'void', [f('p', 'T', 'in')])]}
    ports = []
    for n in itfs:
        ports.append(M.port('p' + n[1:], 'My.' + n, 'provides'))
        ports.append(M.port('r' + n[1:], 'My.' + n, 'requires'))
    doc = M.root([
        M.namespace('My', [M.extern('T', 'int'), M.enum('Result', ['Ok', 'Busy']), M.subint('Level', 0, 3),
                           M.namespace('Sub', [M.extern('U', 'std::string'), M.enum('Result', ['Fine'])])] +
                    [M.interface(n, evs) for n, evs in itfs.items()] +
                    [M.component('Comp', ports)]),
        M.namespace('Other', [M.extern('T', 'decoy_t'), M.namespace('Sub', [M.extern('U', 'decoy_u')])])])
    return doc, list(itfs)


def world():
    doc, names = document()
    fct = M.parse(doc)
    comp = [c for c in fct.components if c.name.value.items[-1] == 'Comp'][0]
    itf_of = {i.name.value.items[-1]: i for i in fct.interfaces}
    return fct, comp, itf_of


def fixture(itf):
    evs = {e.name: e for e in itf.events.elements}
    if 'Claim' not in evs or itf.name.value.items[-1] == 'IMcx':
        return None
    return C.MultiClientPortCfgFixture(claim_event=evs['Claim'], claim_granting_reply=ns_ids_t('My.Result.Ok'),
                                       release_event=evs['Release'])


def cpp_port(port, itf, sem, mc, target):
    typ = cpp_gen.TypeDesc(cpp_gen.Fqn(itf.fqn, True))
    fn = cpp_gen.Function(typ, 'Accessor', contents='return {};')
    return C.CppPortItf(C.DznPortItf(port, itf, sem, mc), typ, fn, target, None)


def cases():
    """label -> (port, fct, enc, facilities)"""
    fct, comp, itf_of = world()
    enc = C.CppEncapsulee(cpp_gen.MemberVariable(cpp_gen.TypeDesc(cpp_gen.Fqn(ns_ids_t('My.Comp'), True)), 'm_encapsulee'),
                          'Comp', None)
    scope = cpp_gen.Struct(name='CompAdvShell')
    fac_c = P.create_facilities(C.FacilitiesOrigin.CREATE, scope)
    res = {}
    for p in comp.ports.elements:
        itf = itf_of[p.type_name.value.items[-1]]
        cap = p.name[0].upper() + p.name[1:]
        pre = 'm_pp' if p.direction == ast.PortDirection.PROVIDES else 'm_rp'
        res[f'{p.name}/mts'] = cpp_port(p, itf, RuntimeSemantics.MTS, None, pre + cap)
        res[f'{p.name}/sts'] = cpp_port(p, itf, RuntimeSemantics.STS, None, 'm_encapsulee.' + p.name)
        fx = fixture(itf)
        if fx is not None and p.direction == ast.PortDirection.PROVIDES:
            res[f'{p.name}/mc'] = cpp_port(p, itf, RuntimeSemantics.MTS, fx, pre + cap)
    return res, fct, enc, fac_c, scope


def lines_of(x):
    return None if x is None else list(x.lines)


def check_one(inp):
    fn = inp['function'].rsplit('.', 1)[-1]
    ports, fct, enc, fac, scope = cases()
    only = inp.get('case')
    sfns = ns_ids_t('Dzn.Support')

    def diff(label, got, want):
        if got != want:
            fail(f'{fn} [{label}]: the real function returns\n{got!r}\nthe contract requires\n{want!r}')

    def each(pred=lambda l, p: True):
        for label, p in ports.items():
            if (only is None or only == label) and pred(label, p):
                yield label, p

    if fn == 'reroute_in_events':
        for label, p in each():
            diff(label, P.reroute_in_events(p, fac, enc, fct), S.blocking_in_events(p, fac, enc, fct))
    elif fn == 'reroute_out_events':
        for label, p in each():
            diff(label, P.reroute_out_events(p, fac, enc, fct), S.posted_out_events(p, fac, enc, fct))
    elif fn == 'reroute_multiclient_out_events':
        for label, p in each(lambda l, p: l.endswith('/mc')):
            diff(label, P.reroute_multiclient_out_events(p, fct), S.multiclient_out_events(p, fct))
    elif fn == 'stdref_provides_out_events':
        for label, p in each():
            diff(label, P.stdref_provides_out_events(p, enc), S.ref_out_events(p, enc))
    elif fn == 'stdref_requires_in_events':
        for label, p in each():
            diff(label, P.stdref_requires_in_events(p, enc), S.ref_in_events(p, enc))
    elif fn == 'initialize_port_claim_snippet':
        for label, p in each(lambda l, p: l.endswith('/mc')):
            mc = p.dzn_port_itf.multiclient
            diff(label, lines_of(P.initialize_port_claim_snippet(p, mc, fct)), S.claim_lines(p, mc, fct))
    elif fn == 'initialize_port_release_snippet':
        for label, p in each(lambda l, p: l.endswith('/mc')):
            mc = p.dzn_port_itf.multiclient
            diff(label, lines_of(P.initialize_port_release_snippet(p, mc, fct)), S.release_lines(p, mc, fct))
    elif fn == 'initialize_port_impl':
        for label, p in each(lambda l, p: l.endswith('/mc')):
            diff(label, lines_of(P.initialize_port_impl(p, sfns, fct)), S.initialize_port_lines(p, sfns, fct))
    elif fn == 'create_cpp_portitf':
        from dznpy.text_gen import GeneratedContent
        gc = [GeneratedContent(f'f{k}.hh', '', ns_ids_t('Dzn.Support')) for k in range(5)]
        sfs = C.SupportFiles(gc[0], gc[1], gc[2], gc[3], GeneratedContent('mcs.hh', '', ns_ids_t('Other.Mcs')), gc[4])
        for label, p in each():
            dzn = p.dzn_port_itf
            r = P.create_cpp_portitf(dzn, scope, sfns, enc, sfs)
            diff(label, S.portitf_view(r, dzn, scope), S.portitf_expectation(dzn, scope, sfns, enc, sfs))
    elif fn in ('create_facilities', 'create_facilities_check_fn'):
        for origin in (C.FacilitiesOrigin.CREATE, C.FacilitiesOrigin.IMPORT):
            if fn == 'create_facilities':
                diff(origin.name, S.facilities_view(P.create_facilities(origin, scope), scope),
                     S.facilities_expectation(origin, scope))
            else:
                diff(origin.name, S.facilities_check_view(P.create_facilities_check_fn(scope, origin), scope),
                     S.facilities_check_expectation(scope, origin))
    elif fn == 'check_multiclient_cfg':
        from dznpy.adv_shell.port_selection import MultiClientPortCfg
        _f, _c, itf_of = world()
        names = ['Claim', 'Release', 'Work', 'Other', 'Idle', 'Fail', 'Nope']
        for iname, cand, claim, reply, release in itertools.product(
                ['IMc', 'IMc0', 'IMcx', 'IEmpty'], ['api', 'other'], names, ['Ok', 'Busy', 'Fine', 'Nope'],
                ['Release', 'Claim', 'Idle', 'Nope']):
            label = f'{iname}/{cand}/{claim}/{reply}/{release}'
            if only is not None and only != label:
                continue
            itf = itf_of[iname]
            for cfg in (MultiClientPortCfg('api', claim, ns_ids_t(reply), release), None):
                outs = []
                for f in (P.check_multiclient_cfg, S.multiclient_fixture):
                    try:
                        outs.append(('return', f(cfg, cand, itf, fct)))
                    except Exception as e:  # noqa
                        outs.append(('raise', type(e).__name__))
                diff(label + ('' if cfg else '/no-settings'), outs[0], outs[1])
    elif fn == 'create_dzn_elements':
        from dznpy.adv_shell.port_selection import PortsCfg, PortsSemanticsCfg, PortSelect, PortWildcard, MultiClientPortCfg
        from dznpy.adv_shell.common import Configuration, FacilitiesOrigin
        from dznpy.adv_shell.types import AdvShellError
        from dznpy.ast_view import FindError
        from specs import port_selection as PSPEC
        W = PortWildcard
        f = M.formal
        doc = M.root([M.namespace('My', [
            M.extern('T', 'int'), M.enum('Result', ['Ok', 'Busy']),
            M.interface('IPlain', [M.event('Start', 'in'), M.event('Done', 'out')]),
            M.interface('IMc', [M.event('Claim', 'in', 'Result'), M.event('Release', 'in'), M.event('Fail', 'out')]),
            M.component('Exposed', [M.port('api', 'IMc', 'provides'), M.port('ctl', 'IPlain', 'provides'),
                                    M.port('cord', 'IPlain', 'requires'), M.port('log', 'IPlain', 'requires', True),
                                    M.port('aux', 'IPlain', 'requires')]),
            M.component('Broken', [M.port('p', 'INoSuch', 'provides')])])])
        fct2 = M.parse(doc)
        encs = {c.name.value.items[-1]: c for c in fct2.components}
        sel = lambda v: PortSelect(v)
        sides_p = [(W.NONE, W.ALL), (W.ALL, W.NONE), (W.NONE, {'api', 'ctl'}), (W.NONE, {'api'}), (W.NONE, {'api', 'nope'})]
        sides_r = [(W.NONE, W.ALL), (W.ALL, W.NONE), ({'cord', 'aux'}, W.NONE), ({'cord'}, W.REMAINING), ({'cord'}, W.NONE),
                   ({'cord', 'aux', 'log'}, W.NONE), (W.NONE, {'cord', 'aux', 'zzz'})]
        mcs = [None, MultiClientPortCfg('api', 'Claim', ns_ids_t('Ok'), 'Release'),
               MultiClientPortCfg('ctl', 'Claim', ns_ids_t('Ok'), 'Release'),
               MultiClientPortCfg('nope', 'Claim', ns_ids_t('Ok'), 'Release')]
        k = 0
        for enc_name in ('Exposed', 'Broken'):
            enc2 = encs[enc_name]
            for sp, sr, mc in itertools.product(sides_p, sides_r, mcs):
                k += 1
                label = f'case{k}'
                if only is not None and only != label:
                    continue
                try:
                    pcfg = PortsCfg(PortsSemanticsCfg(sel(sp[0]), sel(sp[1])), PortsSemanticsCfg(sel(sr[0]), sel(sr[1])), mc)
                except AdvShellError:
                    continue        # not a configuration (C03's own subject)
                cfg = Configuration('M.dzn', fct2, 'AdvShell', ns_ids_t(['My', enc_name]), pcfg, FacilitiesOrigin.CREATE, 'c')
                prov = {p.name for p in enc2.ports.elements if p.direction == ast.PortDirection.PROVIDES}
                reqs = {p.name for p in enc2.ports.elements if p.direction == ast.PortDirection.REQUIRES}
                exposed = [(p, pcfg.provides if p.name in prov else pcfg.requires) for p in enc2.ports.elements
                           if p.name in prov or not p.injected.value]
                accept = enc_name == 'Exposed' and \
                    (PSPEC.names(pcfg.provides.sts) | PSPEC.names(pcfg.provides.mts)) <= prov and \
                    (PSPEC.names(pcfg.requires.sts) | PSPEC.names(pcfg.requires.mts)) <= reqs and \
                    all(PSPEC.covered(side, p.name) for p, side in exposed)
                if accept and mc is not None:
                    # the settings must name a provides port whose interface carries the claim / release events
                    accept = mc.port_name == 'api' and PSPEC.sem(pcfg.provides, 'api').name == 'MTS'
                try:
                    r = P.create_dzn_elements(cfg, fct2, enc2)
                    got = ('return', (r.provides_ports, r.requires_ports))
                except (AdvShellError, FindError) as ex:
                    got = ('rejected', None)
                except Exception as ex:  # noqa
                    got = ('internal error', f'{type(ex).__name__}: {ex}')
                want = ('return', S.exposed_ports(cfg, fct2, enc2)) if accept else ('rejected', None)
                diff(f'{label}: {enc_name} provides={sp} requires={sr} multiclient={mc.port_name if mc else None}', got, want)
    elif fn == 'create_final_construct_fn':
        prov = [(l, p) for l, p in ports.items() if p.dzn_port_itf.port.direction == ast.PortDirection.PROVIDES]
        reqs = [(l, p) for l, p in ports.items() if p.dzn_port_itf.port.direction == ast.PortDirection.REQUIRES]
        combos = [([], []), (prov[:1], []), ([], reqs[:1]), (prov[:4], reqs[:3]), (prov, reqs), (prov[::-1], reqs[::-1]),
                  ([x for x in prov if x[0].endswith('/mc')], reqs[:1]),
                  ([x for x in prov if not x[0].endswith('/mc')], [])]
        for k, (pp, rp) in enumerate(combos):
            label = f'combo{k}'
            if only is not None and only != label:
                continue
            cpp, crp = C.CppPorts([p for _, p in pp]), C.CppPorts([p for _, p in rp])
            f = P.create_final_construct_fn(scope, cpp, crp, enc)
            diff(label, S.statements(list(f.contents.lines)), S.final_construct_statements(cpp, crp, enc))
    else:
        print('no native corpus for', fn)
        raise SystemExit(2)


if __name__ == '__main__':
    drive(check_one)
