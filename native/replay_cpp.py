"""Native replay corpus for C20: the real cpp_gen building blocks against specs/cpp_gen.py."""
import itertools
import os
import sys

sys.path.insert(0, os.path.dirname(os.path.abspath(__file__)))
import mkmodel  # noqa: E402

mkmodel.assert_tree()
from replay_common import fail, drive  # noqa: E402
from dznpy import cpp_gen as G  # noqa: E402
from dznpy.scoping import ns_ids_t  # noqa: E402
from dznpy.text_gen import TextBlock  # noqa: E402
from specs import cpp_gen as S  # noqa: E402


def params(n, defaults):
    res = []
    for i in range(n):
        td = G.TypeDesc(G.Fqn(ns_ids_t(f'My.T{i}'), i % 2 == 0), postfix=list(G.TypePostfix)[i % 3], const=i % 2 == 1,
                        default_value=(f'{i}u' if defaults else None),
                        template_arg=G.TemplateArg(G.Fqn(ns_ids_t('Hal.I'))) if i == 1 else None)
        res.append(G.Param(td, f'arg{i}'))
    return res


def check_one(inp):
    kind = inp['kind']
    scope = G.Struct('Owner') if inp.get('scoped', True) else None
    contents = inp.get('contents', '')
    init = inp.get('init', '')
    ps = params(inp.get('n', 0), inp.get('defaults', False))
    if kind == 'function':
        prefix = G.FunctionPrefix[inp.get('prefix', 'MEMBER_FUNCTION')]
        try:
            f = G.Function(G.TypeDesc(G.fqn_t('My.Ret'), postfix=G.TypePostfix.REFERENCE), 'Calc', params=ps, prefix=prefix,
                           cav=inp.get('cav', ''), override=inp.get('override', False), initialization=init,
                           contents=contents, scope=scope)
        except G.CppGenError:
            return
        if f.as_decl != S.function_decl(f):
            fail(f'Function.as_decl {f.as_decl!r} instead of {S.function_decl(f)!r}')
        if f.as_def != S.function_def(f):
            fail(f'Function.as_def {f.as_def!r} instead of {S.function_def(f)!r}')
    elif kind == 'constructor':
        mil = inp.get('mil', [])
        try:
            c = G.Constructor(G.Struct('Owner'), explicit=inp.get('explicit', False), params=ps, initialization=init if not mil else '',
                              member_initlist=list(mil), contents=contents)
        except G.CppGenError:
            return
        if c.as_decl != S.constructor_decl(c):
            fail(f'Constructor.as_decl {c.as_decl!r} instead of {S.constructor_decl(c)!r}')
        if c.as_def != S.constructor_def(c):
            fail(f'Constructor.as_def {c.as_def!r} instead of {S.constructor_def(c)!r}')
    elif kind == 'destructor':
        d = G.Destructor(G.Class('Owner'), override=inp.get('override', False), initialization=init, contents=contents)
        if d.as_decl != S.destructor_decl(d) or d.as_def != S.destructor_def(d):
            fail(f'Destructor {d.as_decl!r} / {d.as_def!r}')
    elif kind == 'blocks':
        lines = inp.get('lines', [])
        for cls, kw in ((G.Struct, 'struct'), (G.Class, 'class')):
            o = cls('Name', TextBlock(list(lines)))
            if str(o) != S.struct_text(kw, 'Name', list(lines)):
                fail(f'{kw} text {str(o)!r}')
        for ids in ([], ['A'], ['A', 'B']):
            n = G.Namespace(ns_ids_t(ids), TextBlock(list(lines)))
            if str(n) != S.namespace_text(ids, list(lines)):
                fail(f'namespace text {str(n)!r} instead of {S.namespace_text(ids, list(lines))!r}')
    else:
        raise SystemExit(2)


drive(check_one)
