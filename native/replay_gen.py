"""Native replay for the generator properties: builds the concrete model of a shape with the given names through
the REAL parser, runs the REAL Builder.build and evaluates the wiring specification (specs/wiring.py) natively.

input: {'shape': <name>, 'names': {symbol: value}, 'property': 'C01'...}
"""
import copy
import hashlib
import json
import os
import re
import subprocess
import sys

sys.path.insert(0, os.path.dirname(os.path.abspath(__file__)))
import mkmodel as M  # noqa: E402

M.assert_tree()
from replay_common import fail, drive  # noqa: E402
from specs import wiring as W  # noqa: E402
from specs.shapes import shapes  # noqa: E402

LIB_ERRORS = ('AdvShellError', 'MultiClientCfgError', 'FindError', 'NamespaceIdsTypeError', 'CppGenError')
SHAPES = {s['name']: s for s in shapes('thorough')}
A = W.NativeAlgebra()


class Names:
    def __init__(self, given):
        self.given = dict(given or {})
        self.used = {}

    def __call__(self, key, default=None):
        v = self.given.get(key)
        if v is None:
            v = default if default is not None else re.sub(r'[^A-Za-z0-9_]', '_', key)
            if v and v[0].isdigit():
                v = '_' + v
        self.used[key] = v
        return v


def build_world(sh, N):
    ex = sh['extra']
    comp_ns = [N(f'ns{i}', f'Ns{i}') for i, _ in enumerate(sh['comp_ns'])]
    ns_syms = {}
    for k in range(len(sh['comp_ns'])):
        ns_syms[tuple(sh['comp_ns'][:k + 1])] = comp_ns[k]

    def ns_of(path_names):
        res = []
        for k, nm in enumerate(path_names):
            key = tuple(path_names[:k + 1])
            if key not in ns_syms:
                ns_syms[key] = N('ns_' + '_'.join(key))
            res.append(ns_syms[key])
        return res

    def wrap(ns, node):
        for x in reversed(ns):
            node = M.namespace(x, [node])
        return node
    elements = []
    itf_info = []
    for ii, events in enumerate(sh['itfs']):
        ins = ns_of(sh['itf_ns'][ii])
        iname = N(f'itf{ii}', f'IItf{ii}')
        ext_sym, ext_val = N(f'itf{ii}_T', f'T{ii}'), N(f'itf{ii}_T_value', f'my::type{ii}')
        enum_sym = N(f'itf{ii}_Reply', f'Reply{ii}')
        fields = [N(f'itf{ii}_Reply_f0', 'Ok'), N(f'itf{ii}_Reply_f1', 'No')]
        evs, ev_names = [], []
        for ei, e in enumerate(events):
            en = N(f'itf{ii}_ev{ei}', f'Ev{ii}{ei}')
            ev_names.append(en)
            fs = []
            for fi, fdir in enumerate(e['formals']):
                tname = enum_sym if ex.get('formal_type') == 'enum' else ext_sym
                fs.append(M.formal(N(f'itf{ii}_ev{ei}_arg{fi}', f'arg{ii}{ei}{fi}'), tname, fdir))
            rt = 'void' if e['ret'] == 'void' else (ext_sym if ex.get('claim_ret') == 'extern' else enum_sym)
            evs.append(M.event(en, e['dir'], rt, fs))
        if ex.get('formal_type') == 'ambiguous' and ii == 0:
            elements.append(wrap(ins[:-1], M.extern(ext_sym, N('dup_T_value', 'dup::type'))))
        if ex.get('formal_type') == 'shadowed' and ii == 0:
            elements.append(wrap(ins[:-1], M.extern(ext_sym, ext_val)))
            elements.append(wrap(ins, M.enum(ext_sym, [N('shadow_f0', 'S0')])))
        else:
            elements.append(wrap(ins, M.extern(ext_sym, ext_val)))
        elements.append(wrap(ins, M.enum(enum_sym, fields)))
        elements.append(wrap(ins, M.interface(iname, evs)))
        itf_info.append({'fqn': ins + [iname], 'name': iname, 'events': events, 'ev_names': ev_names, 'ext_val': ext_val,
                         'ext_sym': ext_sym, 'enum_sym': enum_sym, 'enum_fields': fields, 'ns': ins})
    if ex.get('decoy'):
        info = itf_info[0]
        if ex['decoy'] == 'extern':
            elements.insert(0, wrap(comp_ns, M.extern(info['ext_sym'], N('decoy_T_value', 'decoy::type'))))
        else:
            elements.insert(0, wrap([N('ns_unrelated', 'Unrelated')], M.interface(info['name'], [])))
    ports, port_info = [], []
    for pi, pdesc in enumerate(sh['ports']):
        ii, pdir = pdesc[0], pdesc[1]
        injected = len(pdesc) > 2 and pdesc[2] == 'injected'
        pn = N(f'port{pi}', f'port{pi}')
        tn = itf_info[ii]['name']
        if sh['itf_ns'][ii] != sh['comp_ns'][:len(sh['itf_ns'][ii])]:
            tn = list(itf_info[ii]['fqn'])
        if ex.get('port_type') == 'missing' and pi == 0:
            tn = N('no_such_interface', 'INoSuch')
        if ex.get('port_type') == 'enum' and pi == 0:
            tn = itf_info[ii]['enum_sym']
        ports.append(M.port(pn, tn, pdir, injected))
        port_info.append({'name': pn, 'itf': ii, 'dir': pdir, 'injected': injected})
    cname = N('encapsulee', 'Encapsulee')
    node = M.component(cname, ports) if sh['kind'] == 'component' else M.system(cname, ports)
    elements.append(wrap(comp_ns, node))
    return {'doc': M.root(elements), 'itf_info': itf_info, 'port_info': port_info, 'comp_ns': comp_ns,
            'enc_fqn': comp_ns + [cname]}


def build_cfg(sh, N, world, fct):
    from dznpy.adv_shell.port_selection import PortsCfg, PortsSemanticsCfg, PortSelect, PortWildcard, \
        MultiClientPortCfg
    from dznpy.scoping import ns_ids_t
    ex = sh['extra']
    pinfo = world['port_info']
    prov_names = [i['name'] for i in pinfo if i['dir'] == 'provides']
    req_names = [i['name'] for i in pinfo if i['dir'] == 'requires' and not i['injected']]

    def select(kind, names):
        if kind in ('ALL', 'NONE', 'REMAINING'):
            return PortSelect(PortWildcard[kind])
        if kind == 'SETX':
            return PortSelect({N('not_a_port', 'notAPort')})
        return PortSelect({names[int(c)] for c in kind[3:]})
    pk = {'ALL_MTS': ('NONE', 'ALL'), 'ALL_STS': ('ALL', 'NONE')}[sh['prov']]
    provides = PortsSemanticsCfg(select(pk[0], prov_names), select(pk[1], prov_names))
    requires = PortsSemanticsCfg(select(sh['req'][0], req_names), select(sh['req'][1], req_names))
    mc, mcd = None, None
    if sh['mc'] is not None:
        if sh['mc'] == 'missing':
            mport, info = N('no_such_port', 'noSuchPort'), world['itf_info'][0]
        else:
            mport, info = pinfo[sh['mc']]['name'], world['itf_info'][pinfo[sh['mc']]['itf']]
        claim, release, reply = info['ev_names'][0], info['ev_names'][1], info['enum_fields'][0]
        if ex.get('mc_claim') == 'missing':
            claim = N('no_such_event', 'NoSuchEvent')
        if ex.get('mc_claim') == 'event1':
            claim = info['ev_names'][1]
        if ex.get('mc_release') == 'missing':
            release = N('no_such_release', 'NoSuchRelease')
        if ex.get('mc_reply') == 'missing':
            reply = N('no_such_field', 'NoSuchField')
        mc = MultiClientPortCfg(mport, claim, ns_ids_t(reply), release)
        mcd = {'claim': claim, 'release': release, 'reply_fqn': info['ns'] + [info['enum_sym'], reply]}
    enc = list(world['enc_fqn'])
    if ex.get('encapsulee') == 'missing':
        enc = [N('no_such_component', 'NoSuchComponent')]
    if ex.get('encapsulee') == 'interface':
        enc = list(world['itf_info'][0]['fqn'])
    filename = N('dezyne_filename', 'dir/Model.dzn')
    if not ex.get('empty_shell_name') and not os.path.splitext(os.path.basename(filename))[0]:
        return None, None, None         # precondition of the other shapes: non-empty shell name
    if ex.get('empty_shell_name'):
        filename = N('dezyne_filename', '')
        if os.path.splitext(os.path.basename(filename))[0] or N.given.get('suffix'):
            return None, None, None     # outside the shape's precondition (the shell name must be empty here)
    suffix = N('suffix', 'AdvShell' if not ex.get('empty_shell_name') else '')
    prefix = [N(f'prefix{i}', f'Pre{i}') for i, _ in enumerate(sh['prefix'])] if sh['prefix'] else None
    cfg = M.configuration(fct, '.'.join(enc), PortsCfg(provides, requires, mc),
                          facilities='create' if sh['fac'] == 'CREATE' else 'import', filename=filename, suffix=suffix,
                          copyright_text=N('copyright', 'Copyright (c) X\nAll rights'), prefix='.'.join(prefix) if prefix else None,
                          creator=N('creator_info', 'made by\n\n me') if sh['creator'] else None)
    return cfg, mcd, prefix or []


def semantics(sh, port_info, pi):
    info = port_info[pi]
    if info['dir'] == 'provides':
        return 'MTS' if sh['prov'] == 'ALL_MTS' else 'STS'
    req_idx = [k for k, i in enumerate(port_info) if i['dir'] == 'requires' and not i['injected']].index(pi)
    sts, mts = sh['req']
    if sts.startswith('SET') and str(req_idx) in sts[3:]:
        return 'STS'
    if mts.startswith('SET') and str(req_idx) in mts[3:]:
        return 'MTS'
    if sts in ('ALL', 'REMAINING'):
        return 'STS'
    if mts in ('ALL', 'REMAINING'):
        return 'MTS'
    return 'UNCOVERED'


def norm(line):
    return re.sub(r'\s+', ' ', line).strip()


def code_lines(text):
    return [norm(x) for x in text.splitlines() if x.strip() and not x.strip().startswith('//')]


def statements(lines):
    res, cur = [], None
    for ln in lines:
        if cur is not None:
            cur.append(ln)
            if ln == '};':
                res.append(cur)
                cur = None
            continue
        if ln.endswith('{') and '= [&' in ln:
            cur = [ln]
        else:
            res.append([ln])
    if cur is not None:
        res.append(cur)
    return res


def touches(stmt):
    s = ' '.join(stmt)
    return '.in.' in s or '.out.' in s


def multiset_diff(got, want):
    got = [tuple(norm(l) for l in s) for s in got]
    want = [tuple(norm(l) for l in s) for s in want]
    missing = []
    for w in want:
        if w in got:
            got.remove(w)
        else:
            missing.append(w)
    return missing, got


def check_one(inp):
    sh = SHAPES.get(inp['shape'])
    if sh is None:
        raise SystemExit(2)
    prop = inp.get('property', 'C01')
    N = Names(inp.get('names'))
    world = build_world(sh, N)
    # model validity: the names must respect the distinctness assumptions of the symbolic world, otherwise the
    # input is outside the contract's precondition
    idents = [v for k, v in N.used.items() if not k.endswith('_value')]
    if any(not re.fullmatch(r'[a-zA-Z_][a-zA-Z0-9_]*', v) for v in idents):
        return
    try:
        fct = M.parse(world['doc'])
    except Exception as e:   # noqa
        return               # not a valid model (e.g. duplicate names merged differently): outside the precondition
    cfg, mcd, prefix = build_cfg(sh, N, world, fct)
    if cfg is None:
        return
    fct_before = copy.deepcopy(fct)
    cfg_repr_before = repr((cfg.dezyne_filename, cfg.output_basename_suffix, cfg.fqn_encapsulee_name, cfg.ports_cfg,
                            cfg.facilities_origin, cfg.copyright, cfg.support_files_ns_prefix, cfg.creator_info))
    from dznpy.adv_shell import Builder
    exp = sh['expect']
    try:
        result = Builder().build(cfg)
        outcome = 'ok'
    except Exception as e:   # noqa
        result, outcome = e, type(e).__name__
        mro = [c.__name__ for c in type(e).__mro__]
    if outcome != 'ok':
        if exp == 'ok':
            fail(f'valid model/configuration rejected with {outcome}: {result}')
        if outcome not in LIB_ERRORS:
            fail(f'internal error {outcome} ({result!r}) instead of the library error {exp}')
        if exp not in mro:
            fail(f'rejected with {outcome}, specification says {exp}')
        return
    if exp != 'ok':
        fail(f'invalid model/configuration ({sh["name"]}) accepted; {exp} expected')
    if fct != fct_before:
        fail('the parsed model was modified by the build')
    if cfg_repr_before != repr((cfg.dezyne_filename, cfg.output_basename_suffix, cfg.fqn_encapsulee_name, cfg.ports_cfg,
                                cfg.facilities_origin, cfg.copyright, cfg.support_files_ns_prefix, cfg.creator_info)):
        fail('the configuration was modified by the build')
    files = result.files
    if len(files) != 8:
        fail(f'{len(files)} files instead of 8')
    shell = os.path.splitext(os.path.basename(cfg.dezyne_filename))[0] + cfg.output_basename_suffix
    ports = []
    for pi, info in enumerate(world['port_info']):
        if info['injected']:
            continue
        ports.append({'name': info['name'], 'dir': info['dir'], 'sem': semantics(sh, world['port_info'], pi),
                      'itf': info['itf'], 'mc': sh['mc'] == pi})
    itfs = []
    for ii, info in enumerate(world['itf_info']):
        evs = []
        for ei, e in enumerate(info['events']):
            fs = [{'name': N.used[f'itf{ii}_ev{ei}_arg{fi}'], 'dir': fdir, 'type': info['ext_val']}
                  for fi, fdir in enumerate(e['formals'])]
            evs.append({'name': info['ev_names'][ei], 'dir': e['dir'], 'formals': fs})
        itfs.append({'fqn': info['fqn'], 'events': evs})
    d = {'ports': ports, 'itfs': itfs, 'mc': mcd, 'fac': sh['fac'], 'shell': shell, 'sf_ns': list(prefix) + ['Dzn']}
    hh, cc = files[0].contents, files[1].contents
    if files[0].filename != shell + '.hh' or files[1].filename != shell + '.cc':
        fail(f'file names {files[0].filename}, {files[1].filename}')
    # ---- second build in the same process: equal results (C12 / C08)
    again = Builder().build(cfg)
    if [(f.filename, f.contents) for f in again.files] != [(f.filename, f.contents) for f in files]:
        fail('a second build with the same inputs in the same process yields different files')
    if prop in ('C08',) and not os.environ.get('REPLAY_CHILD'):
        # the same input in fresh interpreters with different hash seeds must give byte-identical files
        outs = []
        for seed in ('0', '1', '2', '7'):
            env = dict(os.environ, PYTHONHASHSEED=seed, REPLAY_CHILD='1')
            pr = subprocess.run([sys.executable, __file__, '-'], input=json.dumps(dict(inp, dump=True)),
                                capture_output=True, text=True, env=env)
            outs.append(pr.stdout[pr.stdout.find('DUMP:'):])
        if len(set(outs)) != 1:
            fail('file contents / hashes differ between interpreter hash seeds')
    if inp.get('dump'):
        print('DUMP:' + json.dumps([(f.filename, f.hash, f.contents) for f in files]))
    if prop in ('C08',):
        for f in files:
            if f.hash != hashlib.md5(f.contents.encode('utf-8')).hexdigest():
                fail(f'hash of {f.filename} is not the MD5 of its UTF-8 contents')
    if prop in ('C12', 'C08'):
        from dznpy.support_files import strict_port, ilog, misc_utils, meta_helpers, multi_client_selector, \
            mutex_wrapped
        for i, m in enumerate((strict_port, ilog, misc_utils, meta_helpers, multi_client_selector, mutex_wrapped)):
            alone = m.create_header(cfg.support_files_ns_prefix)
            if (alone.filename, alone.contents) != (files[i + 2].filename, files[i + 2].contents):
                fail(f'support file {files[i + 2].filename} differs from its stand-alone generation')
    src_lines = code_lines(cc)
    hdr_lines = code_lines(hh)
    if prop in ('C01', 'C02', 'C04', 'C07', 'C10'):
        got = [s for s in statements(src_lines) if touches(s) and not any('port.in.' in l or l.startswith('auto port(')
                                                                          for l in s)]
        want = W.constructor_statements(A, d)
        missing, extra = multiset_diff(got, want)
        if missing or extra:
            fail(f'constructor routing statements: MISSING {missing[:2]} UNEXPECTED {extra[:2]}')
        for x in W.member_init_ports(A, d):
            if norm(x) not in [norm(l).lstrip(':, ').strip() for l in cc.splitlines()]:
                fail(f'member initialiser missing: {x}')
    if prop in ('C02', 'C07', 'C03'):
        for p in ports:
            name, rtype, params, body, member = W.accessor(A, d, p)
            decl = norm(f'{rtype} {name}({params});')
            if decl not in hdr_lines:
                fail(f'accessor declaration missing: {decl}')
            if norm(body) not in src_lines:
                fail(f'accessor body missing: {body}')
            if member is not None and norm(member) not in hdr_lines:
                fail(f'boundary member missing: {member}')
            if member is None and any(l.endswith(W.boundary(A, p) + ';') for l in hdr_lines):
                fail(f'single-threaded port {p["name"]} got a boundary member')
        exposed = [p['name'] for p in ports]
        for info in world['port_info']:
            if info['injected'] and any(f'm_encapsulee.{info["name"]}' in l for l in src_lines):
                fail(f'injected port {info["name"]} is exposed')
    if prop in ('C04', 'C07') and d['mc'] is not None:
        for p in ports:
            if not p['mc']:
                continue
            want = [norm(x) for x in W.initialize_port_body(A, d, p)]
            # locate the body in the source
            head = want[0]
            if head not in src_lines:
                fail(f'InitializePort body: missing {head}')
            i = src_lines.index(head)
            got = src_lines[i:i + len(want)]
            if got != want:
                k = next(j for j in range(len(want)) if j >= len(got) or got[j] != want[j])
                fail(f'InitializePort body line {k}: {got[k] if k < len(got) else None!r} instead of {want[k]!r}')
    if prop == 'C10':
        want = [norm(x) for x in W.final_construct_lines(A, d)]
        sig = [l for l in src_lines if '::FinalConstruct(' in l]
        if not sig:
            fail('FinalConstruct definition missing')
        i = src_lines.index(sig[0])
        body = src_lines[i + 2:i + 2 + len(want) + 1]
        if body[:len(want)] != want or body[len(want)] != '}':
            fail(f'FinalConstruct body {body} instead of {want}')
    if prop == 'C09':
        want = W.facilities(A, d)
        for x in want['members']:
            if norm(x) not in hdr_lines:
                fail(f'facility member missing: {x}')
        pos = [hdr_lines.index(norm(x)) for x in want['members']]
        enc_line = norm('::' + '::'.join(world['enc_fqn']) + ' m_encapsulee;')
        if enc_line not in hdr_lines or pos != sorted(pos) or max(pos) > hdr_lines.index(enc_line):
            fail('declaration order: facilities must precede the wrapped component')
        others = [l for l in hdr_lines if re.match(r'dzn::(pump|runtime|locator)&? m_', l) and l not in
                  [norm(x) for x in want['members']]]
        if others:
            fail(f'unexpected facility members {others}')
        mil = [norm(l).lstrip(':, ').strip() for l in cc.splitlines()]
        for x in want['init']:
            if norm(x) not in mil:
                fail(f'facility initialiser missing: {x}')
        if (want['accessor'] is None) != (not any('Locator()' in l for l in hdr_lines)):
            fail('locator accessor presence does not follow the configured origin')
        for x in want['check']:
            if norm(x) not in src_lines:
                fail(f'FacilitiesCheck line missing: {x}')
        other_checks = [l for l in src_lines if 'try_get<' in l and l not in [norm(x) for x in want['check']]]
        if other_checks:
            fail(f'unexpected facility checks {other_checks}')
    if prop == 'C19':
        for alt_c, alt_i in (('other\ncopy\r\nright\x0btext', 'x'), ('c', 'other info\n\n  z')):
            cfg2 = copy.copy(cfg)
            cfg2.copyright = alt_c
            if cfg.creator_info is not None:
                cfg2.creator_info = alt_i
            r2 = Builder().build(cfg2)
            for f1, f2 in zip(files[:2], r2.files[:2]):
                c1 = [l for l in f1.contents.splitlines() if not l.startswith('//')]
                c2 = [l for l in f2.contents.splitlines() if not l.startswith('//')]
                if c1 != c2:
                    fail(f'changing only copyright / creator text changed a non-comment line of {f1.filename}')


drive(check_one)
