"""Native replay for the parser properties (C05 C15 C16) on the document corpus of specs/docs.py."""
import copy
import json
import os
import re
import sys
import tempfile

sys.path.insert(0, os.path.dirname(os.path.abspath(__file__)))
import mkmodel  # noqa: E402

mkmodel.assert_tree()
from replay_common import fail, drive  # noqa: E402
from specs import docs as D  # noqa: E402
from dznpy.json_ast import DznJsonAst, DznJsonError  # noqa: E402
from dznpy.scoping import NamespaceIdsTypeError  # noqa: E402
from dznpy import ast  # noqa: E402


class Names:
    def __init__(self, given):
        self.given = dict(given or {})

    def __call__(self, key):
        if key in self.given and self.given[key] is not None:
            return self.given[key]
        if key in ('lo', 'hi'):
            return {'lo': 0, 'hi': 9}[key]
        return re.sub(r'[^A-Za-z0-9_]', '_', key)


def describe(fc):
    def sname(sn):
        return tuple(sn.value.items)

    def ports(ps):
        return tuple((p.name, sname(p.type_name), p.direction.name.lower(), p.injected.value) for p in ps.elements)

    def tree(t):
        res = ()
        while t.parent is not None:
            res = tuple(t.scope_name.items) + res
            t = t.parent
        return res
    out = {k: [] for k in D.KINDS}
    for k in D.KINDS:
        for x in getattr(fc, k):
            cn = type(x).__name__
            if cn in ('Import', 'Filename'):
                out[k].append((cn, x.name))
                continue
            fqn = tuple(x.fqn.items)
            if fqn != tree(x.parent_ns) + sname(x.name):
                fail(f'{cn} {fqn}: fqn disagrees with parent_ns / name')
            if cn == 'Extern':
                out[k].append((cn, fqn, x.value.value))
            elif cn == 'Enum':
                out[k].append((cn, fqn, tuple(x.fields.elements)))
            elif cn == 'SubInt':
                out[k].append((cn, fqn, x.range.from_int, x.range.to_int))
            elif cn == 'Interface':
                out[k].append((cn, fqn, tuple(
                    (e.name, e.direction.name.lower(), sname(e.signature.type_name),
                     tuple((f.name, sname(f.type_name), {'IN': 'in', 'OUT': 'out', 'INOUT': 'inout'}[f.direction.name])
                           for f in e.signature.formals.elements)) for e in x.events.elements)))
            elif cn in ('Component', 'Foreign'):
                out[k].append((cn, fqn, ports(x.ports)))
            else:
                out[k].append((cn, fqn, ports(x.ports), tuple((i.name, sname(i.type_name)) for i in x.instances.elements),
                               tuple(((b.left.port_name, b.left.instance_name), (b.right.port_name, b.right.instance_name))
                                     for b in x.bindings.elements)))
    return {k: tuple(v) for k, v in out.items()}


def apply_mutation(doc, mut):
    """mut: {'path': [keys/indices], 'op': 'delete'|'set', 'value': json}"""
    node = doc
    for k in mut['path'][:-1]:
        node = node[k]
    last = mut['path'][-1]
    if mut['op'] == 'delete':
        del node[last]
    else:
        node[last] = mut['value']
    return doc


def check_one(inp):
    docs = D.documents()
    if inp['doc'] not in docs:
        raise SystemExit(2)
    N = Names(inp.get('names'))
    prop = inp.get('property', 'C05')
    nodes = docs[inp['doc']]
    doc = D.to_json(nodes, N)
    if any(not re.fullmatch(r'[a-zA-Z_][a-zA-Z0-9_]*', str(v)) for k, v in (inp.get('names') or {}).items()
           if v is not None and k not in ('lo', 'hi', 'xval', 'v', 'v1', 'v2', 'v3', 'a', 'b', 'wd', 'imp', 'fn', 'ucls')
           and not inp.get('mutation')):
        return      # outside the well-formedness precondition of C05/C16
    if inp.get('mutation'):
        try:
            apply_mutation(doc, inp['mutation'])
        except Exception:
            return
    text = json.dumps(doc)
    before = copy.deepcopy(doc)
    try:
        p1 = DznJsonAst(text)
        r1 = p1.process()
    except (DznJsonError, NamespaceIdsTypeError) as e:
        if not inp.get('mutation'):
            fail(f'well-formed document rejected: {type(e).__name__}: {e}')
        if inp.get('must_accept'):
            fail(f'document must be accepted but was rejected: {e}')
        return
    except RecursionError:
        return
    except Exception as e:   # noqa
        fail(f'internal exception {type(e).__name__}: {e}')
    if inp.get('must_reject'):
        fail('document must be refused (out event with a reply value / out parameter) but was accepted')
    if inp.get('mutation'):
        return
    got = describe(r1)
    want = {k: tuple(v) for k, v in D.expected(nodes, N).items()}
    for k in D.KINDS:
        if got[k] != want[k]:
            fail(f'FileContents.{k}: {got[k]!r} instead of {want[k]!r}')
    # C16: processing again, and other parsers in between, do not change the result
    other = DznJsonAst(json.dumps(D.to_json(docs['flat-all-kinds'], Names({}))))
    other.process()
    snapshot = copy.deepcopy(r1)
    r2 = p1.process()
    other.process()
    if describe(r2) != got:
        fail('processing the same document again yields a different result')
    if r1 != snapshot:
        fail('the result of the first processing changed afterwards')
    if p1.ast != before:
        fail('the loaded document was modified by processing')
    fresh = DznJsonAst(text).process()
    if describe(fresh) != got:
        fail('a fresh parser yields a different result for the same document')
    # load_file: the same path loaded again after the file changed must show the new contents
    with tempfile.TemporaryDirectory() as td:
        fp = os.path.join(td, 'm.json')
        open(fp, 'w').write(text)
        a = describe(DznJsonAst().load_file(fp).process())
        open(fp, 'w').write(json.dumps(D.to_json(docs['empty'], N)))
        b = describe(DznJsonAst().load_file(fp).process())
        if a != got or any(b[k] for k in D.KINDS):
            fail('load_file does not reflect the current contents of the file')


drive(check_one)
