"""Build Dezyne JSON-AST documents and run the real parser / builder on them.

Used by replay, seeded-change demonstrations and the encoding cross-check. Runs under
/venv/bin/python with PYTHONPATH=<tree>/src; refuses to run against the dznpy wheel.
"""
import json
import os
import sys


def assert_tree(expected_root=None):
    """The dznpy wheel in /venv shadows <tree>/src unless PYTHONPATH is set first."""
    import dznpy
    root = expected_root or os.environ.get('DZNPY_TREE', '/repo')
    want = os.path.realpath(os.path.join(root, 'src'))
    got = os.path.realpath(dznpy.__file__)
    if not got.startswith(want):
        sys.stderr.write(f'refusing to run: dznpy imported from {got}, expected under {want}\n')
        sys.exit(3)


def scope_name(name):
    ids = name if isinstance(name, list) else name.split('.')
    return {'<class>': 'scope_name', 'ids': ids}


def formal(name, type_name, direction='in'):
    return {'<class>': 'formal', 'name': name, 'type_name': scope_name(type_name),
            'direction': direction}


def event(name, direction='in', type_name='void', formals=()):
    return {'<class>': 'event', 'name': name, 'direction': direction,
            'signature': {'<class>': 'signature', 'type_name': scope_name(type_name),
                          'formals': {'<class>': 'formals', 'elements': list(formals)}}}


def enum(name, fields):
    return {'<class>': 'enum', 'name': scope_name(name),
            'fields': {'<class>': 'fields', 'elements': list(fields)}}


def subint(name, lo, hi):
    return {'<class>': 'subint', 'name': scope_name(name),
            'range': {'<class>': 'range', 'from': lo, 'to': hi}}


def extern(name, value):
    return {'<class>': 'extern', 'name': scope_name(name),
            'value': {'<class>': 'data', 'value': value}}


def interface(name, events=(), types=()):
    return {'<class>': 'interface', 'name': scope_name(name),
            'types': {'<class>': 'types', 'elements': list(types)},
            'events': {'<class>': 'events', 'elements': list(events)}}


def port(name, type_name, direction='provides', injected=False):
    res = {'<class>': 'port', 'name': name, 'type_name': scope_name(type_name),
           'direction': direction, 'formals': {'<class>': 'formals', 'elements': []}}
    if injected:
        res['injected?'] = 'injected'
    return res


def component(name, ports=()):
    return {'<class>': 'component', 'name': scope_name(name),
            'ports': {'<class>': 'ports', 'elements': list(ports)}}


def system(name, ports=(), instances=(), bindings=()):
    return {'<class>': 'system', 'name': scope_name(name),
            'ports': {'<class>': 'ports', 'elements': list(ports)},
            'instances': {'<class>': 'instances', 'elements': list(instances)},
            'bindings': {'<class>': 'bindings', 'elements': list(bindings)}}


def namespace(name, elements=()):
    return {'<class>': 'namespace', 'name': scope_name(name), 'elements': list(elements)}


def root(elements=(), working_dir='/w'):
    return {'<class>': 'root', 'elements': list(elements), 'working-directory': working_dir}


def parse(doc):
    """Parse a JSON-AST document (dict) with the real parser of the tree under test."""
    from dznpy.json_ast import DznJsonAst
    return DznJsonAst(json.dumps(doc)).process()


def configuration(fct, encapsulee, ports_cfg, facilities='create', filename='Model.dzn',
                  suffix='AdvShell', copyright_text='Copyright X', prefix=None, creator=None):
    from dznpy.adv_shell.common import Configuration, FacilitiesOrigin
    from dznpy.scoping import ns_ids_t
    origin = FacilitiesOrigin.CREATE if facilities == 'create' else FacilitiesOrigin.IMPORT
    return Configuration(dezyne_filename=filename, ast_fc=fct, output_basename_suffix=suffix,
                         fqn_encapsulee_name=ns_ids_t(encapsulee), ports_cfg=ports_cfg,
                         facilities_origin=origin, copyright=copyright_text,
                         support_files_ns_prefix=ns_ids_t(prefix) if prefix else None,
                         creator_info=creator)


def build(cfg):
    from dznpy.adv_shell import Builder
    return Builder().build(cfg)
