"""Native replay for the text-level properties C17 / C19 / C20 (bounded corpus)."""
import copy
import os
import sys

sys.path.insert(0, os.path.dirname(os.path.abspath(__file__)))
import mkmodel  # noqa: E402

mkmodel.assert_tree()
from replay_common import fail, drive  # noqa: E402
from dznpy.text_gen import TextBlock, chunk  # noqa: E402
from dznpy.misc_utils import flatten_to_strlist, trim_list  # noqa: E402
from dznpy import cpp_gen  # noqa: E402
from specs import text as S  # noqa: E402


def check_one(inp):
    fn = inp['function']
    if fn == 'Comment':
        c = cpp_gen.Comment(inp['text'])
        before = (list(c.lines), list(c._header), copy.deepcopy(c._indentizer))
        out = str(c)
        if out != S.comment_text(before[0]):
            fail(f'comment rendering {out!r} instead of {S.comment_text(before[0])!r}')
        for ln in out.splitlines():
            if not ln.startswith('//'):
                fail(f'rendered comment line without // prefix: {ln!r}')
        if '\n'.join(out.splitlines()) + ('\n' if out else '') != out:
            fail('rendered comment contains a line boundary other than \\n')
        if (list(c.lines), list(c._header), c._indentizer) != before:
            fail('rendering modified the comment object')
        c += 'more'
        if not isinstance(c, cpp_gen.Comment) or not all(x.startswith('//') for x in str(c).splitlines()):
            fail('a comment extended after rendering no longer renders as a comment')
    elif fn == 'TextBlock':
        content = inp['content']
        tb = TextBlock(content)
        if tb.lines != S.lines_of(content):
            fail(f'TextBlock lines {tb.lines!r} instead of {S.lines_of(content)!r}')
        if any(len(x.splitlines()) > 1 or (x and x.splitlines()[0] != x) for x in tb.lines):
            fail('a stored line contains a line boundary')
        if str(tb) != S.text_of([], tb.lines):
            fail('string form')
        if tb.lines and TextBlock(str(tb)).lines != tb.lines:
            fail('round trip')
        if flatten_to_strlist(content) != S.flat(content, True) or \
                flatten_to_strlist(content, False) != S.flat(content, False):
            fail('flatten_to_strlist')
        c = chunk(content)
        want = S.chunk_lines(content, '\n')
        if (c is None) != (want is None) or (c is not None and c.lines != want):
            fail('chunk')
        tb2 = TextBlock(['pre'])
        tb2 += content
        if tb2.lines != ['pre'] + S.lines_of(content):
            fail('appending is not concatenation')
    elif fn == 'trim_list':
        if trim_list(list(inp['list']), inp['end_only']) != S.trimmed(list(inp['list']), inp['end_only']):
            fail('trim_list')
    else:
        raise SystemExit(2)


drive(check_one)
