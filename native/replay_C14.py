"""Native replay for C14: real scoping / ast_view functions against the ghost specification specs/scoping.py."""
import copy
import os
import sys

sys.path.insert(0, os.path.dirname(os.path.abspath(__file__)))
import mkmodel  # noqa: E402

mkmodel.assert_tree()
from replay_common import fail, drive  # noqa: E402
from dznpy import scoping, ast_view  # noqa: E402
from dznpy.scoping import NamespaceIds, NamespaceIdsTypeError, namespaceids_t, scope_resolution_order  # noqa: E402
from specs import scoping as S  # noqa: E402
import re  # noqa: E402

IDENT = re.compile(r'[a-zA-Z_][a-zA-Z0-9_]*\Z')


def valid(ids):
    return all(isinstance(x, str) and IDENT.match(x) for x in ids)


def raw_ns(items):
    o = object.__new__(NamespaceIds)
    object.__setattr__(o, 'items', list(items))
    return o


def mk_fct(decls):
    """decls: list of [kind, fqn-list]; built through the real parser"""
    tree = {}
    elements = []
    for kind, fqn in decls:
        node = None
        name = fqn[-1]
        if kind == 'interface':
            node = mkmodel.interface(name)
        elif kind == 'component':
            node = mkmodel.component(name)
        elif kind == 'enum':
            node = mkmodel.enum(name, ['A'])
        elif kind == 'extern':
            node = mkmodel.extern(name, 'int')
        elif kind == 'subint':
            node = mkmodel.subint(name, 0, 1)
        elif kind == 'system':
            node = mkmodel.system(name)
        else:
            node = {'<class>': 'foreign', 'name': mkmodel.scope_name(name),
                    'ports': {'<class>': 'ports', 'elements': []}}
        for ns in reversed(fqn[:-1]):
            node = mkmodel.namespace(ns, [node])
        elements.append(node)
    elements.append({'<class>': 'import', 'name': 'x.dzn'})
    elements.append({'<class>': 'file-name', 'name': 'y.dzn'})
    return mkmodel.parse(mkmodel.root(elements))


def check_one(inp):
    fn = inp['function']
    if fn == 'NamespaceIds':
        items = inp['items']
        try:
            NamespaceIds(items=list(items))
            ok = True
        except NamespaceIdsTypeError:
            ok = False
        if ok != bool(valid(items)):
            fail(f'NamespaceIds({items!r}) accepted={ok}, all items identifiers={valid(items)}')
    elif fn == 'namespaceids_t':
        ids = inp['ids']
        if not valid(ids):
            return
        if inp['kind'] == 'list':
            got = namespaceids_t(list(ids)).items
        elif inp['kind'] == 'single':
            got = namespaceids_t(ids[0]).items
        else:
            got = namespaceids_t(inp['sep'].join(ids)).items
        if list(got) != list(ids):
            fail(f'namespaceids_t notation {inp["kind"]} {inp.get("sep")!r}: {got!r} instead of {ids!r}')
    elif fn == 'scope_resolution_order':
        name, scope = inp['name'], inp['scope']
        if not valid(name) or (scope is not None and not valid(scope)):
            return
        reps = inp.get('repeat', 1)
        for _ in range(reps):
            n_obj = raw_ns(name)
            s_obj = raw_ns(scope) if scope is not None else None
            before = copy.deepcopy((n_obj.items, s_obj.items if s_obj else None))
            got = [list(x.items) for x in scope_resolution_order(n_obj, s_obj)]
            want = [list(c) for c in S.chain(list(name), list(scope or []))]
            if got != want:
                fail(f'resolution order {got!r}, specification {want!r}')
            if before != (n_obj.items, s_obj.items if s_obj else None):
                fail('scope_resolution_order modified its arguments')
            for pre in inp.get('interleave', []):
                scope_resolution_order(raw_ns(pre[0]), raw_ns(pre[1]))
    elif fn in ('find_fqn', 'find_any'):
        fct = mk_fct(inp['decls'])
        for pre in inp.get('interleave', []):
            ast_view.find_fqn(fct, raw_ns(pre[0]), raw_ns(pre[1]))
        if fn == 'find_fqn':
            scope = inp['scope']
            got = ast_view.find_fqn(fct, raw_ns(inp['name']), raw_ns(scope) if scope is not None else None).items
            want = S.lookup(fct, list(inp['name']), list(scope or []))
        else:
            got = ast_view.find_any(fct, raw_ns(inp['tail'])).items
            want = S.suffix_search(fct, list(inp['tail']))
        if [id(x) for x in got] != [id(x) for x in want]:
            fail(f'{fn}: found {[str(x.fqn) for x in got]}, specification {[str(x.fqn) for x in want]}')
    else:
        raise SystemExit(2)


drive(check_one)
