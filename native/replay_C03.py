"""Native replay of a C03 counterexample: runs the REAL functions of the tree under test and evaluates
the ghost specification (specs/port_selection.py) in CPython.  exit 1 = violation reproduced, 0 = not reproduced."""
import json
import os
import sys

sys.path.insert(0, os.path.dirname(os.path.abspath(__file__)))
import mkmodel  # noqa: E402

mkmodel.assert_tree()
from dznpy.adv_shell.port_selection import PortSelect, PortsSemanticsCfg, PortsCfg, PortWildcard  # noqa: E402
from dznpy.adv_shell.types import AdvShellError  # noqa: E402
from specs import port_selection as S  # noqa: E402


def val(v):
    return set(v) if isinstance(v, list) else PortWildcard[v]


class Raw:
    """objects for spec evaluation that do not run the real validation"""
    def __init__(self, **kw):
        self.__dict__.update(kw)


def raw_side(sts, mts):
    return Raw(sts=Raw(value=val(sts)), mts=Raw(value=val(mts)))


def outcome(f):
    try:
        return ('return', f())
    except Exception as e:   # noqa
        return ('raise', e)


from replay_common import fail, drive  # noqa: E402


def main(inp):
    fn = inp['function']
    if fn == 'PortSelect.__post_init__':
        k, r = outcome(lambda: PortSelect(val(inp['value'])))
        ok = S.inv_port_select(Raw(value=val(inp['value'])))
        print('outcome:', k, repr(r))
        if k == 'raise' and not isinstance(r, AdvShellError):
            fail(f'raised {type(r).__name__}')
        if (k == 'return') != bool(ok):
            fail(f'accepted={k == "return"} but inv_port_select={ok}')
    elif fn == 'PortsSemanticsCfg.__post_init__':
        k, r = outcome(lambda: PortsSemanticsCfg(PortSelect(val(inp['sts'])), PortSelect(val(inp['mts']))))
        side = raw_side(inp['sts'], inp['mts'])
        must = S.must_reject_side(side.sts, side.mts)
        print('outcome:', k, repr(r), 'must_reject:', must)
        if k == 'raise' and not isinstance(r, AdvShellError):
            fail(f'raised {type(r).__name__}')
        if k == 'return' and must:
            fail('configuration accepted although a port would get two semantics / all-combination')
        if k == 'raise' and not must and not (S.is_none(side.sts) and S.is_none(side.mts)):
            fail('valid configuration rejected')
    elif fn == 'PortsSemanticsCfg.match':
        cfg = object.__new__(PortsSemanticsCfg)
        object.__setattr__(cfg, 'sts', _mk_select(inp['sts']))
        object.__setattr__(cfg, 'mts', _mk_select(inp['mts']))
        expected = set(inp['expected'])
        k, r = outcome(lambda: cfg.match(expected, inp.get('label', 'x')))
        side = raw_side(inp['sts'], inp['mts'])
        named = S.names(side.sts) | S.names(side.mts)
        print('outcome:', k, repr(r))
        if k == 'raise':
            if not isinstance(r, AdvShellError):
                fail(f'raised {type(r).__name__}')
            if named <= expected:
                fail('rejected although every configured name is an expected port')
        else:
            if not named <= expected:
                fail('accepted although a configured name is not an expected port')
            for p in sorted(expected | named | {'zz_other'}):
                want = p in expected and S.covered(side, p)
                if (p in r) != bool(want):
                    fail(f'port {p!r}: in result={p in r}, specification says {want}')
                if p in r and r[p] != S.sem(side, p):
                    fail(f'port {p!r}: result {r[p]}, specification says {S.sem(side, p)}')
    elif fn == 'PortsCfg.__post_init__':
        prov = object.__new__(PortsSemanticsCfg)
        object.__setattr__(prov, 'sts', _mk_select(inp['sts']))
        object.__setattr__(prov, 'mts', _mk_select(inp['mts']))
        req = PortsSemanticsCfg(PortSelect(PortWildcard.NONE), PortSelect(PortWildcard.ALL))
        k, r = outcome(lambda: PortsCfg(prov, req))
        mixed = S.mixed_provides(raw_side(inp['sts'], inp['mts']))
        print('outcome:', k, repr(r), 'mixed:', mixed)
        if k == 'raise' and not isinstance(r, AdvShellError):
            fail(f'raised {type(r).__name__}')
        if (k == 'raise') != bool(mixed):
            fail(f'rejected={k == "raise"} but mixed_provides={mixed}')
    elif fn == 'PortsCfg.match':
        cfg = object.__new__(PortsCfg)
        for side, key in (('provides', 'p'), ('requires', 'r')):
            s = object.__new__(PortsSemanticsCfg)
            object.__setattr__(s, 'sts', _mk_select(inp[key + 'sts']))
            object.__setattr__(s, 'mts', _mk_select(inp[key + 'mts']))
            object.__setattr__(cfg, side, s)
        object.__setattr__(cfg, 'multiclient', None)
        P, R = set(inp['provides_ports']), set(inp['requires_ports'])
        k, r = outcome(lambda: cfg.match(P, R))
        print('outcome:', k, repr(r))
        ps, rs = raw_side(inp['psts'], inp['pmts']), raw_side(inp['rsts'], inp['rmts'])
        if k == 'raise':
            if not isinstance(r, AdvShellError):
                fail(f'raised {type(r).__name__}')
            if (S.names(ps.sts) | S.names(ps.mts)) <= P and (S.names(rs.sts) | S.names(rs.mts)) <= R:
                fail('rejected although all configured names exist')
        else:
            for p in sorted(P | R | {'zz_other'}):
                want_p = p in P and S.covered(ps, p)
                want_r = p in R and S.covered(rs, p)
                if (p in r.value) != bool(want_p or want_r):
                    fail(f'port {p!r}: in result={p in r.value}, specification says {bool(want_p or want_r)}')
                if want_p and r.value[p] != S.sem(ps, p):
                    fail(f'provides port {p!r}: {r.value[p]} instead of {S.sem(ps, p)}')
                if want_r and r.value[p] != S.sem(rs, p):
                    fail(f'requires port {p!r}: {r.value[p]} instead of {S.sem(rs, p)}')
    else:
        raise SystemExit(2)


def _mk_select(v):
    s = object.__new__(PortSelect)
    object.__setattr__(s, 'value', val(v))
    return s


drive(main)
