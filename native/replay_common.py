"""Shared driver for native replay scripts.

argv[1] = JSON: either one input (dict) or {"search": [input, ...]}.
exit 1 + line 'FAILING-INPUT: <json>' when an input reproduces a violation on the real code,
exit 0 when none does, exit 2 on a harness problem."""
import json
import sys


class Reproduced(Exception):
    pass


def fail(msg):
    raise Reproduced(msg)


def drive(check_one):
    inp = json.loads(sys.stdin.read() if (len(sys.argv) < 2 or sys.argv[1] == '-') else sys.argv[1])
    inputs = inp['search'] if isinstance(inp, dict) and 'search' in inp else [inp]
    tried = 0
    for x in inputs:
        tried += 1
        try:
            check_one(x)
        except Reproduced as r:
            print('input:', json.dumps(x))
            print('VIOLATION REPRODUCED:', r)
            print('FAILING-INPUT: ' + json.dumps(x))
            sys.exit(1)
    print(f'not reproduced ({tried} input(s) tried)')
    sys.exit(0)
