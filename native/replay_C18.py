"""Native replay of a C18 counterexample against the real Indentizer / TextBlock and the ghost specification."""
import json
import os
import sys

sys.path.insert(0, os.path.dirname(os.path.abspath(__file__)))
import mkmodel  # noqa: E402

mkmodel.assert_tree()
sys.setrecursionlimit(3000)
from dznpy.text_gen import Indentizer, Indentor, BulletList, BulletListMode, TextBlock, all_dashes_t, \
    initial_dash_t  # noqa: E402
from specs import text_gen as S  # noqa: E402


from replay_common import fail, drive  # noqa: E402


def main(inp):
    fn = inp['function']
    if fn in ('all_dashes_t', 'initial_dash_t'):
        f = {'all_dashes_t': all_dashes_t, 'initial_dash_t': initial_dash_t}[fn]
        r = f(Indentor[inp['indentor']] if inp['indentor'] else None)
        want_mode = BulletListMode.ALL if fn == 'all_dashes_t' else BulletListMode.FIRST_ONLY
        if not (r.indentor == Indentor[inp['indentor'] or 'SPACES'] and r.spaces_count == 2 and
                r.bullet_list.glyph == '-' and r.bullet_list.mode == want_mode):
            fail(f'{fn} returned {r}')
        return
    bl = None if inp['mode'] is None else BulletList(mode=BulletListMode[inp['mode']], glyph=inp['glyph'])
    iz = Indentizer(indentor=Indentor[inp['indentor']], spaces_count=inp['spaces_count'], bullet_list=bl)
    lines = inp['lines']
    want = S.indent_lines(iz, lines)
    try:
        if fn == 'to_list':
            got = iz.to_list(list(lines))
            if got != want:
                fail(f'to_list -> {got!r}, specification -> {want!r}')
        elif fn == 'to_str':
            got = iz.to_str(list(lines))
            ws = '\n'.join(iz.to_list(list(lines))) + '\n'
            if got != ws:
                fail(f'to_str -> {got!r}, join of to_list -> {ws!r}')
        elif fn == 'TextBlock.indent':
            tb = TextBlock()
            tb._header = list(inp.get('header', []))
            tb._lines = list(lines)
            tb.indent(iz)
            if tb._header != list(inp.get('header', [])):
                fail(f'header changed to {tb._header!r}')
            if tb.lines != want:
                fail(f'indent -> {tb.lines!r}, specification -> {want!r}')
    except RecursionError as e:
        fail(f'RecursionError: {e}')


drive(main)
