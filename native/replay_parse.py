"""Native differential replay for the unbounded parser contracts (props/parse_unbounded.py): the plain-Python
specification specs/parse_spec.py against the real element parsers on a small corpus of well-formed elements.
input: {"function": "parse_ports"[, "case": n]}"""
import os
import sys

sys.path.insert(0, os.path.dirname(os.path.abspath(__file__)))
import mkmodel as M  # noqa: E402

M.assert_tree()
from replay_common import fail, drive  # noqa: E402
from dznpy import json_ast as J  # noqa: E402
from specs import parse_spec as S  # noqa: E402

SPEC = {'parse_scope_name': 'scope_name', 'parse_formal': 'formal', 'parse_formals': 'formals',
        'parse_signature': 'signature', 'parse_event': 'event_checked', 'parse_events': 'events', 'parse_port': 'port',
        'parse_ports': 'ports', 'parse_instance': 'instance', 'parse_instances': 'instances',
        'parse_endpoint': 'endpoint', 'parse_binding': 'binding', 'parse_bindings': 'bindings', 'parse_fields': 'fields',
        'parse_range': 'range_', 'parse_data': 'data', 'parse_namespace': 'namespace', 'parse_root': 'root',
        'parse_comment': 'comment', 'parse_import': 'import_', 'parse_filename': 'filename',
        'parse_enum': 'enum', 'parse_subint': 'subint', 'parse_extern': 'extern', 'parse_foreign': 'foreign',
        'parse_component': 'component', 'parse_system': 'system', 'parse_types': 'types', 'parse_interface': 'interface'}
WITH_PARENT = ('parse_enum', 'parse_subint', 'parse_extern', 'parse_foreign', 'parse_component', 'parse_system',
               'parse_types', 'parse_interface')


def lst(cls, elements):
    return {'<class>': cls, 'elements': list(elements)}


def corpus():
    sn = [M.scope_name('T'), M.scope_name('My.Sub.T'), M.scope_name(['_a1'])]
    fm = [M.formal('a', 'T', 'in'), M.formal('b', 'My.U', 'out'), M.formal('c', 'T', 'inout')]
    fms = [lst('formals', []), lst('formals', fm), lst('formals', fm[::-1] + fm), lst('formals', [fm[0], fm[2]])]
    sig = [{'<class>': 'signature', 'type_name': sn[k % 3], 'formals': f} for k, f in enumerate(fms)]
    ev = [M.event('E0', 'in'), M.event('E1', 'out', 'void', [fm[0], fm[2]]), M.event('E2', 'in', 'My.R', fm),
          M.event('E3', 'out'), M.event('E4', 'in', 'R', [fm[1]])]
    pt = [M.port('p', 'IA', 'provides'), M.port('r', 'My.IB', 'requires'), M.port('i', 'IC', 'requires', True)]
    pt[0]['formals'] = fms[1]
    ins = [{'<class>': 'instance', 'name': 'x', 'type_name': sn[0]}, {'<class>': 'instance', 'name': 'y', 'type_name': sn[1]}]
    ep = [{'<class>': 'end-point', 'port_name': 'p'}, {'<class>': 'end-point', 'port_name': 'q', 'instance_name': 'x'},
          {'<class>': 'end-point', 'port_name': 'r', 'instance_name': 'y'}]
    bd = [{'<class>': 'binding', 'left': a, 'right': b} for a in ep for b in ep if a is not b]
    en = [M.enum('R', ['Ok', 'No']), M.enum('My.E', [])]
    si = [M.subint('Level', 0, 3)]
    ex = [M.extern('T', 'int'), M.extern('U', 'std::string')]
    pts = [lst('ports', []), lst('ports', pt)]
    ty = [lst('types', []), lst('types', en + si + [{'<class>': 'other', 'name': sn[0]}] + en[::-1])]
    decl = {
        'parse_enum': en, 'parse_subint': si, 'parse_extern': ex,
        'parse_foreign': [{'<class>': 'foreign', 'name': sn[0], 'ports': p} for p in pts],
        'parse_component': [{'<class>': 'component', 'name': sn[k], 'ports': p} for k, p in enumerate(pts)],
        'parse_system': [{'<class>': 'system', 'name': sn[2], 'ports': pts[1], 'instances': lst('instances', ins),
                          'bindings': lst('bindings', bd[:3])}],
        'parse_types': ty,
        'parse_interface': [M.interface('I', ev, en + si), M.interface('My.J', [], [])],
        'parse_namespace': [M.namespace('N', []), M.namespace('A.B', ex + [7, 'x'])],
        'parse_root': [M.root(ex), dict(M.root([]), comment={'<class>': 'comment', 'string': 'hello'})],
        'parse_comment': [{'<class>': 'comment', 'string': 'c'}],
        'parse_import': [{'<class>': 'import', 'name': 'a.dzn'}],
        'parse_filename': [{'<class>': 'file-name', 'name': 'f.dzn'}],
    }
    return dict(decl, **{
        'parse_scope_name': sn, 'parse_formal': fm, 'parse_formals': fms, 'parse_signature': sig,
        # well-formed events and out events that break the out-event rule (reply value, out / inout parameter)
        'parse_event': ev + [M.event('B1', 'out', 'My.R'), M.event('B2', 'out', 'void', [fm[1]]),
                             M.event('B3', 'out', 'R', fm), M.event('B4', 'out', 'void', [fm[0], fm[1]]),
                             M.event('G1', 'out', 'void', [fm[2]])],
        'parse_events': [lst('events', []), lst('events', ev), lst('events', ev[::-1])],
        'parse_port': pt, 'parse_ports': [lst('ports', []), lst('ports', pt), lst('ports', pt[::-1] + pt[:1])],
        'parse_instance': ins, 'parse_instances': [lst('instances', []), lst('instances', ins + ins[::-1])],
        'parse_endpoint': ep, 'parse_binding': bd, 'parse_bindings': [lst('bindings', []), lst('bindings', bd)],
        'parse_fields': [lst('fields', []), lst('fields', ['Ok', 'No', 'Ok'])],
        'parse_range': [{'<class>': 'range', 'from': 0, 'to': 3}, {'<class>': 'range', 'from': -5, 'to': -5}],
        'parse_data': [{'<class>': 'data', 'value': 'int'}, {'<class>': 'data', 'value': ''}],
    })


def parents():
    from dznpy.scoping import NamespaceTree, ns_ids_t
    root = NamespaceTree()
    a = NamespaceTree(root, ns_ids_t('A'))
    return [root, a, NamespaceTree(a, ns_ids_t('B.C'))]


def documents():
    c = corpus()
    en, si, ex = c['parse_enum'], c['parse_subint'], c['parse_extern']
    itf, comp, sys_, frn = c['parse_interface'], c['parse_component'], c['parse_system'], c['parse_foreign']
    misc = [{'<class>': 'import', 'name': 'a.dzn'}, {'<class>': 'file-name', 'name': 'f.dzn'}, 7, 'text', None,
            {'<class>': 'weird', 'x': 1}]
    flat = en + si + ex + itf + comp + sys_ + frn + misc
    nested = [M.namespace('A', flat[:5] + [M.namespace('B.C', itf + si + [M.namespace('D', en)]), misc[0]]),
              itf[0], M.namespace('A', sys_ + comp), M.namespace('E', [])]
    return [M.root([]), M.root(flat), M.root(nested), M.root(nested[::-1] + flat),
            dict(M.root(misc), comment={'<class>': 'comment', 'string': 'c'})]


def check_documents(inp):
    import json
    for k, doc in enumerate(documents()):
        if inp.get('case') is not None and inp['case'] != k:
            continue
        fct = J.DznJsonAst(json.dumps(doc)).process()
        for kind in S.KINDS:
            got, want = getattr(fct, kind), S.document_decls(kind, doc)
            if got != want:
                fail(f'process() [document {k}]: FileContents.{kind} is\n{got!r}\nthe contract requires\n{want!r}')


JUNK = [None, True, 7, 0.5, 'x', '', [], {}, [None], ['a', 5], [['a']], {'<class>': 'weird'}, {'<class>': ['enum']},
        {'<class>': {'k': 1}}, {'<class>': None}, {'<class>': 3}]
DOCUMENTED = ('DznJsonError', 'NamespaceIdsTypeError')


def malformed(e):
    """the element itself, junk, and every single-point malformation of it (key deleted / value replaced by junk)"""
    import copy
    yield e
    for j in JUNK:
        yield j

    def walk(node, path):
        if isinstance(node, dict):
            for k in list(node):
                yield path + [k]
                yield from walk(node[k], path + [k])
        elif isinstance(node, list):
            for i, v in enumerate(node):
                yield path + [i]
                yield from walk(v, path + [i])
    for pth in list(walk(e, [])):
        for repl in ['<delete>'] + JUNK:
            c = copy.deepcopy(e)
            cur = c
            for k in pth[:-1]:
                cur = cur[k]
            if repl == '<delete>':
                if isinstance(cur, dict):
                    del cur[pth[-1]]
                else:
                    cur.pop(pth[-1])
            else:
                cur[pth[-1]] = copy.deepcopy(repl)
            yield c


def check_any(inp):
    """C15: the real parser function on junk and on malformations of its corpus: returns or documented error"""
    import json
    fn = inp['function'].rsplit('.', 1)[-1]
    if fn in ('parse_element', 'process'):
        seeds, call = documents(), (lambda d: J.DznJsonAst(json.dumps(d)).process())
    else:
        base = dict(corpus(), get_class_value=corpus()['parse_data'],
                    parse_port_injected_indication=corpus()['parse_port'])
        if fn not in base:
            print('no native corpus for', fn)
            raise SystemExit(2)
        seeds = base[fn]
        extra = (parents()[1],) if fn in WITH_PARENT else ()
        call = lambda d: getattr(J, fn)(d, *extra)
    import io
    import contextlib
    for k, seed in enumerate(seeds):
        for x in malformed(seed):
            try:
                with contextlib.redirect_stdout(io.StringIO()):
                    call(x)
            except Exception as ex:  # noqa
                if type(ex).__name__ not in DOCUMENTED:
                    fail(f'{fn} on {x!r}: internal error {type(ex).__name__}: {ex}')


def check_repeat(inp):
    """C16: processing again / after another document gives the declarations of the loaded document only"""
    import json
    docs = documents()
    for k, doc in enumerate(docs):
        parser = J.DznJsonAst(json.dumps(doc))
        parser.process()
        again = parser.process()
        other = J.DznJsonAst(json.dumps(docs[(k + 1) % len(docs)]))
        other.process()
        third = parser.process()
        for kind in S.KINDS:
            want = S.document_decls(kind, doc)
            for label, fct in (('second', again), ('third (after another parser ran)', third)):
                if getattr(fct, kind) != want:
                    fail(f'process() [document {k}], {label} call: FileContents.{kind} is\n{getattr(fct, kind)!r}\n'
                         f'the contract requires\n{want!r}')


def check_one(inp):
    fn = inp['function'].rsplit('.', 1)[-1]
    if inp.get('mode') == 'repeat':
        return check_repeat(inp)
    if inp.get('mode') == 'any':
        return check_any(inp)
    if fn in ('parse_element', 'process'):
        return check_documents(inp)
    if fn not in SPEC:
        print('no native corpus for', fn)
        raise SystemExit(2)
    for k, e in enumerate(corpus()[fn]):
        if inp.get('case') is not None and inp['case'] != k:
            continue
        for extra in ([(t,) for t in parents()] if fn in WITH_PARENT else [()]):
            outs = []
            for f in (getattr(J, fn), getattr(S, SPEC[fn])):
                try:
                    outs.append(('return', f(e, *extra)))
                except Exception as ex:  # noqa
                    outs.append(('raise', type(ex).__name__))
            if outs[0] != outs[1]:
                fail(f'{fn} [case {k}] on {e!r} {extra!r}: the real parser gives\n{outs[0]!r}\nthe contract requires\n'
                     f'{outs[1]!r}')


if __name__ == '__main__':
    drive(check_one)
