"""C18 - indentation shifts text without changing it.

Contracts:
  Indentizer.__post_init__ + to_list   requires spaces_count >= 0; in bullet modes glyph != '' and glyph[0] is not
                                       whitespace.  ensures to_list(lines) == specs.text_gen.indent_lines(self, lines)
                                       for EVERY list of strings (unbounded; per-line lemma lifted by comprehension
                                       extensionality)
  Indentizer.to_str                    ensures to_str(c) == '\\n'.join(to_list(c)) + '\\n';  decreases: none
  TextBlock.indent                     ensures lines == indent_lines(indentizer, old lines); header unchanged
  all_dashes_t / initial_dash_t        the documented configurations
"""
from __future__ import annotations

import z3

from pyvc import ops, ghostlib
from pyvc.harness import Ctx, refines, PROVED, zstr_value, eval_model
from pyvc.interp import EnumSym
from pyvc.path import Path
from pyvc.sorts import TypeDesc
from pyvc.values import ObjV, SeqV, SeqT, LitB, Unsupported

TG = 'dznpy.text_gen'


def seq_value(m, expr):
    """python list of strings of a z3 Seq(String) under model m"""
    n = eval_model(m, z3.Length(expr))
    n = n.as_long() if (n is not None and z3.is_int_value(n)) else 0
    return [zstr_value(m, expr[i]) or '' for i in range(min(n, 12))]


def int_value(m, e, default=0):
    v = eval_model(m, e)
    return v.as_long() if (v is not None and z3.is_int_value(v)) else default


def run(ctx: Ctx):
    I = ctx.interp
    ghostlib.install(I)
    tg = I.load_module(TG)
    spec = I.load_module('specs.text_gen')
    Indentizer, BulletList = tg.globals['Indentizer'], tg.globals['BulletList']
    Indentor, Mode = tg.globals['Indentor'], tg.globals['BulletListMode']
    ctx.trusted += ['z3 / cvc5 theory of strings and regular expressions',
                    'model of str.strip/rstrip (whitespace set of CPython), str.ljust, " " * n, str.join',
                    'engine rule: comprehension extensionality (equal bases, filters and per-element items)']
    ctx.assumptions += ['requires spaces_count >= 0 (a negative width is an invalid format specifier in CPython)',
                        'requires (bullet modes) glyph non-empty and not starting with whitespace',
                        'contents are taken as a flat list of strings; nesting is C17 (flatten_to_strlist)']
    I.nonrecursive.add(f'{TG}.Indentizer.to_str')
    I.nonrecursive.add(f'{TG}.Indentizer.to_list')

    cases = []
    for ind in ('SPACES', 'TAB'):
        for mode in (None, 'ALL', 'FIRST_ONLY'):
            cases.append((ind, mode))

    def mk_indentizer(p, ind, mode):
        n = z3.Int('in_spaces_count')
        p.assume(n >= 0)
        bl = None
        if mode is not None:
            g = z3.String('in_glyph')
            p.assume(z3.Length(g) > 0)
            p.assume(z3.Not(ops.ws_char(ops.first_char(g), p)))
            bl = I.call(BulletList, [], {'mode': Mode.members[mode], 'glyph': ops.mkstr([g])}, p)
        return I.call(Indentizer, [], {'indentor': Indentor.members[ind], 'spaces_count': n, 'bullet_list': bl}, p)

    def lines_value(p):
        L = z3.Const('in_lines', z3.SeqSort(z3.StringSort()))
        return SeqV(I.seq_of_base(L, TypeDesc('str'), p), frozen=True)

    def witness(ind, mode):
        def w(m, args):
            return {'function': 'to_list', 'indentor': ind, 'mode': mode,
                    'spaces_count': int_value(m, z3.Int('in_spaces_count'), 4),
                    'glyph': zstr_value(m, z3.String('in_glyph')) or '-',
                    'lines': seq_value(m, z3.Const('in_lines', z3.SeqSort(z3.StringSort())))}
        return w

    f_to_list = I.get_function(f'{TG}.Indentizer.to_list')
    f_to_str = I.get_function(f'{TG}.Indentizer.to_str')
    ctx.functions[f'{TG}.Indentizer.__post_init__'] = 'proved (executed as part of every to_list obligation)'
    ctx.functions[f'{TG}.Indentizer.to_list'] = 'proved'
    ctx.functions[f'{TG}.Indentizer.to_str'] = 'proved'
    ctx.functions['dznpy.misc_utils.flatten_to_strlist'] = 'inlined (argument statically a list of str)'

    for (ind, mode) in cases:
        tag = f'{ind},{mode}'

        def make_args(p, ind=ind, mode=mode):
            iz = mk_indentizer(p, ind, mode)
            lines = lines_value(p)
            return [iz, lines], [iz, lines]

        refines(ctx, f'text_gen.Indentizer.to_list[{tag}]', f'{TG}.Indentizer.to_list',
                lambda i, p, a, k: i.call_function(f_to_list, a, k, p),
                lambda i, p, a, k: i.call_function(spec.globals['indent_lines'], a, k, p),
                make_args, witness=witness(ind, mode),
                text='to_list(lines) == indent_lines(self, lines)')

        def w_str(m, args, ind=ind, mode=mode):
            d = witness(ind, mode)(m, args)
            d['function'] = 'to_str'
            return d

        refines(ctx, f'text_gen.Indentizer.to_str[{tag}]', f'{TG}.Indentizer.to_str',
                lambda i, p, a, k: i.call_function(f_to_str, a, k, p),
                lambda i, p, a, k: i.call_function(spec.globals['indent_str'], a, k, p),
                make_args, witness=w_str,
                text="to_str(c) == '\\n'.join(to_list(c)) + '\\n'")

    # ---- TextBlock.indent: header untouched, lines indented --------------------------------------------------
    TextBlock = tg.globals['TextBlock']
    f_indent = I.get_function(f'{TG}.TextBlock.indent')
    ctx.functions[f'{TG}.TextBlock.indent'] = 'proved'
    ctx.functions[f'{TG}.TextBlock.set_indentor'] = 'inlined'
    ctx.functions[f'{TG}.TextBlock.lines (setter)'] = 'inlined'
    for (ind, mode) in cases:
        tag = f'{ind},{mode}'

        def make_args_tb(p, ind=ind, mode=mode):
            iz = mk_indentizer(p, ind, mode)
            H = z3.Const('in_header', z3.SeqSort(z3.StringSort()))
            L = z3.Const('in_lines', z3.SeqSort(z3.StringSort()))
            tb = ObjV(TextBlock, {'_header': SeqV(I.seq_of_base(H, TypeDesc('str'), p)),
                                  '_lines': SeqV(I.seq_of_base(L, TypeDesc('str'), p)),
                                  '_indentizer': I.call(Indentizer, [], {}, p)})
            old_lines = SeqV(I.seq_of_base(L, TypeDesc('str'), p), frozen=True)
            old_header = SeqV(I.seq_of_base(H, TypeDesc('str'), p), frozen=True)
            return [tb, iz], [iz, old_lines, old_header]

        def impl(i, p, a, k):
            r = i.call_function(f_indent, a, k, p)
            if r is not a[0]:
                raise Unsupported('indent() is expected to return self')
            return (r.fields['_lines'], r.fields['_header'])

        def spc(i, p, a, k):
            iz, old_lines, old_header = a
            return (i.call_function(spec.globals['indent_lines'], [iz, old_lines], {}, p), old_header)

        def w_tb(m, args, ind=ind, mode=mode):
            d = witness(ind, mode)(m, args)
            d['function'] = 'TextBlock.indent'
            d['header'] = seq_value(m, z3.Const('in_header', z3.SeqSort(z3.StringSort())))
            return d

        refines(ctx, f'text_gen.TextBlock.indent[{tag}]', f'{TG}.TextBlock.indent', impl, spc, make_args_tb,
                witness=w_tb, text='indent(): lines == indent_lines(indentizer, old lines), header unchanged')

    # ---- the two documented presets --------------------------------------------------------------------------
    for fname, mode in (('all_dashes_t', 'ALL'), ('initial_dash_t', 'FIRST_ONLY')):
        f = I.get_function(f'{TG}.{fname}')
        ctx.functions[f'{TG}.{fname}'] = 'proved (closed case split)'
        for arg in ('SPACES', 'TAB', None):
            p = Path()
            a = [Indentor.members[arg]] if arg else [None]
            r = I.call_function(f, a, {}, p)
            want_ind = arg or 'SPACES'
            ok = (isinstance(r, ObjV) and r.cls is Indentizer and r.fields['indentor'] is Indentor.members[want_ind]
                  and r.fields['spaces_count'] == 2 and r.fields['bullet_list'].fields['glyph'] == '-'
                  and r.fields['bullet_list'].fields['mode'] is Mode.members[mode])
            w = lambda m, fname=fname, arg=arg: {'function': fname, 'indentor': arg}
            ctx.prove(f'text_gen.{fname}[{arg}]:ensures', 'ensures', f'{TG}.{fname}', p, bool(ok),
                      f'{fname}({arg}) is the documented dash indenter', witness=w)

    # ---- canary: "indentation never changes a line" must be refuted ----------------------------------------
    p = Path()
    iz = mk_indentizer(p, 'SPACES', None)
    p.assume(z3.Int('in_spaces_count') > 0)
    x = z3.String('in_canary_line')
    out = I.call_function(spec.globals['plain_line'], [I.getattr_(iz, '_whitespace', p), ops.mkstr([x])], {}, p)
    ctx.expect_refuted('text_gen.Indentizer.to_list:canary', f'{TG}.Indentizer.to_list', p,
                       ops.to_zstr(out) == x, 'canary: indenting leaves every line unchanged')


def make_replay(ctx, o):
    if getattr(o, 'replay', None):
        return {'script': 'native/replay_C18.py', 'input': o.replay}
    return None


def native_search(ctx, o):
    """bounded replay corpus for an obligation that the solver left open or refuted without a usable model"""
    import re
    m = re.search(r'\.(to_list|to_str|indent)\[(\w+),(\w+)\]', o.id)
    if not m:
        return None
    fn = {'to_list': 'to_list', 'to_str': 'to_str', 'indent': 'TextBlock.indent'}[m.group(1)]
    ind, mode = m.group(2), (None if m.group(3) == 'None' else m.group(3))
    line_sets = [[], [''], ['a'], ['', ''], ['a', 'b'], ['a', '', 'b'], [' a ', '\t', 'b '], ['  ', 'x'],
                 ['x', ' ', ''], ['a b', 'c\t'], ['\x0b', 'z'], ['one', 'two', 'three', '']]
    glyphs = ['-'] if mode is None else ['-', '*', '->', '-->', 'abc', 'x y']
    inputs = []
    for n in (0, 1, 2, 3, 4, 5, 8):
        for g in glyphs:
            for ls in line_sets:
                inputs.append({'function': fn, 'indentor': ind, 'mode': mode, 'spaces_count': n, 'glyph': g,
                               'lines': ls, 'header': ['h', '']})
    return {'script': 'native/replay_C18.py', 'input': {'search': inputs}}
