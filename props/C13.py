"""C13 - generator property; obligations in props/gen_props.py over symbolic Builder.build runs (props/gen_common.py)."""
import os
from props import gen_props


def run(ctx):
    from props import gen_unbounded
    gen_unbounded.run_multiclient_cfg(ctx)   # any interface / settings: fixture or MultiClientCfgError, never an internal error
    only = os.environ.get('PYVC_SHAPES')
    gen_props.run_property(ctx, 'C13', only.split(',') if only else None)


def make_replay(ctx, o):
    if getattr(o, 'replay', None):
        return {'script': 'native/replay_gen.py', 'input': dict(o.replay, property='C13')}
    return None


def native_search(ctx, o):
    return gen_props.native_search(ctx, o, 'C13')
