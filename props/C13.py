"""C13 - generator property; obligations in props/gen_props.py over symbolic Builder.build runs (props/gen_common.py)."""
import os
from props import gen_props


def run(ctx):
    from props import gen_unbounded
    # the composition on the shape corpus, then the unbounded function contracts (DESIGN.md 8.6)
    gen_unbounded.run_with_composition(ctx, 'C13', [('mc-cfg', gen_unbounded.run_multiclient_cfg),
                                                      ('dzn-elements', gen_unbounded.run_dzn_elements)])


def make_replay(ctx, o):
    if getattr(o, 'replay', None):
        return {'script': 'native/replay_gen.py', 'input': dict(o.replay, property='C13')}
    return None


def native_search(ctx, o):
    return gen_props.native_search(ctx, o, 'C13')
