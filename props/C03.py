"""C03 - port configuration gives every exposed port exactly one semantics or is rejected.

Contracts (taken from the property statement, see specs/port_selection.py for the ghost functions):

  PortSelect.__post_init__          normal => inv_port_select ; raises AdvShellError <=> set empty or '' in set
  PortsSemanticsCfg.__post_init__   requires inv_port_select(sts, mts)
                                    raises AdvShellError <= overlap | all-combined | both wildcards cover
                                    normal => inv_side  (every port gets at most one semantics)
                                    raises only AdvShellError, and only if must_reject or nothing is selected at all
  PortsSemanticsCfg.match           requires inv_side, '' not in expected
                                    raises AdvShellError <=> some explicitly named port is not expected
                                    normal => for all p: p in result <=> p in expected and covered(p)
                                                         p in result  => result[p] == sem(p)
                                    loop invariant #1 with ghost `seen` (ports already visited)
  PortsCfg.__post_init__            raises AdvShellError <=> mixed_provides
  PortsCfg.match                    requires provides/requires names disjoint; union of both sides, values per side
  portnames_t                       partition of the port names by direction
  create_dzn_elements (look-up)     every non-injected port is looked up and gets sem(side, name), an uncovered one
                                    raises AdvShellError; injected requires ports are never looked up (props/C03b)
"""
from __future__ import annotations

import ast as pyast
import copy

import z3

from pyvc import ops
from pyvc.harness import Ctx, PROVED, REFUTED, set_value, zstr_value
from pyvc.interp import Interp, Env, EnumSym
from pyvc.path import Path, explore, fresh_name
from pyvc.values import (ObjV, SetV, DictV, EnumV, StrT, RaiseSignal, Unsupported, ExcV, ClassV, BuiltinClass, DtV,
                         SeqV)

PS = 'dznpy.adv_shell.port_selection'


class Env03:
    """shared helpers for the C03 contracts"""

    def __init__(self, ctx: Ctx):
        self.ctx = ctx
        self.I = ctx.interp
        self.mod = self.I.load_module(PS)
        self.spec = self.I.load_module('specs.port_selection')
        self.types = self.I.load_module('dznpy.adv_shell.types')
        self.PortSelect = self.mod.globals['PortSelect']
        self.PSC = self.mod.globals['PortsSemanticsCfg']
        self.PortsCfg = self.mod.globals['PortsCfg']
        self.Wild = self.mod.globals['PortWildcard']
        self.AdvShellError = self.types.globals['AdvShellError']
        self.RS = self.types.globals['RuntimeSemantics']

    def ghost(self, name, args, path):
        """evaluate a ghost specification function symbolically (no forking allowed)"""
        f = self.spec.globals[name]
        self.I.ghost_depth += 1
        try:
            n_pending = len(path.pending)
            v = self.I.call_function(f, list(args), {}, path)
            if len(path.pending) != n_pending:
                raise Unsupported(f'ghost function {name} forked')
            return v
        finally:
            self.I.ghost_depth -= 1

    def gbool(self, name, args, path):
        v = self.ghost(name, args, path)
        t = self.I.truthy(v, path)
        return self.I.zbool(t)

    # ---- shapes --------------------------------------------------------------------------------------
    def select_shapes(self, tag):
        """the four kinds of a selection value: three wildcards and an arbitrary set of strings"""
        shapes = [(m.name, (lambda m=m: m)) for m in self.Wild.members.values()]
        shapes.append(('set', lambda: SetV(sym=z3.Const(f'in_{tag}', z3.SetSort(z3.StringSort())))))
        return shapes

    def raw_select(self, value):
        """a PortSelect object WITHOUT running __post_init__ (used where its invariant is a precondition)"""
        o = ObjV(self.PortSelect, {'value': value})
        return o

    def raw_side(self, sts, mts):
        return ObjV(self.PSC, {'sts': sts, 'mts': mts})

    def is_exc(self, exc, cls):
        c = exc.cls
        return c.is_subclass_of(cls) if isinstance(c, ClassV) else (isinstance(cls, BuiltinClass) and
                                                                     c.is_subclass_of(cls))


def run(ctx: Ctx):
    e = Env03(ctx)
    I = e.I
    ctx.trusted += ['z3 theory of arrays/sets for Set[str] and Dict[str,RuntimeSemantics]',
                    'engine rule: a universally quantified goal is proved at a fresh constant; universally '
                    'quantified hypotheses (loop invariant) are instantiated at the goal constant and the loop element']
    ctx.assumptions += ['type precondition: a PortSelect value is a PortWildcard member or a set of str '
                        '(PortSelect.__post_init__ raises TypeError otherwise; outside the property)',
                        "model validity: port names are non-empty strings; provides and requires port names of one "
                        "component are pairwise distinct"]
    c_port_select(ctx, e)
    c_side_post_init(ctx, e)
    c_side_match(ctx, e)
    c_portscfg_post_init(ctx, e)
    c_portscfg_match(ctx, e)
    ctx.interp.loop_invariants = {}     # the contracts above are done; the harness below runs the real loop
    from props import C03b
    C03b.run(ctx, e)
    # the look-up part for a component / system with ANY number of ports (DESIGN.md 8.6)
    from props import gen_unbounded
    gen_unbounded.guarded(ctx, 'dzn-elements', gen_unbounded.run_dzn_elements)


# ------------------------------------------------------------------------------------------------------------
def c_port_select(ctx, e):
    fn = f'{PS}.PortSelect.__post_init__'
    ctx.functions[fn] = 'proved'
    for tag, mk in e.select_shapes('ps_value'):
        def make_args(p, mk=mk):
            return [mk()], {}
        results = e.I.run_function(e.PortSelect, make_args)
        for k, (p, (kind, val, args)) in enumerate(results):
            oid = f'port_selection.PortSelect.__post_init__[{tag}]:path{k}'
            if kind == 'return':
                g = e.gbool('inv_port_select', [val], p)
                w = lambda m, a=args: {'function': 'PortSelect.__post_init__', 'value': sel_value(m, a[0])}
                ctx.prove(oid + ':ensures', 'ensures', fn, p, g, 'normal => inv_port_select(self)', witness=w)
            else:
                w = lambda m, a=args: {'function': 'PortSelect.__post_init__', 'value': sel_value(m, a[0])}
                if not e.is_exc(val, e.AdvShellError):
                    ctx.prove(oid + ':only_raises', 'raises', fn, p, False,
                              f'raises only AdvShellError, got {val.cls.name}', witness=w)
                    continue
                o = e.raw_select(args[0])
                g = z3.Not(e.gbool('inv_port_select', [o], p))
                ctx.prove(oid + ':raises', 'raises', fn, p, g, 'raises AdvShellError => empty set or empty name',
                          witness=w)
    # canary: "every set is accepted" must be refuted
    p = Path()
    s = SetV(sym=z3.Const('in_canary', z3.SetSort(z3.StringSort())))
    ctx.expect_refuted('port_selection.PortSelect.__post_init__:canary', fn, p,
                       e.gbool('inv_port_select', [e.raw_select(s)], p), 'canary: every set satisfies the invariant')


def side_shapes(e, tag):
    for ts, mk_s in e.select_shapes(f'{tag}_sts'):
        for tm, mk_m in e.select_shapes(f'{tag}_mts'):
            yield f'{ts},{tm}', mk_s, mk_m


def c_side_post_init(ctx, e):
    fn = f'{PS}.PortsSemanticsCfg.__post_init__'
    ctx.functions[fn] = 'proved'
    for tag, mk_s, mk_m in side_shapes(e, 'psc'):
        def make_args(p, mk_s=mk_s, mk_m=mk_m):
            sts, mts = e.raw_select(mk_s()), e.raw_select(mk_m())
            p.assume(e.gbool('inv_port_select', [sts], p))
            p.assume(e.gbool('inv_port_select', [mts], p))
            return [sts, mts], {}
        results = e.I.run_function(e.PSC, make_args)
        for k, (p, (kind, val, args)) in enumerate(results):
            oid = f'port_selection.PortsSemanticsCfg.__post_init__[{tag}]:path{k}'
            sts, mts = args
            must = e.gbool('must_reject_side', [sts, mts], p)
            w = lambda m, a=args: {'function': 'PortsSemanticsCfg.__post_init__', 'sts': sel_value(m, a[0]),
                                   'mts': sel_value(m, a[1])}
            if kind == 'return':
                ctx.prove(oid + ':ensures', 'ensures', fn, p, z3.Not(must),
                          'normal => no overlap, no all-combination, not both wildcards covering (inv_side)',
                          witness=w)
            else:
                if not e.is_exc(val, e.AdvShellError):
                    ctx.prove(oid + ':only_raises', 'raises', fn, p, False,
                              f'raises only AdvShellError, got {val.cls.name}', witness=w)
                    continue
                nothing = z3.And(e.gbool('is_none', [sts], p), e.gbool('is_none', [mts], p))
                ctx.prove(oid + ':raises', 'raises', fn, p, z3.Or(must, nothing),
                          'raises AdvShellError => must_reject_side or nothing selected', witness=w)


# ------------------------------------------------------------------------------------------------------------
def find_loops(fn):
    return [n for n in pyast.walk(fn.node) if isinstance(n, (pyast.For, pyast.While))]


def c_side_match(ctx, e):
    I = e.I
    fn = f'{PS}.PortsSemanticsCfg.match'
    ctx.functions[fn] = 'proved'
    f = I.get_function(fn)
    loops = find_loops(f)
    if len(loops) != 1 or not isinstance(loops[0], pyast.For):
        raise Unsupported(f'drift: {fn} is expected to contain exactly one for-loop (invariant#1)')
    rs_sort = I.sorts.sort_of_enum(e.RS)[0]
    # the accumulator is the dict the loop body stores into (its name is read off the code: a renamed local is not drift)
    stores = {t.value.id for n in pyast.walk(loops[0]) if isinstance(n, pyast.Assign) for t in n.targets
              if isinstance(t, pyast.Subscript) and isinstance(t.value, pyast.Name)}
    if len(stores) != 1:
        raise Unsupported(f'drift: {fn}: the for-loop is expected to store into exactly one dict')
    v_acc = next(iter(stores))

    def phi(p_, selfv, seen, d: DictV, path):
        """invariant body for one port name p_"""
        zp = ops.to_zstr(p_)
        cov = e.gbool('covered', [selfv, p_], path)
        s = e.ghost('sem', [selfv, p_], path)
        zs = I.to_z3(s)
        indom = z3.IsMember(zp, d.dom)
        return z3.And(indom == z3.And(z3.IsMember(zp, seen), cov),
                      z3.Implies(indom, z3.Select(d.val, zp) == zs))

    def loop_handler(interp, node, env, path):
        S = interp.eval(node.iter, env, path)
        if not (isinstance(S, SetV) and S.sym is not None):
            raise Unsupported('match: loop source is expected to be the symbolic set of expected ports')
        try:
            selfv = env.lookup('self')
            result = env.lookup(v_acc)
        except KeyError as ke:
            raise Unsupported(f'drift: {fn}: loop state variable {ke} not found')
        if not isinstance(result, DictV):
            raise Unsupported('drift: match: `result` is expected to be a dict')
        tag = path.__dict__.get('oid_tag', '?')
        empty = z3.EmptySet(z3.StringSort())
        # -- initiation
        d0 = DictV(dom=empty, val=z3.K(z3.StringSort(), I.sorts.enum_const(e.RS.members['STS'])),
                   val_wrap=lambda x: EnumSym(e.RS, x))
        if result.dom is None:
            if result.concrete:
                raise Unsupported('drift: match: result not empty before the loop')
        else:
            d0 = result
        p0 = z3.String(fresh_name('p'))
        pi = path.child()
        ctx.prove(f'{tag}:inv#1.init', 'inv-init', fn, pi, phi(ops.mkstr([p0]), selfv, empty, d0, pi),
                  'invariant holds before the first iteration (seen = {})')
        # -- preservation: arbitrary state satisfying the invariant, arbitrary unseen element
        seen = z3.Const(fresh_name('seen'), z3.SetSort(z3.StringSort()))
        dom = z3.Const(fresh_name('dom'), z3.SetSort(z3.StringSort()))
        val = z3.Const(fresh_name('val'), z3.ArraySort(z3.StringSort(), rs_sort))
        x = z3.String(fresh_name('port'))
        pp = path.child()
        pp.assume(z3.IsSubset(seen, S.sym))
        pp.assume(z3.IsMember(x, S.sym))
        pp.assume(z3.Not(z3.IsMember(x, seen)))
        q = z3.String(fresh_name('q'))
        dh = DictV(dom=dom, val=val, val_wrap=lambda v: EnumSym(e.RS, v))
        pp.add_hyp([q], phi(ops.mkstr([q]), selfv, seen, dh, pp), 'inv#1')
        pp.add_index(x)

        def body(p):
            env_c = copy.deepcopy(env)
            dres = env_c.lookup(v_acc)
            dres.concrete, dres.dom, dres.val, dres.val_wrap = None, dom, val, dh.val_wrap
            interp.assign(node.target, ops.mkstr([x]), env_c, p)
            try:
                interp.exec_block(node.body, env_c, p)
            except RaiseSignal as rs:
                return ('raise', rs.exc, None)
            return ('normal', None, env_c.lookup(v_acc))

        for k, (p, (kind, exc, dres)) in enumerate(explore(pp, body)):
            if kind == 'raise':
                ctx.prove(f'{tag}:inv#1.body{k}:no_raise', 'safety', fn, p, False,
                          f'loop body raises {exc.cls.name}')
                continue
            g0 = z3.String(fresh_name('p'))
            p.add_index(g0)
            goal = phi(ops.mkstr([g0]), selfv, z3.SetAdd(seen, x), dres, p)
            w = lambda m, sv=selfv, S=S, x=x: {
                'function': 'PortsSemanticsCfg.match', 'sts': sel_value(m, sv.fields['sts']),
                'mts': sel_value(m, sv.fields['mts']),
                'expected': sorted(set([y for y in set_value(m, S.sym) if y] + [zstr_value(m, x)]))}
            ctx.prove(f'{tag}:inv#1.preserve:path{k}', 'inv-preserve', fn, p, goal,
                      'invariant preserved by one iteration (seen := seen + {port})', witness=w)
        # -- continue after the loop: arbitrary state satisfying the invariant with seen = S
        dom2 = z3.Const(fresh_name('dom'), z3.SetSort(z3.StringSort()))
        val2 = z3.Const(fresh_name('val'), z3.ArraySort(z3.StringSort(), rs_sort))
        result.concrete, result.dom, result.val, result.val_wrap = None, dom2, val2, dh.val_wrap
        q2 = z3.String(fresh_name('q'))
        path.add_hyp([q2], phi(ops.mkstr([q2]), selfv, S.sym, result, path), 'inv#1@exit')
        interp.exec_block(node.orelse, env, path)

    I.loop_invariants = getattr(I, 'loop_invariants', {})
    I.loop_invariants[id(loops[0])] = loop_handler

    for tag, mk_s, mk_m in side_shapes(e, 'm'):
        def make_args(p, mk_s=mk_s, mk_m=mk_m, tag=tag):
            p.oid_tag = f'port_selection.PortsSemanticsCfg.match[{tag}]'
            sts, mts = e.raw_select(mk_s()), e.raw_select(mk_m())
            selfv = e.raw_side(sts, mts)
            p.assume(e.gbool('inv_side', [selfv], p))
            E = SetV(sym=z3.Const('in_expected', z3.SetSort(z3.StringSort())))
            p.assume(z3.Not(z3.IsMember(z3.StringVal(''), E.sym)))
            label = ops.mkstr([z3.String('in_label')])
            return [selfv, E, label], {}
        bm = BoundTo(e.I.get_function(fn))
        try:
            results = e.I.run_function(bm, make_args)
        except Unsupported:
            raise
        for k, (p, (kind, val, args)) in enumerate(results):
            selfv, E, label = args
            oid = f'port_selection.PortsSemanticsCfg.match[{tag}]:path{k}'
            named = z3.SetUnion(I.set_z3(e.ghost('names', [selfv.fields['sts']], p)),
                                I.set_z3(e.ghost('names', [selfv.fields['mts']], p)))
            unknown_named = z3.Not(z3.IsSubset(named, E.sym))
            w = lambda m, sv=selfv, E=E: {'function': 'PortsSemanticsCfg.match',
                                          'sts': sel_value(m, sv.fields['sts']), 'mts': sel_value(m, sv.fields['mts']),
                                          'expected': [x for x in set_value(m, E.sym) if x]}
            if kind == 'raise':
                if not e.is_exc(val, e.AdvShellError):
                    ctx.prove(oid + ':only_raises', 'raises', fn, p, False,
                              f'raises only AdvShellError, got {val.cls.name}', witness=w)
                    continue
                ctx.prove(oid + ':raises', 'raises', fn, p, unknown_named,
                          'raises AdvShellError => a configured name is not a port of this side', witness=w)
            else:
                ctx.prove(oid + ':raises.converse', 'raises', fn, p, z3.Not(unknown_named),
                          'normal => every configured name is an expected port', witness=w)
                if not (isinstance(val, DictV) and val.dom is not None):
                    ctx.prove(oid + ':ensures', 'ensures', fn, p, False, 'result is not the dict built by the loop',
                              witness=w)
                    continue
                g0 = z3.String(fresh_name('p'))
                p.add_index(g0)
                goal = phi(ops.mkstr([g0]), selfv, E.sym, val, p)
                ctx.prove(oid + ':ensures', 'ensures', fn, p, goal,
                          'for all p: p in result <=> p in expected and covered(p); result[p] == sem(p)', witness=w)
    # vacuity + canary
    p = Path()
    sts = e.raw_select(SetV(sym=z3.Const('in_c_sts', z3.SetSort(z3.StringSort()))))
    mts = e.raw_select(e.Wild.members['REMAINING'])
    selfv = e.raw_side(sts, mts)
    p.assume(e.gbool('inv_side', [selfv], p))
    ctx.check_sat('port_selection.PortsSemanticsCfg.match:requires.sat', fn, p, 'inv_side satisfiable')
    x = z3.String('in_c_p')
    ctx.expect_refuted('port_selection.PortsSemanticsCfg.match:canary', fn, p,
                       I.to_z3(e.ghost('sem', [selfv, ops.mkstr([x])], p)) == I.sorts.enum_const(e.RS.members['STS']),
                       'canary: every port is STS')


def sel_value(m, sel):
    v = sel.fields['value'] if isinstance(sel, ObjV) else sel
    if isinstance(v, EnumV):
        return v.name
    return set_value(m, v.sym if v.sym is not None else None) if v.sym is not None else sorted(v.concrete)


def make_replay(ctx, o):
    if getattr(o, 'replay', None):
        if isinstance(o.replay, dict) and 'shape' in o.replay:
            return {'script': 'native/replay_gen.py', 'input': dict(o.replay, property='C03')}
        return {'script': 'native/replay_C03.py', 'input': o.replay}
    return None


class BoundTo:
    """callable wrapper: run an unbound method with explicit self"""

    def __init__(self, fn):
        self.fn = fn

    def __call__(self, interp, path, args, kwargs):
        return interp.call_function(self.fn, args, kwargs, path)


# ------------------------------------------------------------------------------------------------------------
def c_portscfg_post_init(ctx, e):
    fn = f'{PS}.PortsCfg.__post_init__'
    ctx.functions[fn] = 'proved'
    I = e.I
    for tag, mk_s, mk_m in side_shapes(e, 'pc'):
        def make_args(p, mk_s=mk_s, mk_m=mk_m):
            prov = e.raw_side(e.raw_select(mk_s()), e.raw_select(mk_m()))
            p.assume(e.gbool('inv_side', [prov], p))
            req = e.raw_side(e.raw_select(e.Wild.members['NONE']), e.raw_select(e.Wild.members['ALL']))
            return [prov, req], {}
        results = I.run_function(e.PortsCfg, make_args)
        for k, (p, (kind, val, args)) in enumerate(results):
            oid = f'port_selection.PortsCfg.__post_init__[{tag}]:path{k}'
            mixed = e.gbool('mixed_provides', [args[0]], p)
            w = lambda m, a=args: {'function': 'PortsCfg.__post_init__', 'sts': sel_value(m, a[0].fields['sts']),
                                   'mts': sel_value(m, a[0].fields['mts'])}
            if kind == 'return':
                ctx.prove(oid + ':ensures', 'ensures', fn, p, z3.Not(mixed), 'normal => provides not mixed',
                          witness=w)
            elif not e.is_exc(val, e.AdvShellError):
                ctx.prove(oid + ':only_raises', 'raises', fn, p, False, f'raises only AdvShellError, got '
                                                                        f'{val.cls.name}', witness=w)
            else:
                ctx.prove(oid + ':raises', 'raises', fn, p, mixed, 'raises AdvShellError => provides mixed',
                          witness=w)


def c_portscfg_match(ctx, e):
    """PortsCfg.match against the contract of PortsSemanticsCfg.match (modular: the callee is replaced by its
    proven postcondition)."""
    I = e.I
    fn = f'{PS}.PortsCfg.match'
    ctx.functions[fn] = 'proved'
    rs_sort = I.sorts.sort_of_enum(e.RS)[0]
    callee = f'{PS}.PortsSemanticsCfg.match'

    def phi_side(p_, side, E, d, path):
        zp = ops.to_zstr(p_)
        cov = e.gbool('covered', [side, p_], path)
        zs = I.to_z3(e.ghost('sem', [side, p_], path))
        indom = z3.IsMember(zp, d.dom)
        return z3.And(indom == z3.And(z3.IsMember(zp, E), cov), z3.Implies(indom, z3.Select(d.val, zp) == zs))

    def match_contract(interp, path, args, kwargs):
        selfv, E, label = args
        named = z3.SetUnion(I.set_z3(e.ghost('names', [selfv.fields['sts']], path)),
                            I.set_z3(e.ghost('names', [selfv.fields['mts']], path)))
        if not path.branch(z3.IsSubset(named, E.sym)):
            raise RaiseSignal(ExcV(e.AdvShellError, {'args': ('Configured ports not matched',)}))
        d = DictV(dom=z3.Const(fresh_name('dom'), z3.SetSort(z3.StringSort())),
                  val=z3.Const(fresh_name('val'), z3.ArraySort(z3.StringSort(), rs_sort)),
                  val_wrap=lambda v: EnumSym(e.RS, v))
        q = z3.String(fresh_name('q'))
        path.add_hyp([q], phi_side(ops.mkstr([q]), selfv, E.sym, d, path), 'contract:PortsSemanticsCfg.match')
        return d

    I.overrides[callee] = match_contract
    try:
        # the wildcard kinds of the four selections are case split; inv_side is the callee's precondition
        kinds = ['wild', 'set']
        for tp in ('ALL_MTS', 'ALL_STS', 'MTS_SET', 'STS_SET', 'REM'):
            for tr_s, mk_rs in e.select_shapes('pm_rsts'):
                for tr_m, mk_rm in e.select_shapes('pm_rmts'):
                    def make_args(p, tp=tp, mk_rs=mk_rs, mk_rm=mk_rm):
                        W = e.Wild.members
                        pset = lambda: SetV(sym=z3.Const('in_pm_pset', z3.SetSort(z3.StringSort())))
                        prov = {'ALL_MTS': (W['NONE'], W['ALL']), 'ALL_STS': (W['ALL'], W['NONE']),
                                'MTS_SET': (W['NONE'], pset()), 'STS_SET': (pset(), W['NONE']),
                                'REM': (W['NONE'], W['REMAINING'])}[tp]
                        pv = e.raw_side(e.raw_select(prov[0]), e.raw_select(prov[1]))
                        rq = e.raw_side(e.raw_select(mk_rs()), e.raw_select(mk_rm()))
                        p.assume(e.gbool('inv_side', [pv], p))
                        p.assume(e.gbool('inv_side', [rq], p))
                        cfg = ObjV(e.PortsCfg, {'provides': pv, 'requires': rq, 'multiclient': None})
                        P = SetV(sym=z3.Const('in_provides_ports', z3.SetSort(z3.StringSort())))
                        R = SetV(sym=z3.Const('in_requires_ports', z3.SetSort(z3.StringSort())))
                        p.assume(z3.SetIntersect(P.sym, R.sym) == z3.EmptySet(z3.StringSort()))
                        return [cfg, P, R], {}
                    results = I.run_function(BoundTo(I.get_function(fn)), make_args)
                    for k, (p, (kind, val, args)) in enumerate(results):
                        cfg, P, R = args
                        tag = f'{tp};{tr_s},{tr_m}'
                        oid = f'port_selection.PortsCfg.match[{tag}]:path{k}'
                        w = lambda m, cfg=cfg, P=P, R=R: {
                            'function': 'PortsCfg.match',
                            'psts': sel_value(m, cfg.fields['provides'].fields['sts']),
                            'pmts': sel_value(m, cfg.fields['provides'].fields['mts']),
                            'rsts': sel_value(m, cfg.fields['requires'].fields['sts']),
                            'rmts': sel_value(m, cfg.fields['requires'].fields['mts']),
                            'provides_ports': [x for x in set_value(m, P.sym) if x],
                            'requires_ports': [x for x in set_value(m, R.sym) if x]}
                        if kind == 'raise':
                            if not e.is_exc(val, e.AdvShellError):
                                ctx.prove(oid + ':only_raises', 'raises', fn, p, False,
                                          f'raises only AdvShellError, got {val.cls.name}')
                            else:
                                o = ctx.new(oid + ':raises', 'raises', fn, 'raise comes from a side match')
                                ctx.settle(o, PROVED, 'syntactic', 'outcome of the callee contract')
                            continue
                        mp = val.fields.get('value') if isinstance(val, ObjV) else None
                        if not (isinstance(mp, DictV) and mp.dom is not None):
                            ctx.prove(oid + ':ensures', 'ensures', fn, p, False, 'result.value is not the merged dict')
                            continue
                        g0 = z3.String(fresh_name('p'))
                        p.add_index(g0)
                        zp = g0
                        gp = ops.mkstr([g0])
                        pv, rq = cfg.fields['provides'], cfg.fields['requires']
                        cov_p = z3.And(z3.IsMember(zp, P.sym), e.gbool('covered', [pv, gp], p))
                        cov_r = z3.And(z3.IsMember(zp, R.sym), e.gbool('covered', [rq, gp], p))
                        sem_p = I.to_z3(e.ghost('sem', [pv, gp], p))
                        sem_r = I.to_z3(e.ghost('sem', [rq, gp], p))
                        indom = z3.IsMember(zp, mp.dom)
                        goal = z3.And(indom == z3.Or(cov_p, cov_r),
                                      z3.Implies(cov_p, z3.Select(mp.val, zp) == sem_p),
                                      z3.Implies(cov_r, z3.Select(mp.val, zp) == sem_r))
                        # the pointwise definition of dict.update is instantiated at the goal constant
                        ctx.prove(oid + ':ensures', 'ensures', fn, p, goal,
                                  'for all p: p in value <=> covered on its side; value[p] == sem(side(p), p)',
                                  witness=w)
    finally:
        del I.overrides[callee]


def native_search(ctx, o):
    from props import gen_props
    if ':path' in o.id and 'port_selection.' not in o.id:
        return gen_props.native_search(ctx, o, 'C03')
    return None
