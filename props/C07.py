"""C07 - generator-level part; obligations in props/gen_props.py over symbolic Builder.build runs."""
import os
from props import gen_props


def run(ctx):
    from props import gen_unbounded
    gen_unbounded.run_reroute(ctx)     # parameter types: the extern resolved from the interface's own scope
    only = os.environ.get('PYVC_SHAPES')
    gen_props.run_property(ctx, 'C07', only.split(',') if only else None)


def make_replay(ctx, o):
    if getattr(o, 'replay', None):
        return {'script': 'native/replay_gen.py', 'input': dict(o.replay, property='C07')}
    return None


def native_search(ctx, o):
    return gen_props.native_search(ctx, o, 'C07')
