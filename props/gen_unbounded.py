"""Unbounded contracts for generator functions that are simple comprehensions over the events of an interface
(any number of events): stdref_provides_out_events, stdref_requires_in_events, stdref_in_event.  They complement the
bounded-structure harness for C01: "every out-/in-event of the port is referenced exactly once, in order, to the
same-named event of the same-named port"."""
from __future__ import annotations

import z3

from pyvc import ops, ghostlib, symobj
from pyvc.harness import Ctx, refines
from pyvc.path import Path
from pyvc.sorts import TypeDesc
from pyvc.values import ObjV, Unsupported

PR = 'dznpy.adv_shell.core.processing'


def run(ctx: Ctx):
    I = ctx.interp
    ghostlib.install(I)
    I.model_strings_break_free = True
    pr = I.load_module(PR)
    cm = I.load_module('dznpy.adv_shell.common')
    spec = I.load_module('specs.wiring_unbounded')
    CppPortItf, CppEncapsulee = cm.globals['CppPortItf'], cm.globals['CppEncapsulee']

    def inv_name(interp, path, v):
        a = interp.sorts.accessor(v.cls, 'name')(v.expr)
        return ops.with_facts(ops.is_ident(a))
    saved = dict(I.class_invs)
    for cls in ('Port', 'Event'):
        I.class_invs[f'dznpy.ast.{cls}'] = [inv_name]

    def mk(p):
        port = symobj.fresh_value(I, p, TypeDesc('cls', CppPortItf), 'in_port', opt_choice=lambda n: 'multiclient' not in n)
        enc = symobj.fresh_value(I, p, TypeDesc('cls', CppEncapsulee), 'in_enc')
        for z in (port.fields['accessor_target'], enc.fields['member_var'].fields['name']):
            zz = ops.to_zstr(z)
            I.break_free_syms.add(zz.get_id())
            p.assume(ops.with_facts(ops.is_ident(zz)))
        I.apply_class_invs(port.fields['dzn_port_itf'].fields['port'], p)
        return [port, enc], [port, enc]

    try:
        for fname, sname in (('stdref_provides_out_events', 'ref_out_events'),
                             ('stdref_requires_in_events', 'ref_in_events')):
            f = I.get_function(f'{PR}.{fname}')
            ctx.functions[f'{PR}.{fname}'] = 'proved (unbounded: any number of events)'
            refines(ctx, f'processing.{fname}', f'{PR}.{fname}',
                    lambda i, p, a, k, f=f: i.call_function(f, a, k, p),
                    lambda i, p, a, k, sname=sname: i.call_function(spec.globals[sname], a, k, p), mk, witness=None,
                    text=f'{fname}: one std::ref statement per matching event, in order, same port / same event')
    finally:
        I.class_invs.clear()
        I.class_invs.update(saved)
