"""Unbounded contracts for generator functions that are simple comprehensions over the events of an interface
(any number of events): stdref_provides_out_events, stdref_requires_in_events, stdref_in_event.  They complement the
bounded-structure harness for C01: "every out-/in-event of the port is referenced exactly once, in order, to the
same-named event of the same-named port"."""
from __future__ import annotations

import z3

from pyvc import ops, ghostlib, symobj
from pyvc.harness import Ctx, refines
from pyvc.path import Path
from pyvc.sorts import TypeDesc
from pyvc.values import ObjV, Unsupported

PR = 'dznpy.adv_shell.core.processing'


def run(ctx: Ctx):
    I = ctx.interp
    ghostlib.install(I)
    I.model_strings_break_free = True
    pr = I.load_module(PR)
    cm = I.load_module('dznpy.adv_shell.common')
    spec = I.load_module('specs.wiring_unbounded')
    CppPortItf, CppEncapsulee = cm.globals['CppPortItf'], cm.globals['CppEncapsulee']

    def inv_name(interp, path, v):
        a = interp.sorts.accessor(v.cls, 'name')(v.expr)
        return ops.with_facts(ops.is_ident(a))
    saved = dict(I.class_invs)
    for cls in ('Port', 'Event'):
        I.class_invs[f'dznpy.ast.{cls}'] = [inv_name]

    def mk(p):
        port = symobj.fresh_value(I, p, TypeDesc('cls', CppPortItf), 'in_port', opt_choice=lambda n: 'multiclient' not in n)
        enc = symobj.fresh_value(I, p, TypeDesc('cls', CppEncapsulee), 'in_enc')
        for z in (port.fields['accessor_target'], enc.fields['member_var'].fields['name']):
            zz = ops.to_zstr(z)
            I.break_free_syms.add(zz.get_id())
            p.assume(ops.with_facts(ops.is_ident(zz)))
        I.apply_class_invs(port.fields['dzn_port_itf'].fields['port'], p)
        return [port, enc], [port, enc]

    try:
        for fname, sname in (('stdref_provides_out_events', 'ref_out_events'),
                             ('stdref_requires_in_events', 'ref_in_events')):
            f = I.get_function(f'{PR}.{fname}')
            ctx.functions[f'{PR}.{fname}'] = 'proved (unbounded: any number of events)'
            refines(ctx, f'processing.{fname}', f'{PR}.{fname}',
                    lambda i, p, a, k, f=f: i.call_function(f, a, k, p),
                    lambda i, p, a, k, sname=sname: i.call_function(spec.globals[sname], a, k, p), mk, witness=None,
                    text=f'{fname}: one std::ref statement per matching event, in order, same port / same event')
    finally:
        I.class_invs.clear()
        I.class_invs.update(saved)
        I.extra_model_classes = ()


def run_final_construct(ctx: Ctx):
    """C10 for ANY number of exposed ports: create_final_construct_fn against specs.wiring_unbounded.
    The port lists are symbolic sequences of CppPortItf values (frozen dataclass -> z3 datatype; the C++ type, accessor
    function and member variable stay abstract: the function under contract does not look at them)."""
    I = ctx.interp
    ghostlib.install(I)
    I.model_strings_break_free = True
    I.extra_model_classes = ('dznpy.adv_shell.common.CppPortItf', 'dznpy.adv_shell.common.DznPortItf',
                             'dznpy.adv_shell.common.MultiClientPortCfgFixture')
    for q in ('dznpy.cpp_gen.TypeDesc', 'dznpy.cpp_gen.Function', 'dznpy.cpp_gen.MemberVariable'):
        I.sorts.opaque_classes.add(q)
    pr = I.load_module(PR)
    cm = I.load_module('dznpy.adv_shell.common')
    cg = I.load_module('dznpy.cpp_gen')
    spec = I.load_module('specs.wiring_unbounded')
    CppPortItf, CppPorts, CppEncapsulee = (cm.globals[n] for n in ('CppPortItf', 'CppPorts', 'CppEncapsulee'))

    def inv_target(interp, path, v):
        # the accessor target is a C++ expression: a single line that is not a comment
        a = interp.sorts.accessor(v.cls, 'accessor_target')(v.expr)
        interp.break_free_syms.add(a.get_id())
        return z3.Not(z3.PrefixOf(z3.StringVal('/'), a))
    saved = dict(I.class_invs)
    I.class_invs['dznpy.adv_shell.common.CppPortItf'] = [inv_target]

    def mk(p):
        lists = []
        for nm in ('pp', 'rp'):
            ports = symobj.fresh_value(I, p, TypeDesc('list', TypeDesc('cls', CppPortItf)), f'in_{nm}')
            lists.append(ObjV(CppPorts, {'ports': ports}))
        enc = symobj.fresh_value(I, p, TypeDesc('cls', CppEncapsulee), 'in_enc')
        z = ops.to_zstr(enc.fields['member_var'].fields['name'])
        I.break_free_syms.add(z.get_id())
        p.assume(ops.with_facts(ops.is_ident(z)))
        p.assume(z3.Not(z3.PrefixOf(z3.StringVal('/'), z)))      # an identifier does not start a comment
        zs = z3.String('in_shell')
        I.break_free_syms.add(zs.get_id())
        p.assume(ops.with_facts(ops.is_ident(zs)))
        scope = I.call(cg.globals['Struct'], [], {'name': ops.mkstr([zs])}, p)
        return [scope] + lists + [enc], lists + [enc]

    f = I.get_function(f'{PR}.create_final_construct_fn')
    view = spec.globals['statements']

    def impl(i, p, a, k):
        fnc = i.call_function(f, a, k, p)
        return i.call_function(view, [i.getattr_(i.getattr_(fnc, 'contents', p), 'lines', p)], {}, p)

    def spc(i, p, a, k):
        return i.call_function(spec.globals['final_construct_statements'], a[1:], k, p)

    def mk2(p):
        a, b = mk(p)
        return a, a
    try:
        ctx.functions[f'{PR}.create_final_construct_fn'] = 'proved (unbounded: any number of provides / requires ports)'
        refines(ctx, 'processing.create_final_construct_fn', f'{PR}.create_final_construct_fn', impl, spc, mk2,
                witness=None,
                text='FinalConstruct(): FinalConstruct() of every multi-client port, check_bindings() of every other '
                     'exposed port through its accessor target, parent + check_bindings() of the wrapped component')
    finally:
        I.class_invs.clear()
        I.class_invs.update(saved)
        I.extra_model_classes = ()
