"""Unbounded contracts for generator functions that are simple comprehensions over the events of an interface
(any number of events): stdref_provides_out_events, stdref_requires_in_events, stdref_in_event.  They complement the
bounded-structure harness for C01: "every out-/in-event of the port is referenced exactly once, in order, to the
same-named event of the same-named port"."""
from __future__ import annotations

import os
import z3

from pyvc import ops, ghostlib, symobj
from pyvc.harness import Ctx, refines
from pyvc.path import Path
from pyvc.sorts import TypeDesc
from pyvc.values import ObjV, Unsupported, SeqV, SeqT, LitB

PR = 'dznpy.adv_shell.core.processing'


def guarded(ctx, name, fn, *args, **kw):
    """Runs one group of unbounded contracts.  Code outside the supported subset (or the wall limit) inside THIS group
    leaves the group undecided - one open obligation, exit 2 unless another part of the check finds a violation - and
    lets the other parts of the check run."""
    from pyvc.harness import UNDECIDED
    try:
        fn(ctx, *args, **kw)
    except Unsupported as e:
        o = ctx.new(f'unbounded:{name}:not-generated', 'ensures', '', f'the unbounded contracts "{name}" could not be '
                                                                     f'generated from the current sources')
        ctx.settle(o, UNDECIDED, 'engine', f'unsupported construct / drift: {e}')
        ctx.notes.append(f'unbounded contracts {name}: {e}')


def run_with_composition(ctx, pid, groups):
    """the bounded composition harness of a generator property, then its groups of unbounded contracts; a part that
    cannot be generated does not stop the others (a violation found by any part is reported)"""
    import os
    from props import gen_props
    only = os.environ.get('PYVC_SHAPES')
    pending = None
    try:
        gen_props.run_property(ctx, pid, only.split(',') if only else None)
    except Unsupported as e:
        pending = e
    for g in groups:
        guarded(ctx, g[0], g[1], *g[2:])
    if pending is not None:
        raise pending


def ns_inv(interp, path, v):
    """class invariant of NamespaceIds (established by its constructor, preserved by + and +=: contracts proved under
    C14): every item is an identifier - an instantiable hypothesis"""
    from pyvc.path import fresh_name
    z = interp.sorts.accessor(v.cls, 'items')(v.expr)
    reg = path.__dict__.setdefault('_nsinv', set())
    if z.get_id() in reg:
        return None
    reg.add(z.get_id())
    q = z3.Int(fresh_name('q'))
    path.add_hyp([q], z3.Implies(z3.And(q >= 0, q < z3.Length(z)), ops.with_facts(ops.is_ident(z[q]))), 'inv_NamespaceIds')
    return None


def install_ns_ids_contract(I):
    """namespaceids_t / ns_ids_t by contract for ONE identifier: namespaceids_t(s) == NamespaceIds([s]) when
    is_ident(s) - the instance L = [s] of the notation round trip proved under C14.  Other arguments run the real code."""
    from pyvc.values import StrT
    NS = I.load_module('dznpy.scoping').globals['NamespaceIds']
    names = ['dznpy.scoping.namespaceids_t', 'dznpy.scoping.ns_ids_t']

    def contract(i, path, args, kw):
        v = args[0] if args else kw.get('value')
        if isinstance(v, StrT) and not kw:
            z = ops.to_zstr(v)
            if z3.is_app(z) and z.decl().kind() == z3.Z3_OP_SEQ_NTH:
                path.add_index(z.arg(1))       # the class invariant of the list's owner is instantiated there
            ent = path.entails(ops.is_ident(z, path))
            if os.environ.get('PYVC_DEBUG_NS'):
                print('ns_ids_t contract:', z, 'entails is_ident:', ent, 'hyps:', len(getattr(path, 'hyps', [])))
            if ent:
                return i.call(NS, [], {'items': SeqV(SeqT([LitB([v])]))}, path)
        saved = {n: i.overrides.pop(n) for n in names if n in i.overrides}
        try:
            return i.call_function(i.get_function('dznpy.scoping.namespaceids_t'), args, kw, path)
        finally:
            i.overrides.update(saved)
    for n in names:
        I.overrides[n] = contract
    return names


def install_ns_add_contract(I, ctx=None):
    """NamespaceIds.__add__ by its contract (proved under C14): result is a fresh NamespaceIds whose items are
    self.items ++ other.items; requires the class invariant of both operands (every instance satisfies it: established
    by the constructor, preserved by += - C14), so the result's validation cannot fail and is not re-executed."""
    from pyvc.values import DtV
    NS = I.load_module('dznpy.scoping').globals['NamespaceIds']
    qn = 'dznpy.scoping.NamespaceIds.__add__'
    if ctx is not None:
        note = 'callee by contract: NamespaceIds.__add__ (proved under C14); class invariant of NamespaceIds assumed ' \
               'for every instance that reaches +'
        if note not in ctx.assumptions:
            ctx.assumptions.append(note)

    def contract(i, path, args, kw):
        if len(args) == 2 and not kw and all(isinstance(v, (DtV, ObjV)) and v.cls is NS for v in args):
            ia, ib = (i.getattr_(v, 'items', path) for v in args)
            if isinstance(ia, SeqV) and isinstance(ib, SeqV):
                res = ObjV(NS, {'items': SeqV(SeqT(tuple(ia.term.blocks) + tuple(ib.term.blocks)))})
                res.fresh_in = i.act_counter
                return res
        saved = i.overrides.pop(qn)
        try:
            return i.call_function(i.get_function(qn), args, kw, path)
        finally:
            i.overrides[qn] = saved
    I.overrides[qn] = contract
    return qn


def i_getattr(I, obj, name, p):
    return I.getattr_(obj, name, p)


def run(ctx: Ctx):
    I = ctx.interp
    ghostlib.install(I)
    I.model_strings_break_free = True
    pr = I.load_module(PR)
    cm = I.load_module('dznpy.adv_shell.common')
    spec = I.load_module('specs.wiring_unbounded')
    CppPortItf, CppEncapsulee = cm.globals['CppPortItf'], cm.globals['CppEncapsulee']

    def inv_name(interp, path, v):
        a = interp.sorts.accessor(v.cls, 'name')(v.expr)
        return ops.with_facts(ops.is_ident(a))
    saved = dict(I.class_invs)
    for cls in ('Port', 'Event'):
        I.class_invs[f'dznpy.ast.{cls}'] = [inv_name]

    def mk(p):
        port = symobj.fresh_value(I, p, TypeDesc('cls', CppPortItf), 'in_port', opt_choice=lambda n: 'multiclient' not in n)
        enc = symobj.fresh_value(I, p, TypeDesc('cls', CppEncapsulee), 'in_enc')
        for z in (port.fields['accessor_target'], enc.fields['member_var'].fields['name']):
            zz = ops.to_zstr(z)
            I.break_free_syms.add(zz.get_id())
            p.assume(ops.with_facts(ops.is_ident(zz)))
        I.apply_class_invs(port.fields['dzn_port_itf'].fields['port'], p)
        return [port, enc], [port, enc]

    try:
        for fname, sname in (('stdref_provides_out_events', 'ref_out_events'),
                             ('stdref_requires_in_events', 'ref_in_events')):
            f = I.get_function(f'{PR}.{fname}')
            ctx.functions[f'{PR}.{fname}'] = 'proved (unbounded: any number of events)'
            refines(ctx, f'processing.{fname}', f'{PR}.{fname}',
                    lambda i, p, a, k, f=f: i.call_function(f, a, k, p),
                    lambda i, p, a, k, sname=sname: i.call_function(spec.globals[sname], a, k, p), mk, witness=None,
                    text=f'{fname}: one std::ref statement per matching event, in order, same port / same event')
    finally:
        I.class_invs.clear()
        I.class_invs.update(saved)
        I.extra_model_classes = ()


def run_final_construct(ctx: Ctx):
    """C10 for ANY number of exposed ports: create_final_construct_fn against specs.wiring_unbounded.
    The port lists are symbolic sequences of CppPortItf values (frozen dataclass -> z3 datatype; the C++ type, accessor
    function and member variable stay abstract: the function under contract does not look at them)."""
    I = ctx.interp
    ghostlib.install(I)
    I.model_strings_break_free = True
    I.extra_model_classes = ('dznpy.adv_shell.common.CppPortItf', 'dznpy.adv_shell.common.DznPortItf',
                             'dznpy.adv_shell.common.MultiClientPortCfgFixture')
    for q in ('dznpy.cpp_gen.TypeDesc', 'dznpy.cpp_gen.Function', 'dznpy.cpp_gen.MemberVariable'):
        I.sorts.opaque_classes.add(q)
    pr = I.load_module(PR)
    cm = I.load_module('dznpy.adv_shell.common')
    cg = I.load_module('dznpy.cpp_gen')
    spec = I.load_module('specs.wiring_unbounded')
    CppPortItf, CppPorts, CppEncapsulee = (cm.globals[n] for n in ('CppPortItf', 'CppPorts', 'CppEncapsulee'))

    def inv_target(interp, path, v):
        # the accessor target is a C++ expression: a single line that is not a comment
        a = interp.sorts.accessor(v.cls, 'accessor_target')(v.expr)
        interp.break_free_syms.add(a.get_id())
        return z3.Not(z3.PrefixOf(z3.StringVal('/'), a))
    saved = dict(I.class_invs)
    I.class_invs['dznpy.adv_shell.common.CppPortItf'] = [inv_target]

    def mk(p):
        lists = []
        for nm in ('pp', 'rp'):
            ports = symobj.fresh_value(I, p, TypeDesc('list', TypeDesc('cls', CppPortItf)), f'in_{nm}')
            lists.append(ObjV(CppPorts, {'ports': ports}))
        enc = symobj.fresh_value(I, p, TypeDesc('cls', CppEncapsulee), 'in_enc')
        z = ops.to_zstr(enc.fields['member_var'].fields['name'])
        I.break_free_syms.add(z.get_id())
        p.assume(ops.with_facts(ops.is_ident(z)))
        p.assume(z3.Not(z3.PrefixOf(z3.StringVal('/'), z)))      # an identifier does not start a comment
        zs = z3.String('in_shell')
        I.break_free_syms.add(zs.get_id())
        p.assume(ops.with_facts(ops.is_ident(zs)))
        scope = I.call(cg.globals['Struct'], [], {'name': ops.mkstr([zs])}, p)
        return [scope] + lists + [enc], lists + [enc]

    f = I.get_function(f'{PR}.create_final_construct_fn')
    view = spec.globals['statements']

    def impl(i, p, a, k):
        fnc = i.call_function(f, a, k, p)
        return i.call_function(view, [i.getattr_(i.getattr_(fnc, 'contents', p), 'lines', p)], {}, p)

    def spc(i, p, a, k):
        return i.call_function(spec.globals['final_construct_statements'], a[1:], k, p)

    def mk2(p):
        a, b = mk(p)
        return a, a
    try:
        ctx.functions[f'{PR}.create_final_construct_fn'] = 'proved (unbounded: any number of provides / requires ports)'
        refines(ctx, 'processing.create_final_construct_fn', f'{PR}.create_final_construct_fn', impl, spc, mk2,
                witness=None,
                text='FinalConstruct(): FinalConstruct() of every multi-client port, check_bindings() of every other '
                     'exposed port through its accessor target, parent + check_bindings() of the wrapped component')
    finally:
        I.class_invs.clear()
        I.class_invs.update(saved)
        I.extra_model_classes = ()


def run_reroute(ctx: Ctx, which=('reroute_in_events', 'reroute_out_events', 'reroute_multiclient_out_events')):
    """C01 C02 C04 for ANY number of events and parameters: the reroute functions against specs.wiring_unbounded.
    find_fqn is replaced by its contract 'the parameter type resolves to exactly one declaration, an extern'
    (ghost.extern_of, uninterpreted): which declaration that is, is decided by C07 / C14."""
    I = ctx.interp
    ghostlib.install(I)
    I.model_strings_break_free = True
    pr = I.load_module(PR)
    cm = I.load_module('dznpy.adv_shell.common')
    av = I.load_module('dznpy.ast_view')
    spec = I.load_module('specs.wiring_unbounded')
    CppPortItf, CppEncapsulee, Facilities = (cm.globals[n] for n in ('CppPortItf', 'CppEncapsulee', 'Facilities'))
    ghost_ext = I.overrides['specs.ghost.extern_of']

    def find_fqn_contract(i, path, args, kw):
        fct, ids = args[0], args[1]
        scope = args[2] if len(args) > 2 else kw['as_of_inner_scope']
        ext = ghost_ext(i, path, [fct, ids, scope], {})
        return i.call(av.globals['FindResult'], [], {'items': SeqV(SeqT([LitB([ext])]))}, path)

    def inv_name(interp, path, v):
        a = interp.sorts.accessor(v.cls, 'name')(v.expr)
        return ops.with_facts(ops.is_ident(a))

    def inv_data(interp, path, v):
        a = interp.sorts.accessor(v.cls, 'value')(v.expr)
        interp.break_free_syms.add(a.get_id())
        return None
    saved = dict(I.class_invs)
    for cls in ('Port', 'Event', 'Formal'):
        I.class_invs[f'dznpy.ast.{cls}'] = [inv_name]
    I.overrides['dznpy.ast_view.find_fqn'] = find_fqn_contract
    I.overrides[f'{PR}.find_fqn'] = find_fqn_contract

    def mk(p, mc):
        port = symobj.fresh_value(I, p, TypeDesc('cls', CppPortItf), 'in_port',
                                  opt_choice=lambda n: mc if n.endswith('multiclient') else False)
        enc = symobj.fresh_value(I, p, TypeDesc('cls', CppEncapsulee), 'in_enc')
        fac = symobj.fresh_value(I, p, TypeDesc('cls', Facilities), 'in_fac', opt_choice=lambda n: False)
        for z in (port.fields['accessor_target'], enc.fields['member_var'].fields['name'],
                  fac.fields['dispatcher'].fields['name']):
            zz = ops.to_zstr(z)
            I.break_free_syms.add(zz.get_id())
            p.assume(ops.with_facts(ops.is_ident(zz)))
        I.apply_class_invs(port.fields['dzn_port_itf'].fields['port'], p)
        from pyvc.interp import OpaqueV
        fct = OpaqueV(None, 'the file contents (only passed on to find_fqn)')
        return port, fac, enc, fct

    try:
        for fname, sname, nargs in (('reroute_in_events', 'blocking_in_events', 4),
                                    ('reroute_out_events', 'posted_out_events', 4),
                                    ('reroute_multiclient_out_events', 'multiclient_out_events', 2)):
            if fname not in which:
                continue
            f = I.get_function(f'{PR}.{fname}')
            for mc in ((False, True) if fname == 'reroute_in_events' else ((True,) if nargs == 2 else (False,))):
                def mk_args(p, mc=mc, nargs=nargs):
                    port, fac, enc, fct = mk(p, mc)
                    a = [port, fac, enc, fct] if nargs == 4 else [port, fct]
                    return a, a
                ctx.functions[f'{PR}.{fname}'] = 'proved (unbounded: any number of events and parameters; ' \
                                                 'find_fqn by contract)'
                refines(ctx, f'processing.{fname}{".mc" if mc and nargs == 4 else ""}', f'{PR}.{fname}',
                        lambda i, p, a, k, f=f: i.call_function(f, a, k, p),
                        lambda i, p, a, k, sname=sname: i.call_function(spec.globals[sname], a, k, p), mk_args,
                        witness=None, text=f'{fname}: one handler per matching event, in order; parameters typed by the '
                                           f'resolved extern, in-parameters captured by value')
    finally:
        I.class_invs.clear()
        I.class_invs.update(saved)
        I.overrides.pop('dznpy.ast_view.find_fqn', None)
        I.overrides.pop(f'{PR}.find_fqn', None)
        for n in ('dznpy.scoping.namespaceids_t', 'dznpy.scoping.ns_ids_t', 'dznpy.scoping.NamespaceIds.__add__'):
            I.overrides.pop(n, None)


def run_claim_release(ctx: Ctx):
    """C04 for ANY number of parameters: the claim / release handlers of InitializePort<Port>()."""
    I = ctx.interp
    ghostlib.install(I)
    I.model_strings_break_free = True
    pr = I.load_module(PR)
    cm = I.load_module('dznpy.adv_shell.common')
    av = I.load_module('dznpy.ast_view')
    spec = I.load_module('specs.wiring_unbounded')
    CppPortItf = cm.globals['CppPortItf']
    ghost_ext = I.overrides['specs.ghost.extern_of']

    def find_fqn_contract(i, path, args, kw):
        fct, ids = args[0], args[1]
        scope = args[2] if len(args) > 2 else kw['as_of_inner_scope']
        ext = ghost_ext(i, path, [fct, ids, scope], {})
        return i.call(av.globals['FindResult'], [], {'items': SeqV(SeqT([LitB([ext])]))}, path)

    def inv_name(interp, path, v):
        a = interp.sorts.accessor(v.cls, 'name')(v.expr)
        return ops.with_facts(ops.is_ident(a))
    saved = dict(I.class_invs)
    for cls in ('Port', 'Event', 'Formal'):
        I.class_invs[f'dznpy.ast.{cls}'] = [inv_name]
    I.overrides['dznpy.ast_view.find_fqn'] = find_fqn_contract
    I.overrides[f'{PR}.find_fqn'] = find_fqn_contract
    I.class_invs['dznpy.scoping.NamespaceIds'] = [ns_inv]
    install_ns_add_contract(I, ctx)

    def mk_args(p):
        port = symobj.fresh_value(I, p, TypeDesc('cls', CppPortItf), 'in_port', opt_choice=lambda n: n.endswith('multiclient'))
        zz = ops.to_zstr(port.fields['accessor_target'])
        I.break_free_syms.add(zz.get_id())
        p.assume(ops.with_facts(ops.is_ident(zz)))
        I.apply_class_invs(port.fields['dzn_port_itf'].fields['port'], p)
        from pyvc.interp import OpaqueV
        fct = OpaqueV(None, 'the file contents (only passed on to find_fqn)')
        mcf = port.fields['dzn_port_itf'].fields['multiclient']
        # the fixture is one check_multiclient_cfg produced: granting reply = <enum fqn> + <value>, never empty
        reply = i_getattr(I, mcf, 'claim_granting_reply', p)
        p.assume(z3.Length(I.sorts.accessor(reply.cls, 'items')(reply.expr)) > 0)
        a = [port, mcf, fct]
        return a, a

    def mk_impl_args(p):
        (port, mcf, fct), _ = mk_args(p)
        sf = symobj.fresh_value(I, p, TypeDesc('cls', I.load_module('dznpy.scoping').globals['NamespaceIds']), 'in_sfns')
        itf = i_getattr(I, port.fields['dzn_port_itf'], 'interface', p)
        fqn = i_getattr(I, itf, 'fqn', p)
        p.assume(z3.Length(I.sorts.accessor(fqn.cls, 'items')(fqn.expr)) > 0)      # an interface has a name
        a = [port, sf, fct]
        return a, a

    try:
        if not os.environ.get('PYVC_SKIP_INITPORT'):
            f = I.get_function(f'{PR}.initialize_port_impl')
            ctx.functions[f'{PR}.initialize_port_impl'] = 'proved (unbounded: any number of events and parameters)'

            def impl0(i, p, a, k, f=f):
                tb = i.call_function(f, a, k, p)
                return i.getattr_(tb, 'lines', p)
            refines(ctx, 'processing.initialize_port_impl', f'{PR}.initialize_port_impl', impl0,
                    lambda i, p, a, k: i.call_function(spec.globals['initialize_port_lines'], a, k, p), mk_impl_args,
                    witness=None, text='InitializePort<Port>(): every in-event of the client port reaches the '
                                       'arbitered port; claim selects on the granting reply, release deselects')
        for fname, sname in (('initialize_port_claim_snippet', 'claim_lines'),
                             ('initialize_port_release_snippet', 'release_lines')):
            f = I.get_function(f'{PR}.{fname}')
            ctx.functions[f'{PR}.{fname}'] = 'proved (unbounded: any number of parameters; find_fqn by contract)'

            def impl(i, p, a, k, f=f):
                tb = i.call_function(f, a, k, p)
                return i.getattr_(tb, 'lines', p)
            refines(ctx, f'processing.{fname}', f'{PR}.{fname}', impl,
                    lambda i, p, a, k, sname=sname: i.call_function(spec.globals[sname], a, k, p), mk_args,
                    witness=None, text=f'{fname}: forwards to the arbitered port and (de)selects the client')
    finally:
        I.class_invs.clear()
        I.class_invs.update(saved)
        I.overrides.pop('dznpy.ast_view.find_fqn', None)
        I.overrides.pop(f'{PR}.find_fqn', None)
        I.overrides.pop('dznpy.scoping.NamespaceIds.__add__', None)
        for n in ('dznpy.scoping.namespaceids_t', 'dznpy.scoping.ns_ids_t', 'dznpy.scoping.NamespaceIds.__add__'):
            I.overrides.pop(n, None)


def run_portitf(ctx: Ctx):
    """C02 C10 C12: create_cpp_portitf for an arbitrary exposed port (any names, any namespace depths)."""
    I = ctx.interp
    ghostlib.install(I)
    I.model_strings_break_free = True
    pr = I.load_module(PR)
    cm = I.load_module('dznpy.adv_shell.common')
    cg = I.load_module('dznpy.cpp_gen')
    tg = I.load_module('dznpy.text_gen')
    sc = I.load_module('dznpy.scoping')
    at = I.load_module('dznpy.ast')
    ty = I.load_module('dznpy.adv_shell.types')
    spec = I.load_module('specs.wiring_unbounded')
    NS = sc.globals['NamespaceIds']

    def inv_name(interp, path, v):
        a = interp.sorts.accessor(v.cls, 'name')(v.expr)
        return ops.with_facts(ops.is_ident(a))
    saved = dict(I.class_invs)
    I.class_invs['dznpy.ast.Port'] = [inv_name]
    I.class_invs['dznpy.scoping.NamespaceIds'] = [ns_inv]

    def mk(p, mc):
        dzn = symobj.fresh_value(I, p, TypeDesc('cls', cm.globals['DznPortItf']), 'in_dzn',
                                 opt_choice=lambda n: mc if n.endswith('multiclient') else True)
        enc = symobj.fresh_value(I, p, TypeDesc('cls', cm.globals['CppEncapsulee']), 'in_enc')
        z = ops.to_zstr(enc.fields['member_var'].fields['name'])
        I.break_free_syms.add(z.get_id())
        p.assume(ops.with_facts(ops.is_ident(z)))
        zs = z3.String('in_shell')
        I.break_free_syms.add(zs.get_id())
        p.assume(ops.with_facts(ops.is_ident(zs)))
        scope = I.call(cg.globals['Struct'], [], {'name': ops.mkstr([zs])}, p)
        sfns = I.fresh_dt(NS, 'in_sfns', p)
        mcs = ObjV(tg.globals['GeneratedContent'], {'filename': 'f.hh', 'contents': '', 'namespace': I.fresh_dt(NS, 'in_mcsns', p)})
        sfs = ObjV(cm.globals['SupportFiles'], {'multi_client_selector': mcs})
        port, itf, sem = (dzn.fields[n] for n in ('port', 'interface', 'semantics'))
        I.apply_class_invs(port, p)
        fqn = i_getattr(I, itf, 'fqn', p)
        p.assume(z3.Length(I.sorts.accessor(fqn.cls, 'items')(fqn.expr)) > 0)      # an interface has a name
        if mc:
            # invariant of DznPortItf (its __post_init__) and of create_dzn_elements: only MTS provides ports
            p.assume(sem.expr == I.sorts.enum_const(ty.globals['RuntimeSemantics'].members['MTS']))
            d = i_getattr(I, port, 'direction', p)
            p.assume(d.expr == I.sorts.enum_const(at.globals['PortDirection'].members['PROVIDES']))
        a = [dzn, scope, sfns, enc, sfs]
        return a, a

    f = I.get_function(f'{PR}.create_cpp_portitf')
    view = spec.globals['portitf_view']

    def impl(i, p, a, k):
        r = i.call_function(f, a, k, p)
        return i.call_function(view, [r, a[0], a[1]], {}, p)
    try:
        ctx.functions[f'{PR}.create_cpp_portitf'] = 'proved (any port / interface names and namespace depths)'
        for mc in (False, True):
            refines(ctx, f'processing.create_cpp_portitf{".mc" if mc else ""}', f'{PR}.create_cpp_portitf', impl,
                    lambda i, p, a, k: i.call_function(spec.globals['portitf_expectation'], a, k, p),
                    lambda p, mc=mc: mk(p, mc), witness=None,
                    text='accessor of an exposed port: strict-port type by semantics, target object, boundary member')
    finally:
        I.class_invs.clear()
        I.class_invs.update(saved)


def run_facilities(ctx: Ctx):
    """C09: create_facilities / create_facilities_check_fn for both origins and any shell name."""
    I = ctx.interp
    ghostlib.install(I)
    I.model_strings_break_free = True
    pr = I.load_module(PR)
    cm = I.load_module('dznpy.adv_shell.common')
    cg = I.load_module('dznpy.cpp_gen')
    spec = I.load_module('specs.wiring_unbounded')
    FO = cm.globals['FacilitiesOrigin']

    def mk(p, origin, swap):
        zs = z3.String('in_shell')
        I.break_free_syms.add(zs.get_id())
        p.assume(ops.with_facts(ops.is_ident(zs)))
        scope = I.call(cg.globals['Struct'], [], {'name': ops.mkstr([zs])}, p)
        a = [scope, FO.members[origin]] if swap else [FO.members[origin], scope]
        return a, a

    for fname, vname, sname, swap in (('create_facilities', 'facilities_view', 'facilities_expectation', False),
                                      ('create_facilities_check_fn', 'facilities_check_view',
                                       'facilities_check_expectation', True)):
        f = I.get_function(f'{PR}.{fname}')
        ctx.functions[f'{PR}.{fname}'] = 'proved (both origins, any shell name)'

        def impl(i, p, a, k, f=f, vname=vname, swap=swap):
            r = i.call_function(f, a, k, p)
            return i.call_function(spec.globals[vname], [r, a[0] if swap else a[1]], {}, p)
        for origin in ('CREATE', 'IMPORT'):
            refines(ctx, f'processing.{fname}.{origin}', f'{PR}.{fname}', impl,
                    lambda i, p, a, k, sname=sname: i.call_function(spec.globals[sname], a, k, p),
                    lambda p, origin=origin, swap=swap: mk(p, origin, swap), witness=None,
                    text=f'{fname}: members, accessor and checks follow the configured facilities origin')


def run_multiclient_cfg(ctx: Ctx):
    """C04 C13: check_multiclient_cfg for any interface (any number of events), any settings; find_fqn replaced by its
    contract (C14): it returns the declarations ghost.lookup(name, scope) - any number, of any kinds."""
    I = ctx.interp
    ghostlib.install(I)
    I.model_strings_break_free = True
    pr = I.load_module(PR)
    av = I.load_module('dznpy.ast_view')
    at = I.load_module('dznpy.ast')
    ps = I.load_module('dznpy.adv_shell.port_selection')
    spec = I.load_module('specs.wiring_unbounded')
    ghost_lookup = I.overrides['specs.ghost.lookup']

    def find_fqn_contract(i, path, args, kw):
        fct, ids = args[0], args[1]
        scope = args[2] if len(args) > 2 else kw['as_of_inner_scope']
        items = ghost_lookup(i, path, [fct, ids, scope], {})
        return ObjV(av.globals['FindResult'], {'items': items})
    saved = dict(I.class_invs)
    I.class_invs['dznpy.scoping.NamespaceIds'] = [ns_inv]
    I.overrides['dznpy.ast_view.find_fqn'] = find_fqn_contract
    I.overrides[f'{PR}.find_fqn'] = find_fqn_contract
    ns_contract_names = install_ns_ids_contract(I)
    install_ns_add_contract(I, ctx)

    def unique_event_names(p, itf):
        # model validity: the events of an interface have pairwise different names
        from pyvc.path import fresh_name
        evs = i_getattr(I, i_getattr(I, itf, 'events', p), 'elements', p)
        z = I.to_zseq(evs.term)
        nm = I.sorts.accessor(at.globals['Event'], 'name')
        a, b = z3.Int(fresh_name('u')), z3.Int(fresh_name('u'))
        p.add_hyp([a, b], z3.Implies(z3.And(a >= 0, b >= 0, a < z3.Length(z), b < z3.Length(z), a != b),
                                     nm(z[a]) != nm(z[b])), 'unique event names')

    def mk(p, present):
        from pyvc.interp import OpaqueV
        cfg = None
        if present:
            cfg = symobj.fresh_value(I, p, TypeDesc('cls', ps.globals['MultiClientPortCfg']), 'in_mc')
            # class invariant of MultiClientPortCfg (its __post_init__): no empty setting
            for n in ('port_name', 'claim_event_name', 'release_event_name'):
                p.assume(z3.Length(ops.to_zstr(i_getattr(I, cfg, n, p))) > 0)
            rv = i_getattr(I, cfg, 'claim_granting_reply_value', p)
            p.assume(z3.Length(I.sorts.accessor(rv.cls, 'items')(rv.expr)) > 0)
        cand = ops.mkstr([z3.String('in_candidate')])
        itf = I.fresh_dt(at.globals['Interface'], 'in_itf', p)
        unique_event_names(p, itf)
        fct = OpaqueV(None, 'the file contents (only passed on to find_fqn)')
        a = [cfg, cand, itf, fct]
        return a, a

    f = I.get_function(f'{PR}.check_multiclient_cfg')
    try:
        ctx.functions[f'{PR}.check_multiclient_cfg'] = 'proved (any interface, any settings; find_fqn by contract)'
        for present in (False, True):
            refines(ctx, f'processing.check_multiclient_cfg{".cfg" if present else ""}', f'{PR}.check_multiclient_cfg',
                    lambda i, p, a, k: i.call_function(f, a, k, p),
                    lambda i, p, a, k: i.call_function(spec.globals['multiclient_fixture'], a, k, p),
                    lambda p, present=present: mk(p, present), witness=None,
                    text='multi-client settings: fixture with the configured events and granting reply, or a '
                         'MultiClientCfgError')
    finally:
        I.class_invs.clear()
        I.class_invs.update(saved)
        I.overrides.pop('dznpy.ast_view.find_fqn', None)
        I.overrides.pop(f'{PR}.find_fqn', None)
        for n in ('dznpy.scoping.namespaceids_t', 'dznpy.scoping.ns_ids_t', 'dznpy.scoping.NamespaceIds.__add__'):
            I.overrides.pop(n, None)


# ============================================================== create_dzn_elements: any number of ports (C03 C07 C13)
LIBRARY_ERRORS = ('AdvShellError', 'MultiClientCfgError', 'FindError')


def run_dzn_elements(ctx: Ctx, variants=(('Component', False), ('Component', True), ('System', False), ('System', True))):
    """create_dzn_elements for a component / system with ANY number of ports.  Callees by contract: NamespaceTree.fqn
    (C14), find_fqn (C14: the declarations ghost.lookup(name, scope)), PortsCfg.match together with portnames_t (C03: a
    port name is in the result exactly when its side's configuration covers it, with the value sem(side, name); port
    names pairwise different), check_multiclient_cfg (proved above: a fixture, None or MultiClientCfgError).
    Obligations: every path returns or raises a library error; on return the two lists are exactly
    specs.wiring_unbounded.exposed_ports (every exposed port once, in order, with its one semantics; injected requires
    ports never), and a configured multi-client port was found."""
    from pyvc.compare import equal, Mismatch
    from pyvc.interp import EnumSym, OpaqueV
    from pyvc.values import DictV, DtV, RaiseSignal
    from pyvc.path import Path, explore, fresh_name
    from pyvc.harness import PROVED
    from props import parse_unbounded
    I = ctx.interp
    ghostlib.install(I)
    A = I.load_module('dznpy.ast')
    av = I.load_module('dznpy.ast_view')
    ps = I.load_module('dznpy.adv_shell.port_selection')
    cm = I.load_module('dznpy.adv_shell.common')
    ty = I.load_module('dznpy.adv_shell.types')
    spec = I.load_module('specs.wiring_unbounded')
    RS = ty.globals['RuntimeSemantics']
    rs_sort = I.sorts.sort_of_enum(RS)[0]
    PortD = A.globals['PortDirection']
    ghost_lookup = I.overrides['specs.ghost.lookup']
    saved = dict(I.class_invs)
    I.class_invs['dznpy.scoping.NamespaceIds'] = [ns_inv]
    I.extra_model_classes = ('dznpy.adv_shell.common.MultiClientPortCfgFixture',)
    FX = cm.globals['MultiClientPortCfgFixture']
    fn = f'{PR}.create_dzn_elements'
    SEM = {s: z3.Function(f'ghost.port_semantics.{s}', z3.StringSort(), rs_sort) for s in ('provides', 'requires')}
    COV = {s: z3.Function(f'ghost.covered.{s}', z3.StringSort(), z3.BoolSort()) for s in ('provides', 'requires')}
    state = {}

    def find_fqn_contract(i, path, args, kw):
        fct, ids = args[0], args[1]
        scope = args[2] if len(args) > 2 else kw['as_of_inner_scope']
        return ObjV(av.globals['FindResult'], {'items': ghost_lookup(i, path, [fct, ids, scope], {})})

    def match_contract(i, path, args, kw):
        out = z3.Int(fresh_name('match_outcome'))
        if not path.branch(out == 0):
            raise RaiseSignal(i.call(ty.globals['AdvShellError'], ['configured port names not matched'], {}, path))
        d = DictV(dom=z3.Const(fresh_name('matched_dom'), z3.SetSort(z3.StringSort())),
                  val=z3.Const(fresh_name('matched_val'), z3.ArraySort(z3.StringSort(), rs_sort)),
                  val_wrap=lambda v: EnumSym(RS, v))
        ports = state['ports']
        nm = I.sorts.accessor(A.globals['Port'], 'name')
        dr = I.sorts.accessor(A.globals['Port'], 'direction')
        j = z3.Int(fresh_name('j'))
        n = nm(ports[j])
        prov = dr(ports[j]) == I.sorts.enum_const(PortD.members['PROVIDES'])
        path.add_hyp([j], z3.Implies(z3.And(j >= 0, j < z3.Length(ports)), z3.And(
            z3.IsMember(n, d.dom) == z3.If(prov, COV['provides'](n), COV['requires'](n)),
            z3.Implies(z3.IsMember(n, d.dom),
                       z3.Select(d.val, n) == z3.If(prov, SEM['provides'](n), SEM['requires'](n))))),
            'contract:PortsCfg.match o portnames_t (C03)')
        path.matched_dom = d.dom
        return ObjV(ps.globals['MatchedPorts'], {'value': d})

    def mc_key(name, itf):
        return ops.to_zstr(name), I.to_z3(itf)

    def mc_contract(i, path, args, kw):
        cfg, name, itf, fct = args
        if cfg is None:
            return None
        zn, zi = mc_key(name, itf)
        out = z3.Function('outcome.check_multiclient_cfg', zn.sort(), zi.sort(), z3.IntSort())(zn, zi)
        if path.branch(out == 0):
            return None
        if path.branch(out == 1):
            return DtV(FX, z3.Function('result.check_multiclient_cfg', zn.sort(), zi.sort(),
                                       I.sorts.sort_of_class(FX))(zn, zi))
        raise RaiseSignal(i.call(ty.globals['MultiClientCfgError'], ['invalid multi-client settings'], {}, path))

    def ghost_sem(i, path, args, kw):
        cfg, side, name = args
        return EnumSym(RS, SEM[side](ops.to_zstr(name)))

    def ghost_fixture(i, path, args, kw):
        return mc_contract(i, path, args, kw)
    overrides = {'dznpy.ast_view.find_fqn': find_fqn_contract, f'{PR}.find_fqn': find_fqn_contract,
                 'dznpy.adv_shell.port_selection.PortsCfg.match': match_contract,
                 f'{PR}.check_multiclient_cfg': mc_contract, 'specs.ghost.port_semantics': ghost_sem,
                 'specs.ghost.multiclient_fixture': ghost_fixture}
    I.overrides.update(overrides)
    parse_unbounded.install_tree_contracts(I, ctx)
    f = I.get_function(fn)
    ctx.functions[fn] = 'proved (any number of ports; callees by contract: fqn, find_fqn, PortsCfg.match, ' \
                        'check_multiclient_cfg)'
    ctx.assumptions.append('create_dzn_elements: model validity - the port names of a component are pairwise different '
                           'and non-empty; PortsCfg.match / portnames_t by their C03 contracts')
    try:
        for (enc_cls, with_mc) in variants:
            if True:
                tag = f'{enc_cls}{",multiclient" if with_mc else ""}'

                def mk(p, enc_cls=enc_cls, with_mc=with_mc):
                    enc = I.fresh_dt(A.globals[enc_cls], 'in_enc', p)
                    ports = I.sorts.accessor(A.globals['Ports'], 'elements')(
                        I.sorts.accessor(A.globals[enc_cls], 'ports')(enc.expr))
                    state['ports'] = ports
                    nm = I.sorts.accessor(A.globals['Port'], 'name')
                    a, b = z3.Int(fresh_name('u')), z3.Int(fresh_name('u'))
                    p.add_hyp([a, b], z3.Implies(z3.And(a >= 0, b >= 0, a < z3.Length(ports), b < z3.Length(ports),
                                                        a != b), nm(ports[a]) != nm(ports[b])), 'unique port names')
                    p.add_hyp([a], z3.Implies(z3.And(a >= 0, a < z3.Length(ports)), z3.Length(nm(ports[a])) > 0),
                              'non-empty port names')
                    mc = symobj.fresh_value(I, p, TypeDesc('cls', ps.globals['MultiClientPortCfg']), 'in_mc') \
                        if with_mc else None
                    pcfg = ObjV(ps.globals['PortsCfg'], {'provides': OpaqueV(None, 'provides side'),
                                                         'requires': OpaqueV(None, 'requires side'), 'multiclient': mc})
                    cfg = ObjV(cm.globals['Configuration'], {'ports_cfg': pcfg})
                    fct = OpaqueV(None, 'the file contents (only passed on to find_fqn / check_multiclient_cfg)')
                    return [cfg, fct, enc], {}
                res = I.run_function(f, mk)
                n_ret = 0
                for k, (p, (kind, val, args)) in enumerate(res):
                    oid = f'processing.create_dzn_elements[{tag}]:path{k}'
                    if kind == 'raise':
                        name = val.cls.name
                        if name in LIBRARY_ERRORS:
                            o = ctx.new(oid + ':raises', 'raises', fn, f'rejected with the library error {name}')
                            ctx.settle(o, PROVED, 'syntactic')
                            # a rejection for a missing semantics must be about an EXPOSED port: a provides port or a
                            # requires port that is not injected (valid inputs succeed; injected ports need no semantics)
                            last = p.conds[-1] if p.conds else None
                            if name == 'AdvShellError' and last is not None and z3.is_const(last) and \
                                    str(last).startswith('ex#') and getattr(p, 'matched_dom', None) is not None:
                                w = z3.Int(str(last) + '.w')
                                ports = state['ports']
                                P = A.globals['Port']
                                prt = ports[w]
                                exposed = z3.Or(
                                    I.sorts.accessor(P, 'direction')(prt) == I.sorts.enum_const(PortD.members['PROVIDES']),
                                    z3.Not(I.sorts.accessor(A.globals['Injected'], 'value')(
                                        I.sorts.accessor(P, 'injected')(prt))))
                                pj = p.child()
                                pj.add_index(w)
                                ctx.prove(oid + ':justified', 'raises', fn, pj, z3.And(
                                    w >= 0, w < z3.Length(ports), exposed,
                                    z3.Not(z3.IsMember(I.sorts.accessor(P, 'name')(prt), p.matched_dom))),
                                    'a port without semantics is a reason to reject only if it is exposed and its '
                                    'side of the configuration does not cover it')
                        else:
                            msg = ' '.join(str(a)[:100] for a in (val.fields.get('args') or ()))
                            ctx.prove(oid + ':raises', 'raises', fn, p.child(), False,
                                      f'internal error {name} ({msg}) instead of a library error')
                        continue
                    if kind != 'return':
                        ctx.prove(oid + ':outcome', 'ensures', fn, p.child(), False, f'unexpected outcome {kind}: {val}')
                        continue
                    n_ret += 1

                    def run_spec(q, args=args):
                        I.ghost_depth += 1
                        try:
                            return I.call_function(spec.globals['exposed_ports'], list(args), {}, q)
                        except RaiseSignal as rs:
                            return ('spec-undefined', rs.exc)
                        finally:
                            I.ghost_depth -= 1
                    got = (I.getattr_(val, 'provides_ports', p), I.getattr_(val, 'requires_ports', p))
                    for j, (q, want) in enumerate(explore(p, run_spec, 400)):
                        if isinstance(want, tuple) and len(want) == 2 and want[0] == 'spec-undefined':
                            ctx.prove(f'{oid}.{j}:defined', 'ensures', fn, q, False,
                                      f'the function returns although the specification is undefined here '
                                      f'({want[1].cls.name}: a port type that does not denote exactly one declaration)')
                            continue
                        try:
                            I.unify_atoms(q)
                            leaves = equal(I, q, got, want)
                        except Mismatch as mm:
                            ctx.prove(f'{oid}.{j}:ensures', 'ensures', fn, q, False,
                                      f'the exposed ports differ structurally from the specification: {mm}')
                            continue
                        if not leaves:
                            o = ctx.new(f'{oid}.{j}:ensures', 'ensures', fn, 'exposed ports == specification (syntactically)')
                            ctx.settle(o, PROVED, 'syntactic')
                        for n_, lf in enumerate(leaves):
                            ctx.prove(f'{oid}.{j}:ensures.{n_}', 'ensures', fn, lf.path, lf.goal,
                                      f'every exposed port once, in order, with its interface, its ONE semantics and '
                                      f'its fixture @ {lf.where}')
                if n_ret == 0:
                    ctx.prove(f'processing.create_dzn_elements[{tag}]:some-return', 'ensures', fn, Path(), False,
                              'vacuity: no path of create_dzn_elements returns')
    finally:
        for q in overrides:
            I.overrides.pop(q, None)
        for q in ('dznpy.scoping.NamespaceTree.fqn', 'dznpy.scoping.NamespaceTree.fqn_member_name',
                  'specs.scoping.tree_fqn'):
            I.overrides.pop(q, None)
        I.extra_model_classes = ()
        I.class_invs.clear()
        I.class_invs.update(saved)
