"""Harness for the parser properties C05 / C15 / C16: the real json_ast module is executed symbolically on JSON
documents with CONCRETE STRUCTURE (specs/docs.py, plus systematically malformed variants) and SYMBOLIC LEAVES (names,
values, numbers).  orjson.loads is replaced by the document value itself (the JSON text is an opaque token)."""
from __future__ import annotations

import copy

import z3

from pyvc import ops
from pyvc.compare import equal, Mismatch
from pyvc.harness import Ctx, PROVED, REFUTED, UNDECIDED, zstr_value, eval_model
from pyvc.interp import Interp, EnumSym, TerminationViolation
from pyvc.path import Path, explore
from pyvc.values import (ObjV, DtV, SeqV, SeqT, LitB, DictV, StrT, EnumV, RaiseSignal, Unsupported, ExcV, ClassV,
                         FrameViolation)
from specs import docs as D

JA = 'dznpy.json_ast'
KNOWN_CLASSES = ['root', 'namespace', 'component', 'enum', 'extern', 'foreign', 'file-name', 'import', 'interface',
                 'system', 'subint', 'scope_name', 'data', 'fields', 'range', 'types', 'events', 'event', 'signature',
                 'formals', 'formal', 'ports', 'port', 'instances', 'instance', 'bindings', 'binding', 'end-point',
                 'comment']
INT_KEYS = ('lo', 'hi')
TEXT_KEYS = ('xval', 'v', 'v1', 'v2', 'v3', 'a', 'b', 'wd', 'imp', 'fn')


class SymNames:
    """naming function: identifiers for names, integers for range bounds, arbitrary strings for data values"""

    def __init__(self, path, tag=''):
        self.p, self.tag, self.syms = path, tag, {}

    def __call__(self, key):
        if key in self.syms:
            return self.syms[key][1]
        nm = f'in_{self.tag}{key}'
        if key in INT_KEYS:
            z = z3.Int(nm)
            v = z
        elif key == 'ucls':
            z = z3.String(nm)
            for c in KNOWN_CLASSES:
                self.p.assume(z != z3.StringVal(c))
            v = ops.mkstr([z])
        elif key in TEXT_KEYS:
            z = z3.String(nm)
            v = ops.mkstr([z])
        else:
            z = z3.String(nm)
            self.p.assume(ops.with_facts(ops.is_ident(z)))
            v = ops.mkstr([z])
        self.syms[key] = (z, v)
        return v

    def witness(self, m):
        out = {}
        for k, (z, v) in self.syms.items():
            if z3.is_int(z):
                x = eval_model(m, z)
                out[k] = x.as_long() if (x is not None and z3.is_int_value(x)) else 0
            else:
                out[k] = zstr_value(m, z)
        return out


def to_value(j):
    """JSON (python) with symbolic leaves -> executor value"""
    if isinstance(j, dict):
        return DictV(concrete={k: to_value(v) for k, v in j.items()})
    if isinstance(j, (list, tuple)):
        items = [to_value(x) for x in j]
        return SeqV(SeqT([LitB(items)]) if items else SeqT())
    return j


def freeze(v, seen=None):
    from props.gen_common import freeze_inputs
    freeze_inputs(None, v, 'the JSON document held by the parser (input)')


def describe_fc(I, p, fc):
    """the FileContents as plain nested tuples in the form of specs.docs.expected"""
    def items(v):
        t = v.term if isinstance(v, SeqV) else v
        if not ops.seq_is_lit(t):
            raise Unsupported('parser result list is not concrete-length')
        return ops.seq_lit_items(t)

    def ids(ns):
        return tuple(items(ns.fields['items'])) if isinstance(ns, ObjV) else tuple(items(I.getattr_(ns, 'items', p)))

    def sname(sn):
        return ids(sn.fields['value'])

    def ports(ps):
        return tuple((x.fields['name'], sname(x.fields['type_name']), x.fields['direction'].name.lower(),
                      x.fields['injected'].fields['value']) for x in items(ps.fields['elements']))

    def tree_fqn(t):
        res = ()
        while t.fields.get('parent') is not None:
            res = ids(t.fields['scope_name']) + res
            t = t.fields['parent']
        return res

    out = {k: [] for k in D.KINDS}
    extra = []
    for k in D.KINDS:
        for x in items(fc.fields[k]):
            cn = x.cls.name
            if cn in ('Import', 'Filename'):
                out[k].append((cn, x.fields['name']))
                continue
            fqn = ids(x.fields['fqn'])
            # the recorded parent namespace and own name must agree with the fully qualified name
            extra.append((fqn, tree_fqn(x.fields['parent_ns']) + sname(x.fields['name'])))
            if cn == 'Extern':
                out[k].append((cn, fqn, x.fields['value'].fields['value']))
            elif cn == 'Enum':
                out[k].append((cn, fqn, tuple(items(x.fields['fields'].fields['elements']))))
            elif cn == 'SubInt':
                out[k].append((cn, fqn, x.fields['range'].fields['from_int'], x.fields['range'].fields['to_int']))
            elif cn == 'Interface':
                evs = tuple((e.fields['name'], e.fields['direction'].name.lower(),
                             sname(e.fields['signature'].fields['type_name']),
                             tuple((f.fields['name'], sname(f.fields['type_name']),
                                    {'IN': 'in', 'OUT': 'out', 'INOUT': 'inout'}[f.fields['direction'].name])
                                   for f in items(e.fields['signature'].fields['formals'].fields['elements'])))
                            for e in items(x.fields['events'].fields['elements']))
                out[k].append((cn, fqn, evs))
            elif cn in ('Component', 'Foreign'):
                out[k].append((cn, fqn, ports(x.fields['ports'])))
            elif cn == 'System':
                inst = tuple((i.fields['name'], sname(i.fields['type_name']))
                             for i in items(x.fields['instances'].fields['elements']))
                binds = tuple(((b.fields['left'].fields['port_name'], b.fields['left'].fields['instance_name']),
                               (b.fields['right'].fields['port_name'], b.fields['right'].fields['instance_name']))
                              for b in items(x.fields['bindings'].fields['elements']))
                out[k].append((cn, fqn, ports(x.fields['ports']), inst, binds))
            else:
                out[k].append((cn, fqn))
    return {k: tuple(v) for k, v in out.items()}, extra


def new_parser(I, p, doc_value, verbose=False):
    ja = I.load_module(JA)
    I.orjson_loads = lambda i, pp, a, k: doc_value
    from pyvc.interp import OpaqueV
    token = OpaqueV(None, 'json text')
    return I.call(ja.globals['DznJsonAst'], [token], {'verbose': verbose}, p)


def run_process(I, p, parser):
    try:
        r = I.call(I.getattr_(parser, 'process', p), [], {}, p)
        return ('return', r)
    except RaiseSignal as rs:
        return ('raise', rs.exc)
    except FrameViolation as fv:
        return ('frame', fv)
    except TerminationViolation as tv:
        return ('diverge', tv)
