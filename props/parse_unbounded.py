"""Unbounded contracts of the element parsers of dznpy.json_ast (C05): for WELL-FORMED elements with ANY number of list
entries (formals, events, ports, instances, bindings, fields, identifiers of a scope name) the parser returns exactly the
model objects of specs/parse_spec.py.  The input is 'typed JSON' (pyvc.values.RecV): a Python dict whose key set is
that of the element class and whose values are the fields of a z3 datatype value; lists are z3 sequences.

Well-formedness (the precondition, from the Dezyne JSON AST format): directions are one of the legal words, scope names
have at least one identifier and only identifiers, 'injected?' - if present - is 'injected', an out event has reply type
void and no out parameter.  Ill-formed input is C15's subject (bounded corpus)."""
from __future__ import annotations

import z3

from pyvc import ops, ghostlib
from pyvc.harness import Ctx, refines
from pyvc.path import fresh_name
from pyvc.sorts import TypeDesc as T
from pyvc.values import RecSchema, Unsupported, RaiseSignal

JA = 'dznpy.json_ast'


def schemas():
    S = {}

    def rec(name, fields, optional=(), cls=None):
        S[name] = RecSchema(name, {'<class>': cls or name}, fields, optional)
        return T('rec', S[name])
    sn = rec('scope_name', [('ids', T('list', T('str')))])
    formal = rec('formal', [('name', T('str')), ('type_name', sn), ('direction', T('str'))])
    formals = rec('formals', [('elements', T('list', formal))])
    sig = rec('signature', [('type_name', sn), ('formals', formals)])
    event = rec('event', [('name', T('str')), ('signature', sig), ('direction', T('str'))])
    rec('events', [('elements', T('list', event))])
    port = rec('port', [('name', T('str')), ('type_name', sn), ('direction', T('str')), ('formals', formals),
                        ('injected?', T('str'))], optional=['injected?'])
    rec('ports', [('elements', T('list', port))])
    inst = rec('instance', [('name', T('str')), ('type_name', sn)])
    rec('instances', [('elements', T('list', inst))])
    ep = rec('end-point', [('port_name', T('str')), ('instance_name', T('str'))], optional=['instance_name'])
    binding = rec('binding', [('left', ep), ('right', ep)])
    rec('bindings', [('elements', T('list', binding))])
    rec('fields', [('elements', T('list', T('str')))])
    rng = rec('range', [('from', T('int')), ('to', T('int'))])
    data = rec('data', [('value', T('str'))])
    flds, ports, insts, binds, events = (T('rec', S[n]) for n in ('fields', 'ports', 'instances', 'bindings', 'events'))
    rec('enum', [('name', sn), ('fields', flds)])
    rec('subint', [('name', sn), ('range', rng)])
    rec('extern', [('name', sn), ('value', data)])
    rec('foreign', [('name', sn), ('ports', ports)])
    rec('component', [('name', sn), ('ports', ports)])
    rec('system', [('name', sn), ('ports', ports), ('instances', insts), ('bindings', binds)])
    # an item of an interface's 'types' list: an enum, a subint or something the parser skips - the class tag is data
    S['type_item'] = RecSchema('type_item', {}, [('<class>', T('str')), ('name', sn), ('fields', flds), ('range', rng)],
                               optional=['fields', 'range'])
    types = rec('types', [('elements', T('list', T('rec', S['type_item'])))])
    rec('interface', [('name', sn), ('types', types), ('events', events)])
    any_list = T('list', T('any'))
    rec('namespace', [('name', sn), ('elements', any_list)])
    cmt = rec('comment', [('string', T('str'))])
    rec('root', [('comment', cmt), ('elements', any_list), ('working-directory', T('str'))], optional=['comment'])
    rec('import', [('name', T('str'))])
    rec('file-name', [('name', T('str'))])
    return S


def install_wellformedness(I, S):
    def one_of(z, words):
        return z3.Or(*[z == z3.StringVal(w) for w in words])

    def inv_sn(i, p, v):
        z = i.sorts.rec_accessor(v.schema, 'ids')(v.expr)
        reg = p.__dict__.setdefault('_sninv', set())
        if z.get_id() not in reg:
            reg.add(z.get_id())
            q = z3.Int(fresh_name('q'))
            p.add_hyp([q], z3.Implies(z3.And(q >= 0, q < z3.Length(z)), ops.with_facts(ops.is_ident(z[q]))),
                      'well-formed scope_name: identifiers only')
        return z3.Length(z) > 0

    def inv_formal(i, p, v):
        return one_of(i.sorts.rec_accessor(v.schema, 'direction')(v.expr), ('in', 'out', 'inout'))

    def inv_event(i, p, v):
        acc = lambda sch, k: i.sorts.rec_accessor(sch, k)
        d = acc(v.schema, 'direction')(v.expr)
        sig = acc(v.schema, 'signature')(v.expr)
        ret = acc(S['scope_name'], 'ids')(acc(S['signature'], 'type_name')(sig))
        fl = acc(S['formals'], 'elements')(acc(S['signature'], 'formals')(sig))
        reg = p.__dict__.setdefault('_evinv', set())
        if v.expr.get_id() not in reg:
            reg.add(v.expr.get_id())
            q = z3.Int(fresh_name('q'))
            p.add_hyp([q], z3.Implies(z3.And(d == z3.StringVal('out'), q >= 0, q < z3.Length(fl)),
                                      acc(S['formal'], 'direction')(fl[q]) != z3.StringVal('out')),
                      'well-formed out event: no out parameter')
        void = z3.Unit(z3.StringVal('void'))
        return z3.And(one_of(d, ('in', 'out')), z3.Implies(d == z3.StringVal('out'), ret == void))

    def inv_port(i, p, v):
        d = i.sorts.rec_accessor(v.schema, 'direction')(v.expr)
        inj = i.sorts.rec_accessor(v.schema, 'injected?')(v.expr)
        s, none, some, val = i.sorts.sort_of_opt(T('str'))
        return z3.And(one_of(d, ('requires', 'provides')), z3.Or(inj == none, inj == some(z3.StringVal('injected'))))
    def inv_type_item(i, p, v):
        c = i.sorts.rec_accessor(v.schema, '<class>')(v.expr)
        return z3.And(z3.Implies(c == z3.StringVal('enum'), i.rec_present(v, 'fields')),
                      z3.Implies(c == z3.StringVal('subint'), i.rec_present(v, 'range')))
    I.rec_invs = {'scope_name': [inv_sn], 'formal': [inv_formal], 'event': [inv_event], 'port': [inv_port],
                  'type_item': [inv_type_item]}


def install_tree_contracts(I, ctx):
    """NamespaceTree.fqn_member_name and specs.scoping.tree_fqn by contract (proved under C14)"""
    sc = I.load_module('dznpy.scoping')
    NS, NT = sc.globals['NamespaceIds'], sc.globals['NamespaceTree']
    STR_SEQ = z3.SeqSort(z3.StringSort())
    FQN = z3.Function('spec.tree_fqn', I.sorts.sort_of_class(NT), STR_SEQ)

    def fqn_items(i, tree, path):
        """tree_fqn(tree) as a sequence term: uninterpreted for an input tree, one unfolding of its definition
        (specs.scoping.tree_fqn) for a node built by the code under analysis"""
        from pyvc.values import DtV, ObjV, SeqV
        if isinstance(tree, DtV):
            z = FQN(tree.expr)
            reg = path.__dict__.setdefault('_fqninv', set())
            if z.get_id() not in reg:
                reg.add(z.get_id())
                q = z3.Int(fresh_name('q'))
                path.add_hyp([q], z3.Implies(z3.And(q >= 0, q < z3.Length(z)), ops.with_facts(ops.is_ident(z[q]))),
                             'contract:fqn ensures inv_ids')
            return i.seq_of_base(z, T('str'), path).blocks
        if isinstance(tree, ObjV) and tree.cls is NT and tree.fields.get('parent') is not None:
            own = i.getattr_(tree.fields['scope_name'], 'items', path)
            return tuple(fqn_items(i, tree.fields['parent'], path)) + tuple(own.term.blocks)
        raise Unsupported('namespace tree of unknown shape')

    def fqn_member_name_contract(i, path, args, kw):
        # contract proved under C14: fqn_member_name(m).items == tree_fqn(self) ++ m.items
        from pyvc.values import ObjV, SeqV, SeqT
        tree, member = args
        own = i.getattr_(member, 'items', path)
        return ObjV(NS, {'items': SeqV(SeqT(tuple(fqn_items(i, tree, path)) + tuple(own.term.blocks)))})

    def tree_fqn_contract(i, path, args, kw):
        from pyvc.values import SeqV, SeqT
        return SeqV(SeqT(tuple(fqn_items(i, args[0], path))))
    def fqn_contract(i, path, args, kw):
        # contract proved under C14: fqn.items == tree_fqn(self)
        from pyvc.values import ObjV, SeqV, SeqT
        return ObjV(NS, {'items': SeqV(SeqT(tuple(fqn_items(i, args[0], path))))})
    I.overrides['dznpy.scoping.NamespaceTree.fqn'] = fqn_contract
    I.overrides['dznpy.scoping.NamespaceTree.fqn_member_name'] = fqn_member_name_contract
    I.overrides['specs.scoping.tree_fqn'] = tree_fqn_contract
    ctx.assumptions.append('callee by contract: NamespaceTree.fqn_member_name(m).items == tree_fqn(self) ++ m.items '
                           '(proved under C14)')


TABLE = (('parse_scope_name', 'scope_name', 'scope_name'), ('parse_formal', 'formal', 'formal'),
         ('parse_formals', 'formals', 'formals'), ('parse_signature', 'signature', 'signature'),
         ('parse_event', 'event', 'event'), ('parse_events', 'events', 'events'), ('parse_port', 'port', 'port'),
         ('parse_ports', 'ports', 'ports'), ('parse_instance', 'instance', 'instance'),
         ('parse_instances', 'instances', 'instances'), ('parse_endpoint', 'end-point', 'endpoint'),
         ('parse_binding', 'binding', 'binding'), ('parse_bindings', 'bindings', 'bindings'),
         ('parse_fields', 'fields', 'fields'), ('parse_range', 'range', 'range_'), ('parse_data', 'data', 'data'),
         ('parse_namespace', 'namespace', 'namespace'), ('parse_root', 'root', 'root'),
         ('parse_comment', 'comment', 'comment'), ('parse_import', 'import', 'import_'),
         ('parse_filename', 'file-name', 'filename'))
# declarations: (function, schema, specification) - called with (element, parent_ns)
DECLS = (('parse_enum', 'enum', 'enum'), ('parse_subint', 'subint', 'subint'), ('parse_extern', 'extern', 'extern'),
         ('parse_foreign', 'foreign', 'foreign'), ('parse_component', 'component', 'component'),
         ('parse_system', 'system', 'system'), ('parse_types', 'types', 'types'),
         ('parse_interface', 'interface', 'interface'))


def run(ctx: Ctx, only=None):
    from props.gen_unbounded import ns_inv
    I = ctx.interp
    ghostlib.install(I)
    I.load_module(JA)
    spec = I.load_module('specs.parse_spec')
    S = schemas()
    install_wellformedness(I, S)
    saved = dict(I.class_invs)
    I.class_invs['dznpy.scoping.NamespaceIds'] = [ns_inv]
    ctx.assumptions.append('parser contracts (props/parse_unbounded.py): input elements are WELL-FORMED typed JSON '
                           '(key set of the element class, values of the right JSON type, legal direction words, '
                           'identifiers in scope names); ill-formed input is decided on the bounded corpus of C15')
    install_tree_contracts(I, ctx)
    NT = I.load_module('dznpy.scoping').globals['NamespaceTree']
    try:
        for fname, sname, specname in DECLS:
            if only and fname not in only:
                continue
            f = I.get_function(f'{JA}.{fname}')
            ctx.functions[f'{JA}.{fname}'] = 'proved for well-formed elements (any list sizes, any enclosing namespaces)'

            def mk2(p, sname=sname):
                e = I.wrap(T('rec', S[sname]), z3.Const('in_elt', I.sorts.sort_of_rec(S[sname])), p)
                tree = I.fresh_dt(NT, 'in_parent_ns', p)
                return [e, tree], [e, tree]
            refines(ctx, f'json_ast.{fname}', f'{JA}.{fname}', lambda i, p, a, k, f=f: i.call_function(f, a, k, p),
                    lambda i, p, a, k, specname=specname: i.call_function(spec.globals[specname], a, k, p), mk2,
                    witness=None, text=f'{fname}(well-formed element, parent_ns) == specs.parse_spec.{specname}: fully '
                                       f'qualified by the enclosing namespaces, details as written')
        for fname, sname, specname in TABLE:
            if only and fname not in only:
                continue
            f = I.get_function(f'{JA}.{fname}')
            ctx.functions[f'{JA}.{fname}'] = 'proved for well-formed elements (any number of list entries)'

            def mk(p, sname=sname):
                e = I.wrap(T('rec', S[sname]), z3.Const('in_elt', I.sorts.sort_of_rec(S[sname])), p)
                return [e], [e]
            refines(ctx, f'json_ast.{fname}', f'{JA}.{fname}', lambda i, p, a, k, f=f: i.call_function(f, a, k, p),
                    lambda i, p, a, k, specname=specname: i.call_function(spec.globals[specname], a, k, p), mk,
                    witness=None, text=f'{fname}(well-formed element) == specs.parse_spec.{specname}(element): one '
                                       f'model object per entry, in source order, values as written')
    finally:
        I.class_invs.clear()
        I.class_invs.update(saved)
        I.rec_invs = {}
        I.overrides.pop('dznpy.scoping.NamespaceTree.fqn_member_name', None)
        I.overrides.pop('dznpy.scoping.NamespaceTree.fqn', None)
        I.overrides.pop('specs.scoping.tree_fqn', None)


# ================================================================================= whole documents (any nesting)
KIND_CLASS = {'components': 'Component', 'enums': 'Enum', 'externs': 'Extern', 'filenames': 'Filename',
              'foreigns': 'Foreign', 'imports': 'Import', 'interfaces': 'Interface', 'subints': 'SubInt',
              'systems': 'System'}
ITEM_CLASSES = ('component', 'enum', 'extern', 'foreign', 'file-name', 'import', 'interface', 'system', 'subint')


def item_union(I, S):
    """JSON union of everything that can stand in an 'elements' list of a root / namespace element: one of the nine
    declaration classes, a namespace (recursive), a dict of an unknown class, or a non-dict value"""
    from pyvc.values import JUnion
    san = lambda c: c.replace('-', '_')
    d = z3.Datatype('JItem')
    ref = z3.DatatypeSort('JItem')
    for c in ITEM_CLASSES:
        d.declare('it_' + san(c), ('as_' + san(c), I.sorts.sort_of_rec(S[c])))
    d.declare('it_namespace', ('ns_name', I.sorts.sort_of_rec(S['scope_name'])), ('ns_elements', z3.SeqSort(ref)))
    d.declare('it_other', ('other_class', z3.StringSort()))
    d.declare('it_nondict', ('nondict_tag', z3.IntSort()))
    sort = d.create()
    U = JUnion('JItem', sort)
    n = len(ITEM_CLASSES)
    for k, c in enumerate(ITEM_CLASSES):
        U.variants.append((sort.recognizer(k),
                           lambda i, e, p, k=k, c=c: i.wrap(T('rec', S[c]), sort.accessor(k, 0)(e), p)))
    ns_schema = RecSchema('namespace_item', {'<class>': 'namespace'},
                          [('name', T('rec', S['scope_name'])), ('elements', T('list', T('junion', U)))],
                          acc={'name': sort.accessor(n, 0), 'elements': sort.accessor(n, 1)}, sort=sort)
    other_schema = RecSchema('other_item', {}, [('<class>', T('str'))], acc={'<class>': sort.accessor(n + 1, 0)}, sort=sort)
    known = ITEM_CLASSES + ('namespace',)

    def mk_other(i, e, p):
        c = sort.accessor(n + 1, 0)(e)
        p.define(z3.And(*[c != z3.StringVal(w) for w in known]))
        return i.wrap(T('rec', other_schema), e, p)
    U.variants.append((sort.recognizer(n), lambda i, e, p: i.wrap(T('rec', ns_schema), e, p)))
    U.variants.append((sort.recognizer(n + 1), mk_other))
    U.variants.append((sort.recognizer(n + 2), lambda i, e, p: sort.accessor(n + 2, 0)(e)))
    U.ns_elements = sort.accessor(n, 1)
    return U


def run_documents(ctx: Ctx, parts=('parse_element', 'process')):
    """DznJsonAst.parse_element (recursion by contract, structural decrease) and DznJsonAst.process against
    specs.parse_spec.decls_of / document_decls: well-formed documents of ANY size and ANY nesting of namespaces."""
    from props.gen_unbounded import ns_inv
    from pyvc.values import DtV, ObjV, SeqV, SeqT, JUnionV
    from pyvc.builtins_ import list_extend
    from pyvc.harness import PROVED, REFUTED
    I = ctx.interp
    ghostlib.install(I)
    ja = I.load_module(JA)
    A = I.load_module('dznpy.ast')
    sc = I.load_module('dznpy.scoping')
    spec = I.load_module('specs.parse_spec')
    NS, NT = sc.globals['NamespaceIds'], sc.globals['NamespaceTree']
    S = schemas()
    install_wellformedness(I, S)
    U = item_union(I, S)
    S['root_doc'] = RecSchema('root_doc', {'<class>': 'root'},
                              [('comment', T('rec', S['comment'])), ('elements', T('list', T('junion', U))),
                               ('working-directory', T('str'))], optional=['comment'])
    saved = dict(I.class_invs)
    I.class_invs['dznpy.scoping.NamespaceIds'] = [ns_inv]
    install_tree_contracts(I, ctx)
    nt_sort = I.sorts.sort_of_class(NT)
    ns_sort = I.sorts.sort_of_class(NS)
    DK = {k: z3.Function('spec.decls.' + k, U.sort, nt_sort, z3.SeqSort(I.sorts.sort_of_class(A.globals[c])))
          for k, c in KIND_CLASS.items()}
    STR_SEQ = z3.SeqSort(z3.StringSort())

    def tree_term(i, tree, path):
        if isinstance(tree, DtV):
            return tree.expr
        if isinstance(tree, ObjV) and tree.cls is NT:
            if tree.fields.get('parent') is None:
                return nt_sort.constructor(0)()
            items = i.getattr_(tree.fields['scope_name'], 'items', path)
            z = i.to_zseq(items.term) if items.term.blocks else z3.Empty(STR_SEQ)
            if z is None:
                raise Unsupported('scope name of a namespace tree node not expressible')
            return nt_sort.constructor(1)(tree_term(i, tree.fields['parent'], path), ns_sort.constructor(0)(z))
        raise Unsupported('namespace tree of unknown shape')

    def decls_value(i, kind, item, tree, path):
        if not isinstance(item, JUnionV):
            raise Unsupported('recursive call on something else than a document element')
        return i.seq_of_base(DK[kind](item.expr, tree_term(i, tree, path)), T('cls', A.globals[KIND_CLASS[kind]]), path)

    state = {'impl_depth': 0, 'spec_depth': 0, 'decr': [], 'force': False, 'outer': None}
    pe = I.get_function(f'{JA}.DznJsonAst.parse_element')

    def smaller(item):
        """the recursive call is made on an element of the outer namespace element's list"""
        o = state['outer']
        e = item.expr if isinstance(item, JUnionV) else None
        return (e is not None and o is not None and z3.is_app(e) and e.decl().kind() == z3.Z3_OP_SEQ_NTH and
                e.arg(0).eq(U.ns_elements(o)))

    def parse_element_contract(i, path, args, kw):
        selfv, element, parent = args
        if state['impl_depth'] == 0 and not state['force']:
            state['impl_depth'] = 1
            state['outer'] = element.expr if isinstance(element, JUnionV) else None
            try:
                return i.call_function(pe, args, kw, path, bypass_override=True)
            finally:
                state['impl_depth'] = 0
        if not state['force']:
            state['decr'].append(smaller(element))
        fct = i.getattr_(selfv, 'file_contents', path)
        for k in KIND_CLASS:
            list_extend(i, path, fct.fields[k], SeqV(decls_value(i, k, element, parent, path)))
        return None

    def decls_of_contract(i, path, args, kw):
        kind, item, tree = args
        if state['spec_depth'] == 0 and not state['force']:
            state['spec_depth'] = 1
            try:
                return i.call_function(spec.globals['decls_of'], args, kw, path, bypass_override=True)
            finally:
                state['spec_depth'] = 0
        return SeqV(decls_value(i, kind, item, tree, path))
    I.overrides[f'{JA}.DznJsonAst.parse_element'] = parse_element_contract
    I.overrides['specs.parse_spec.decls_of'] = decls_of_contract
    Ast = ja.globals['DznJsonAst']

    def new_parser(p, symbolic_old):
        obj = I.call(Ast, [], {}, p)
        fct = obj.fields['_file_contents']
        olds = {}
        for k, c in KIND_CLASS.items():
            if symbolic_old:
                z = z3.Const('old_' + k, z3.SeqSort(I.sorts.sort_of_class(A.globals[c])))
                fct.fields[k] = SeqV(I.seq_of_base(z, T('cls', A.globals[c]), p))
                olds[k] = fct.fields[k].term
        return obj, olds
    try:
        ctx.functions[f'{JA}.DznJsonAst.parse_element'] = 'proved (recursion by contract over nested namespaces, ' \
                                                         'structural decrease; well-formed elements of any size)'
        ctx.functions[f'{JA}.DznJsonAst.process'] = 'proved for well-formed documents of any size and nesting ' \
                                                   '(parse_element by contract)'
        for kind in (KIND_CLASS if 'parse_element' in parts else ()):
            def mk(p):
                parser, olds = new_parser(p, True)
                item = I.wrap(T('junion', U), z3.Const('in_item', U.sort), p)
                tree = I.fresh_dt(NT, 'in_parent_ns', p)
                return [parser, item, tree], [item, tree, olds]

            def impl(i, p, a, k, kind=kind):
                state['decr'] = []
                i.call_function(pe, a, k, p)
                p.decr = list(state['decr'])
                return i.getattr_(i.getattr_(a[0], 'file_contents', p), kind, p)

            def spc(i, p, a, k, kind=kind):
                own = i.call_function(spec.globals['decls_of'], [kind] + a[:2], k, p)
                return SeqV(SeqT(tuple(a[2][kind].blocks) + tuple(own.term.blocks)))
            res = refines(ctx, f'json_ast.parse_element[{kind}]', f'{JA}.DznJsonAst.parse_element', impl, spc, mk,
                          witness=None, text=f'parse_element appends exactly decls_of({kind!r}, element, parent_ns) '
                                             f'to FileContents.{kind} and nothing else')
            for n_, (p, r) in enumerate(res or []):
                for dd in getattr(p, 'decr', []):
                    o = ctx.new(f'json_ast.parse_element[{kind}]:path{n_}:decreases', 'decreases',
                                f'{JA}.DznJsonAst.parse_element', 'the recursive call is made on an element of the '
                                                                  "namespace element's own list (structurally smaller)")
                    ctx.settle(o, PROVED if dd else REFUTED, 'syntactic', '' if dd else 'recursive call on another value')
        # process(): parse_element by its contract.  The parser object is in an ARBITRARY earlier state (file contents of
        # any earlier parse): the result depends on the document only (C16: processing again does not accumulate)
        state['force'] = True
        pr = I.get_function(f'{JA}.DznJsonAst.process')
        for kind in (KIND_CLASS if 'process' in parts else ()):
            def mk2(p):
                parser, _ = new_parser(p, True)
                doc = I.wrap(T('rec', S['root_doc']), z3.Const('in_doc', I.sorts.sort_of_rec(S['root_doc'])), p)
                parser.fields['_ast'] = doc
                return [parser], [doc]

            def impl2(i, p, a, k, kind=kind):
                fct = i.call_function(pr, a, k, p)
                return i.getattr_(fct, kind, p)
            refines(ctx, f'json_ast.process[{kind}]', f'{JA}.DznJsonAst.process', impl2,
                    lambda i, p, a, k, kind=kind: i.call_function(spec.globals['document_decls'], [kind] + a, k, p),
                    mk2, witness=None, text=f'process().{kind} == document_decls({kind!r}, document), whatever the parser '
                                            f'object processed before')
    finally:
        state['force'] = False
        I.class_invs.clear()
        I.class_invs.update(saved)
        I.rec_invs = {}
        for q in (f'{JA}.DznJsonAst.parse_element', 'specs.parse_spec.decls_of', 'dznpy.scoping.NamespaceTree.fqn',
                  'dznpy.scoping.NamespaceTree.fqn_member_name', 'specs.scoping.tree_fqn'):
            I.overrides.pop(q, None)


# ===================================================================== ANY JSON value (C15: ill-formed input)
def generic_json(I):
    """JSON value of unknown shape: null | bool | int | float | str | list of JSON values | object.  An object is a
    symbolic dict: key set and values are uninterpreted functions of its identity (pyvc DictV with symbolic domain)."""
    from pyvc.values import JUnion, JUnionV, SeqV, DictV
    d = z3.Datatype('JGen')
    ref = z3.DatatypeSort('JGen')
    d.declare('j_null')
    d.declare('j_bool', ('j_bool_v', z3.BoolSort()))
    d.declare('j_int', ('j_int_v', z3.IntSort()))
    d.declare('j_float', ('j_float_id', z3.IntSort()))
    d.declare('j_str', ('j_str_v', z3.StringSort()))
    d.declare('j_list', ('j_list_v', z3.SeqSort(ref)))
    d.declare('j_dict', ('j_dict_id', z3.IntSort()))
    sort = d.create()
    U = JUnion('JGen', sort)
    dom = z3.Function('json.keys', z3.IntSort(), z3.SetSort(z3.StringSort()))
    val = z3.Function('json.value', z3.IntSort(), z3.ArraySort(z3.StringSort(), sort))
    td = T('junion', U)

    def mk_list(i, e, p):
        v = SeqV(i.seq_of_base(sort.accessor(5, 0)(e), td, p), frozen=True)
        v.json = True
        return v

    def mk_dict(i, e, p):
        ident = sort.accessor(6, 0)(e)
        v = DictV(dom=dom(ident), val=val(ident), val_wrap=lambda x: JUnionV(U, x))
        v.json = True
        return v
    U.variants += [(sort.recognizer(0), lambda i, e, p: None),
                   (sort.recognizer(1), lambda i, e, p: sort.accessor(1, 0)(e)),
                   (sort.recognizer(2), lambda i, e, p: sort.accessor(2, 0)(e)),
                   # any float behaves alike for the parser (it only tests types): represented by 0.5
                   (sort.recognizer(3), lambda i, e, p: 0.5),
                   (sort.recognizer(4), lambda i, e, p: ops.mkstr([sort.accessor(4, 0)(e)])),
                   (sort.recognizer(5), mk_list),
                   (sort.recognizer(6), mk_dict)]
    return U


DOCUMENTED = ('DznJsonError', 'NamespaceIdsTypeError')
ANY_FUNCS = ('parse_scope_name', 'parse_formal', 'parse_formals', 'parse_signature', 'parse_event', 'parse_events',
             'parse_port', 'parse_ports', 'parse_instance', 'parse_instances', 'parse_endpoint', 'parse_binding',
             'parse_bindings', 'parse_fields', 'parse_range', 'parse_data', 'parse_namespace', 'parse_root',
             'parse_comment', 'parse_import', 'parse_filename', 'get_class_value', 'parse_port_injected_indication')
ANY_DECLS = ('parse_enum', 'parse_subint', 'parse_extern', 'parse_foreign', 'parse_component', 'parse_system',
             'parse_types', 'parse_interface')


RESULT_CLASS = {'parse_scope_name': 'ScopeName', 'parse_formal': 'Formal', 'parse_formals': 'Formals',
                'parse_signature': 'Signature', 'parse_event': 'Event', 'parse_events': 'Events', 'parse_port': 'Port',
                'parse_ports': 'Ports', 'parse_instance': 'Instance', 'parse_instances': 'Instances',
                'parse_endpoint': 'EndPoint', 'parse_binding': 'Binding', 'parse_bindings': 'Bindings',
                'parse_fields': 'Fields', 'parse_range': 'Range', 'parse_data': 'Data', 'parse_comment': 'Comment',
                'parse_import': 'Import', 'parse_filename': 'Filename', 'parse_port_injected_indication': 'Injected',
                'parse_enum': 'Enum', 'parse_subint': 'SubInt', 'parse_extern': 'Extern', 'parse_foreign': 'Foreign',
                'parse_component': 'Component', 'parse_system': 'System', 'parse_types': 'Types',
                'parse_interface': 'Interface'}
INLINED = ('parse_namespace', 'parse_root', 'get_class_value')     # small, their results are inspected by the callers


def run_out_event_rule(ctx: Ctx):
    """C15, second sentence: parse_event on an event that is well-formed EXCEPT possibly for the out-event rule (any
    number of parameters): refused exactly when it is an out event with a non-void reply or with an out parameter."""
    from props.gen_unbounded import ns_inv
    I = ctx.interp
    ghostlib.install(I)
    I.load_module(JA)
    spec = I.load_module('specs.parse_spec')
    S = schemas()
    install_wellformedness(I, S)
    invs = dict(I.rec_invs)

    def inv_event_dir(i, p, v):
        d = i.sorts.rec_accessor(v.schema, 'direction')(v.expr)
        return z3.Or(d == z3.StringVal('in'), d == z3.StringVal('out'))
    invs['event'] = [inv_event_dir]          # the out-event rule itself is NOT assumed
    I.rec_invs = invs
    saved = dict(I.class_invs)
    I.class_invs['dznpy.scoping.NamespaceIds'] = [ns_inv]
    try:
        f = I.get_function(f'{JA}.parse_event')

        def mk(p):
            e = I.wrap(T('rec', S['event']), z3.Const('in_elt', I.sorts.sort_of_rec(S['event'])), p)
            return [e], [e]
        refines(ctx, 'json_ast.parse_event[out-event-rule]', f'{JA}.parse_event',
                lambda i, p, a, k: i.call_function(f, a, k, p),
                lambda i, p, a, k: i.call_function(spec.globals['event_checked'], a, k, p), mk, witness=None,
                text='an out event with a non-void reply or an out parameter is refused with DznJsonError, every other '
                     'well-formed event is returned as written')
    finally:
        I.class_invs.clear()
        I.class_invs.update(saved)
        I.rec_invs = {}


def run_any_json(ctx: Ctx, only=None):
    """C15 for ANY JSON value (any shape, size, nesting): every parser function returns or raises one of the documented
    errors - never an internal exception.  Modular: inside the function under proof every OTHER parser function is
    replaced by this very contract ("returns some value of its result class, or raises DznJsonError or
    NamespaceIdsTypeError", which of the three being an uninterpreted function of its argument); the functions are not
    recursive except parse_element, whose recursive call is by the same contract (induction on the nesting depth)."""
    from props.gen_unbounded import ns_inv
    from pyvc.values import JUnionV, ObjV, SeqV, DtV
    from pyvc.harness import PROVED
    I = ctx.interp
    ghostlib.install(I)
    ja = I.load_module(JA)
    A = I.load_module('dznpy.ast')
    sc = I.load_module('dznpy.scoping')
    NT = sc.globals['NamespaceTree']
    U = generic_json(I)
    saved = dict(I.class_invs)
    I.class_invs['dznpy.scoping.NamespaceIds'] = [ns_inv]
    ctx.assumptions.append('any-JSON contracts (C15): a JSON value is null / bool / int / float / str / list / object of '
                           'arbitrary content; a float is represented by 0.5 (the parser only tests types); the text '
                           'of lists / objects inside error messages is abstract; callees by the contract under proof')
    errs = [ja.globals['DznJsonError'], sc.globals['NamespaceIdsTypeError']]
    install_tree_contracts(I, ctx)         # NamespaceTree.fqn_member_name by its C14 contract (recursive otherwise)
    uni_types = I.make_union('TypeItem', [A.globals['Enum'], A.globals['SubInt']])
    state = {'top': None}

    nt_sort = I.sorts.sort_of_class(NT)

    def key_of(v):
        if isinstance(v, (JUnionV, DtV)):
            return v.expr
        if isinstance(v, ObjV) and v.cls is NT:          # a namespace node built by the code under analysis
            par, scn = v.fields.get('parent'), v.fields.get('scope_name')
            if par is None:
                return nt_sort.constructor(0)()
            kp, ks_ = key_of(par), key_of(scn)
            if kp is not None and ks_ is not None:
                return nt_sort.constructor(1)(kp, ks_)
        return None

    def make_contract(fname):
        cls = A.globals[RESULT_CLASS[fname]]
        real = I.get_function(f'{JA}.{fname}')

        def contract(i, path, args, kw):
            if state['top'] == fname and not state.get('entered'):
                state['entered'] = True
                return i.call_function(real, args, kw, path, bypass_override=True)
            ks = [key_of(a) for a in args]
            if any(k is None for k in ks):
                raise Unsupported(f'{fname} by contract: argument without a symbolic identity')
            out = z3.Function(f'outcome.{fname}', *[k.sort() for k in ks], z3.IntSort())(*ks)
            if path.branch(out == 0):
                res = z3.Function(f'result.{fname}', *[k.sort() for k in ks], i.sorts.sort_of_class(cls))(*ks)
                if fname in ('parse_types', 'parse_interface'):
                    # the caller filters the nested types by kind: hand out a list of Enum | SubInt values
                    items = z3.Function(f'result.{fname}.types', *[k.sort() for k in ks],
                                        z3.SeqSort(uni_types['sort']))(*ks)
                    types = ObjV(A.globals['Types'], {'elements': SeqV(i.seq_of_base(items, T('union', uni_types), path))})
                    if fname == 'parse_types':
                        return types
                    v = DtV(cls, res)
                    o = ObjV(cls, {n: i.getattr_(v, n, path) for (n, _) in i.sorts.fields_of(cls) if n != 'types'})
                    o.fields['types'] = types
                    return o
                return DtV(cls, res)
            e = errs[0] if path.branch(out == 1) else errs[1]
            raise RaiseSignal(i.call(e, ['rejected (callee contract)'], {}, path))
        return contract

    pe = I.get_function(f'{JA}.DznJsonAst.parse_element')

    def parse_element_contract(i, path, args, kw):
        if state['top'] == 'parse_element' and not state.get('entered'):
            state['entered'] = True
            return i.call_function(pe, args, kw, path, bypass_override=True)
        selfv, element, parent = args
        if not isinstance(element, JUnionV):
            raise Unsupported('parse_element by contract: element without a symbolic identity')
        out = z3.Function('outcome.parse_element', U.sort, z3.IntSort())(element.expr)
        if path.branch(out == 0):
            return None     # appends to the file contents: not observed by any outcome
        e = errs[0] if path.branch(out == 1) else errs[1]
        raise RaiseSignal(i.call(e, ['rejected (callee contract)'], {}, path))

    def classify(oid, fn, p, kind, val):
        if kind == 'return':
            return
        if kind == 'raise':
            name = val.cls.name if hasattr(val, 'cls') else str(val)
            if name in DOCUMENTED:
                return
            msg = ''
            try:
                msg = ' '.join(str(a)[:120] for a in (val.fields.get('args') or ()))
            except Exception:
                pass
            ctx.prove(oid, 'raises', fn, p.child(), False,
                      f'internal error {name} ({msg}) instead of a documented parser error on some JSON input')
            return
        ctx.prove(oid, 'ensures', fn, p.child(), False, f'unexpected outcome {kind}: {val}')

    for fname in RESULT_CLASS:
        I.overrides[f'{JA}.{fname}'] = make_contract(fname)
    I.overrides[f'{JA}.DznJsonAst.parse_element'] = parse_element_contract
    Ast = ja.globals['DznJsonAst']
    try:
        targets = list(ANY_FUNCS + ANY_DECLS) + ['parse_element', 'process']
        for fname in targets:
            if only and fname not in only:
                continue
            qn = f'{JA}.DznJsonAst.{fname}' if fname in ('parse_element', 'process') else f'{JA}.{fname}'
            f = I.get_function(qn)
            ctx.functions[qn] = (ctx.functions.get(qn, '') + ' | any JSON value: returns or documented error (proved, '
                                                             'callees by contract)').lstrip(' |')

            def mk(p, fname=fname):
                state['entered'] = False
                x = JUnionV(U, z3.Const('in_json', U.sort))
                if fname in ANY_DECLS:
                    return [x, I.fresh_dt(NT, 'in_parent_ns', p)], {}
                if fname == 'parse_element':
                    return [I.call(Ast, [], {}, p), x, I.fresh_dt(NT, 'in_parent_ns', p)], {}
                if fname == 'process':
                    parser = I.call(Ast, [], {}, p)
                    parser.fields['_ast'] = x
                    return [parser], {}
                return [x], {}
            state['top'] = fname
            res = I.run_function(f, mk)
            state['top'] = None
            n_bad = 0
            for k, (p, (kind, val, args)) in enumerate(res):
                before = len(ctx.obligations)
                classify(f'any-json.{fname}:path{k}', qn, p, kind, val)
                n_bad += len(ctx.obligations) != before
            o = ctx.new(f'any-json.{fname}:outcomes', 'ensures', qn,
                        f'{fname}(any JSON value): {len(res)} paths; {len(res) - n_bad} end in a return or a documented '
                        f'error by construction, {n_bad} in another exception and must be infeasible (own obligations)')
            ctx.settle(o, PROVED, 'syntactic')
    finally:
        state['top'] = None
        for fname in RESULT_CLASS:
            I.overrides.pop(f'{JA}.{fname}', None)
        I.overrides.pop(f'{JA}.DznJsonAst.parse_element', None)
        I.overrides.pop('dznpy.scoping.NamespaceTree.fqn_member_name', None)
        I.overrides.pop('dznpy.scoping.NamespaceTree.fqn', None)
        I.overrides.pop('specs.scoping.tree_fqn', None)
        I.class_invs.clear()
        I.class_invs.update(saved)
