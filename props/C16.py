"""C16 - parses are isolated and repeatable.

Contract of DznJsonAst.process:  the result is a function of the loaded document alone -
  * processing the same instance again yields an equal result (no accumulated duplicates) and leaves the earlier
    result and the loaded document unchanged,
  * other parser instances processing other documents in between do not influence it (every object a parse mutates is
    allocated by that instance; no module-level state is written: frame obligations),
for every document of the corpus with symbolic contents."""
from __future__ import annotations

import z3

from pyvc import ops
from pyvc.compare import equal, Mismatch
from pyvc.harness import Ctx, PROVED, REFUTED, parallel_jobs
from pyvc.path import Path, explore
from pyvc.values import Unsupported, FrameViolation, RaiseSignal
from props import parser_common as PC
from specs import docs as D

FN = 'dznpy.json_ast.DznJsonAst.process'


def check_doc(ctx, name, nodes):
    I = ctx.interp
    docs = D.documents()

    def run(p):
        N = PC.SymNames(p)
        N2 = PC.SymNames(p, 'other_')
        doc = PC.to_value(D.to_json(nodes, N))
        PC.freeze(doc)
        other_doc = PC.to_value(D.to_json(docs['flat-all-kinds'], N2))
        p.N = N
        try:
            alone = PC.new_parser(I, p, doc)
            r_alone = PC.run_process(I, p, alone)
            a = PC.new_parser(I, p, doc)
            b = PC.new_parser(I, p, other_doc)
            r1 = PC.run_process(I, p, a)
            if r1[0] != 'return':
                return ('first', r1, None, None, None)
            snap = PC.describe_fc(I, p, r1[1])[0]
            rb = PC.run_process(I, p, b)
            r2 = PC.run_process(I, p, a)
            rb2 = PC.run_process(I, p, b)
            return ('ok', r_alone, r1, r2, snap)
        except FrameViolation as fv:
            return ('frame', fv, None, None, None)

    for k, (p, res) in enumerate(explore(Path(), run, 256)):
        oid = f'{name}:path{k}'
        wit = lambda m, p=p: {'doc': name, 'names': p.N.witness(m)}
        if res[0] == 'frame':
            ctx.prove(f'{oid}:frame', 'frame', FN, p.child(), False,
                      f'a parse writes state it does not own: {res[1]}', witness=wit)
            continue
        if res[0] == 'first' or res[1][0] != 'return' or res[3][0] != 'return':
            bad = res[1] if res[0] == 'first' else (res[3] if res[3][0] != 'return' else res[1])
            ctx.prove(f'{oid}:outcome', 'ensures', FN, p.child(), False,
                      f'processing fails: {bad[0]} {bad[1]}', witness=wit)
            continue
        _, r_alone, r1, r2, snap = res
        d_alone = PC.describe_fc(I, p, r_alone[1])[0]
        d1_after = PC.describe_fc(I, p, r1[1])[0]
        d2 = PC.describe_fc(I, p, r2[1])[0]
        for label, x, y, text in (('repeat', d2, snap, 'processing again yields an equal result (no duplicates)'),
                                  ('isolated', snap, d_alone, 'the result equals that of a parser used alone'),
                                  ('stable', d1_after, snap, 'the earlier result is not changed by later processing')):
            try:
                leaves = equal(I, p, tuple(x[c] for c in D.KINDS), tuple(y[c] for c in D.KINDS), label)
            except Mismatch as mm:
                ctx.prove(f'{oid}:{label}', 'ensures', FN, p.child(), False, f'{text}: {mm}', witness=wit)
                continue
            if not leaves:
                o = ctx.new(f'{oid}:{label}', 'ensures', FN, text)
                ctx.settle(o, PROVED, 'syntactic')
            for i, lf in enumerate(leaves):
                ctx.prove(f'{oid}:{label}.{i}', 'ensures', FN, lf.path, lf.goal, text, witness=wit)


def run(ctx: Ctx):
    ctx.level = 'other'
    ctx.bounded = getattr(ctx, 'bounded', []) + [{
        'function': 'dznpy.json_ast.DznJsonAst.process (corpus part: twice / interleaved with another parser, frames)',
        'bound': 'document STRUCTURE: the 5 documents of specs/docs.py; contents symbolic',
        'result': 'obligations <document>:path*; json_ast.process[...] obligations are unbounded (arbitrary earlier state)'}]
    ctx.level_explanation = ('Parser harness: every obligation is proved for ALL leaf contents (names, values, numbers) of one document STRUCTURE; the structures are the enumerated document corpus and its single-point malformations (bound stated under assumptions): bounded in structure, unbounded in content.')
    ctx.trusted += ['orjson.loads; file I/O of load_file is outside the cone (covered by the native corpus only)']
    ctx.assumptions += ['BOUND: document structure from the corpus specs/docs.py; contents symbolic',
                        'the executor marks module-level objects and the loaded document as not owned by process(): any '
                        'write to them is a frame violation']
    ctx.functions['dznpy.json_ast.DznJsonAst.process'] = 'proved on the corpus (result independent of old state)'
    ctx.functions['dznpy.json_ast.DznJsonAst.__init__'] = 'executed'
    # unbounded part: process() on a parser object in an ARBITRARY earlier state returns the declarations of the loaded
    # document only (well-formed documents of any size / nesting; parse_element by the contract proved under C05)
    from props import parse_unbounded
    from props.gen_unbounded import guarded
    guarded(ctx, 'process', parse_unbounded.run_documents, parts=('process',))
    jobs = list(D.documents().items())
    status, msg = parallel_jobs(ctx, jobs, lambda sub, j: check_doc(sub, j[0], j[1]), lambda j: j[0])
    if status == 'crash':
        raise RuntimeError(msg)
    if status == 'undecided':
        raise Unsupported(msg)


def make_replay(ctx, o):
    if getattr(o, 'replay', None):
        return {'script': 'native/replay_parser.py', 'input': dict(o.replay, property='C16')}
    return None


def native_search(ctx, o):
    if ':json_ast.process[' in o.id:
        return {'script': 'native/replay_parse.py', 'input': {'function': 'process', 'mode': 'repeat'}}
    return {'script': 'native/replay_parser.py', 'input': {'search': [
        {'doc': d, 'names': {}, 'property': 'C16'} for d in D.documents()]}}
