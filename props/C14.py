"""C14 - name lookup returns exactly the declarations on the scope chain.

Contracts (ghost functions in specs/scoping.py, written from the statement):

  NamespaceIds.__post_init__   raises NamespaceIdsTypeError <=> some item is not an identifier; normal => inv_ids
  NamespaceIds.__add__         requires inv_ids(both); result.items == self.items ++ other.items, fresh object,
                               operands unmodified, never raises
  NamespaceIds.__iadd__        self.items == old(self.items) ++ other.items, returns self, inv_ids preserved
  NamespaceIds.__str__         '.'.join(items)
  namespaceids_t               pass-through / list / '' / dotted / '::' / single; notation round trips (lemma L4)
  sum_namespaceids_items       concatenation, left to right, fresh result
  NamespaceTree.fqn            == tree_fqn(self)   (recursion: contract + structural decrease on .parent)
  NamespaceTree.fqn_member_name == tree_fqn(self) ++ member
  scope_resolution_order       result == [NamespaceIds(c) for c in chain(name, scope)] (innermost first);
                               while-loop invariant#1; calling_scope unmodified (frame)
  find_fqn                     result.items == lookup(fct, name, scope)  - each once, seven containers only
  find_any                     result.items == suffix_search(fct, tail)     (tail non-empty)
  FindResult.get_single_instance / has_one_instance
"""
from __future__ import annotations

import ast as pyast
import copy

import z3

from pyvc import ops, ghostlib
from pyvc.compare import equal, Mismatch
from pyvc.harness import Ctx, refines, PROVED, REFUTED, eval_model, zstr_value
from pyvc.interp import Interp, Env, EnumSym, TerminationViolation
from pyvc.path import Path, explore, fresh_name
from pyvc.sorts import TypeDesc
from pyvc.values import (ObjV, DtV, SeqV, SeqT, LitB, CompB, RangeB, StrT, RaiseSignal, Unsupported, ExcV, ClassV,
                         FrameViolation)

SC = 'dznpy.scoping'
AV = 'dznpy.ast_view'
STR_SEQ = z3.SeqSort(z3.StringSort())


def seq_value(m, expr):
    n = eval_model(m, z3.Length(expr))
    n = n.as_long() if (n is not None and z3.is_int_value(n)) else 0
    return [zstr_value(m, expr[i]) or '' for i in range(min(n, 8))]


class E14:
    def __init__(self, ctx):
        self.ctx = ctx
        self.I = I = ctx.interp
        ghostlib.install(I)
        self.sc = I.load_module(SC)
        self.av = I.load_module(AV)
        self.ast = I.load_module('dznpy.ast')
        self.spec = I.load_module('specs.scoping')
        self.NS = self.sc.globals['NamespaceIds']
        self.NT = self.sc.globals['NamespaceTree']
        self.Err = self.sc.globals['NamespaceIdsTypeError']
        # class invariant of NamespaceIds (established by its constructor, obligation c_ids_post_init;
        # preserved by __iadd__): every symbolic instance that enters a contract as an input satisfies it
        acc = I.sorts.accessor(self.NS, 'items')

        def ns_inv(interp, path, v):
            z = acc(v.expr)
            key = ('nsinv', z.get_id())
            reg = path.__dict__.setdefault('_nsinv', set())
            if key in reg:
                return None
            reg.add(key)
            q = z3.Int(fresh_name('q'))
            path.add_hyp([q], z3.Implies(z3.And(q >= 0, q < z3.Length(z)), ops.with_facts(ops.is_ident(z[q]))), 'inv_NamespaceIds')
            return None
        self.ns_inv = ns_inv
        I.class_invs[f'{SC}.NamespaceIds'] = [ns_inv]

    def strlist(self, name, p, frozen=True):
        return SeqV(self.I.seq_of_base(z3.Const(name, STR_SEQ), TypeDesc('str'), p), frozen=frozen)

    def ns_dt(self, name, p):
        """symbolic NamespaceIds instance (immutable input)"""
        return self.I.fresh_dt(self.NS, name, p)

    def items_z(self, ns):
        """z3 Seq(String) of the items of a NamespaceIds value"""
        if isinstance(ns, DtV):
            return self.I.sorts.accessor(self.NS, 'items')(ns.expr)
        t = ns.fields['items'].term
        if not t.blocks:
            return z3.Empty(STR_SEQ)
        z = self.I.to_zseq(t)
        if z is None:
            raise Unsupported('NamespaceIds.items not expressible')
        return z

    def assume_inv(self, p, zitems, tag='inv'):
        """forall i: is_ident(items[i])  as an instantiable hypothesis"""
        q = z3.Int(fresh_name('q'))
        p.add_hyp([q], z3.Implies(z3.And(q >= 0, q < z3.Length(zitems)), ops.with_facts(ops.is_ident(zitems[q]))), tag)

    def goal_inv(self, p, zitems):
        """proof goal  forall i: is_ident(items[i])  at a fresh index.  For a concatenation the goal is stated per
        part (the elements of a ++ b are the elements of a and the elements of b - engine meta-rule)."""
        parts = zitems.children() if (z3.is_app(zitems) and zitems.decl().kind() == z3.Z3_OP_SEQ_CONCAT) \
            else [zitems]
        goals = []
        for part in parts:
            if z3.is_app(part) and part.decl().kind() == z3.Z3_OP_SEQ_UNIT:
                goals.append(ops.is_ident(part.arg(0), p))
                continue
            i0 = z3.Int(fresh_name('g'))
            p.add_index(i0)
            goals.append(z3.Implies(z3.And(i0 >= 0, i0 < z3.Length(part)), ops.is_ident(ops.nth(part, i0), p)))
        return z3.And(*goals) if len(goals) > 1 else goals[0]

    def ghost(self, name, args, path):
        f = self.spec.globals[name]
        self.I.ghost_depth += 1
        try:
            return self.I.call_function(f, list(args), {}, path)
        finally:
            self.I.ghost_depth -= 1


def run(ctx: Ctx):
    e = E14(ctx)
    ctx.trusted += ['z3 theory of sequences and strings; regular expression [a-zA-Z_][a-zA-Z0-9_]*',
                    'model of re.fullmatch/match (subset), str.split / str.join as uninterpreted functions with the '
                    'law split(sep.join(L), sep) == L for non-empty L whose elements do not contain sep',
                    'engine rules: comprehension extensionality, exists-atoms with skolem/instantiation, '
                    'loop summarisation of the accumulate idiom and of `for..: if c: effect; break`']
    ctx.assumptions += ['FileContents holds lists of the seven declaration dataclasses (types as preconditions)',
                        'find_any: the tail has at least one identifier (the statement quantifies over 1..n)']
    c_ids_post_init(ctx, e)
    c_ids_ops(ctx, e)
    c_namespaceids_t(ctx, e)
    c_tree(ctx, e)
    c_sro(ctx, e)
    c_find(ctx, e)
    c_findresult(ctx, e)


# ---------------------------------------------------------------------------------------------------------------
def c_ids_post_init(ctx, e):
    I = e.I
    fn = f'{SC}.NamespaceIds.__post_init__'
    ctx.functions[fn] = 'proved'
    ctx.functions['dznpy.misc_utils.is_strlist_instance'] = 'inlined'

    def make_args(p):
        return [e.strlist('in_items', p)], {}

    w = lambda m: {'function': 'NamespaceIds', 'items': seq_value(m, z3.Const('in_items', STR_SEQ))}
    for k, (p, (kind, val, args)) in enumerate(I.run_function(e.NS, lambda p: ([], {'items': make_args(p)[0][0]}))):
        oid = f'scoping.NamespaceIds.__post_init__:path{k}'
        z = z3.Const('in_items', STR_SEQ)
        if kind == 'return':
            ctx.prove(oid + ':ensures', 'ensures', fn, p, e.goal_inv(p, z), 'normal => every item is an identifier',
                      witness=w)
        elif kind == 'raise':
            if val.cls is not e.Err:
                ctx.prove(oid + ':only_raises', 'raises', fn, p, False, f'raises {val.cls.name}', witness=w)
                continue
            # raise => some item is not an identifier: assume all are and derive a contradiction
            q = p.child()
            e.assume_inv(q, z)
            ctx.prove(oid + ':raises', 'raises', fn, q, False,
                      'raises NamespaceIdsTypeError => some item is not an identifier', witness=w)
        else:
            ctx.prove(oid + ':outcome', 'ensures', fn, p, False, f'unexpected outcome {kind}: {val}', witness=w)
    # canary: 'a-b' style items are accepted -> must be refuted
    p = Path()
    x = z3.String('in_canary')
    ctx.expect_refuted('scoping.NamespaceIds.__post_init__:canary', fn, p, ops.is_ident(x, p),
                       'canary: every string is an identifier')


def c_ids_ops(ctx, e):
    I = e.I
    spec = e.spec
    add = I.get_function(f'{SC}.NamespaceIds.__add__')
    iadd = I.get_function(f'{SC}.NamespaceIds.__iadd__')
    tostr = I.get_function(f'{SC}.NamespaceIds.__str__')
    for f in ('__add__', '__iadd__', '__str__'):
        ctx.functions[f'{SC}.NamespaceIds.{f}'] = 'proved'

    def w(m, args):
        return {'function': 'NamespaceIds.ops', 'a': seq_value(m, e.items_z(args[0])) if isinstance(args[0], DtV)
                else seq_value(m, z3.Const('in_a_items', STR_SEQ)),
                'b': seq_value(m, e.items_z(args[1])) if len(args) > 1 else []}

    # __add__
    def mk_add(p):
        a, b = e.ns_dt('in_a', p), e.ns_dt('in_b', p)
        e.assume_inv(p, e.items_z(a), 'inv(a)')
        e.assume_inv(p, e.items_z(b), 'inv(b)')
        return [a, b], [a, b]

    def spec_add(i, p, a, k):
        za, zb = e.items_z(a[0]), e.items_z(a[1])
        return SeqV(I.seq_of_base(z3.Concat(za, zb), TypeDesc('str'), p))

    def impl_add(i, p, a, k):
        r = i.call_function(add, a, k, p)
        if not (isinstance(r, ObjV) and r.cls is e.NS):
            raise Unsupported('__add__ is expected to return a new NamespaceIds')
        return r.fields['items']

    refines(ctx, 'scoping.NamespaceIds.__add__', f'{SC}.NamespaceIds.__add__', impl_add, spec_add, mk_add, witness=w,
            text='(a + b).items == a.items ++ b.items; no error for valid operands')

    # __iadd__: self is a heap object (mutated in place), other an immutable input
    def mk_iadd(p):
        a = ObjV(e.NS, {'items': e.strlist('in_a_items', p, frozen=False)})
        b = e.ns_dt('in_b', p)
        return [a, b], [a, z3.Const('in_a_items', STR_SEQ), b]

    def impl_iadd(i, p, a, k):
        r = i.call_function(iadd, a, k, p)
        if r is not a[0]:
            raise Unsupported('__iadd__ is expected to return self')
        return r.fields['items']

    def spec_iadd(i, p, a, k):
        return SeqV(I.seq_of_base(z3.Concat(a[1], e.items_z(a[2])), TypeDesc('str'), p))

    refines(ctx, 'scoping.NamespaceIds.__iadd__', f'{SC}.NamespaceIds.__iadd__', impl_iadd, spec_iadd, mk_iadd,
            witness=None, text='self.items == old(self.items) ++ other.items, returns self')

    # __str__
    def mk_str(p):
        a = e.ns_dt('in_a', p)
        return [a], [a]

    refines(ctx, 'scoping.NamespaceIds.__str__', f'{SC}.NamespaceIds.__str__',
            lambda i, p, a, k: i.call_function(tostr, a, k, p),
            lambda i, p, a, k: i.call(i.getattr_('.', 'join', p), [i.getattr_(a[0], 'items', p)], {}, p),
            mk_str, witness=None, text="str(ids) == '.'.join(ids.items)")


# ---------------------------------------------------------------------------------------------------------------
def c_namespaceids_t(ctx, e):
    I = e.I
    fn = f'{SC}.namespaceids_t'
    ctx.functions[fn] = 'proved'
    ctx.functions[f'{SC}.ns_ids_t'] = 'inlined'
    f = I.get_function(fn)
    I.join_laws = True

    def items_of(r):
        if isinstance(r, DtV):
            return SeqV(I.seq_of_base(e.items_z(r), TypeDesc('str'), Path()))
        return r.fields['items']

    # 1. pass-through and list notation
    def mk_list(p):
        L = e.strlist('in_ids', p)
        e.assume_inv(p, z3.Const('in_ids', STR_SEQ))
        return [L], [L]

    w_list = lambda m, a: {'function': 'namespaceids_t', 'kind': 'list', 'ids': seq_value(m, z3.Const('in_ids', STR_SEQ))}
    refines(ctx, 'scoping.namespaceids_t[list]', fn, lambda i, p, a, k: items_of(i.call_function(f, a, k, p)),
            lambda i, p, a, k: a[0], mk_list, witness=w_list,
            text='namespaceids_t(list of identifiers).items == list')

    def mk_pass(p):
        a = e.ns_dt('in_a', p)
        return [a], [a]

    refines(ctx, 'scoping.namespaceids_t[NamespaceIds]', fn, lambda i, p, a, k: i.call_function(f, a, k, p),
            lambda i, p, a, k: a[0], mk_pass, witness=None, text='a NamespaceIds value passes through unchanged')

    # 2. notation round trips (lemma L4): dotted and '::' strings built from valid identifiers
    for sep in ('.', '::'):
        def mk_rt(p, sep=sep):
            L = z3.Const('in_ids', STR_SEQ)
            e.assume_inv(p, L)
            Lv = e.strlist('in_ids', p)
            s = I.call(I.getattr_(sep, 'join', p), [Lv], {}, p)
            return [s], [Lv]

        w_rt = lambda m, a, sep=sep: {'function': 'namespaceids_t', 'kind': 'roundtrip', 'sep': sep,
                                     'ids': seq_value(m, z3.Const('in_ids', STR_SEQ))}
        refines(ctx, f'scoping.namespaceids_t[roundtrip {sep!r}]', fn,
                lambda i, p, a, k: items_of(i.call_function(f, a, k, p)), lambda i, p, a, k: a[0], mk_rt,
                witness=w_rt, text=f"namespaceids_t({sep!r}.join(ids)).items == ids for valid identifiers")

    # 3. rejection of non-string / non-list arguments and invalid identifiers goes through NamespaceIds(...)
    def mk_single(p):
        s = z3.String('in_s')
        p.assume(ops.is_ident(s, p))
        return [ops.mkstr([s])], [SeqV(SeqT([LitB([ops.mkstr([s])])]))]

    w_s = lambda m, a: {'function': 'namespaceids_t', 'kind': 'single', 'ids': [zstr_value(m, z3.String('in_s'))]}
    refines(ctx, 'scoping.namespaceids_t[single]', fn, lambda i, p, a, k: items_of(i.call_function(f, a, k, p)),
            lambda i, p, a, k: a[0], mk_single, witness=w_s, text='a single identifier becomes a one-element value')


# ---------------------------------------------------------------------------------------------------------------
def c_tree(ctx, e):
    I = e.I
    nt_sort = I.sorts.sort_of_class(e.NT)
    FQN = z3.Function('spec.tree_fqn', nt_sort, STR_SEQ)
    fqn_prop = e.NT.lookup('fqn')
    fqn_fn = fqn_prop.fget
    qn = fqn_fn.qualname
    ctx.functions[qn] = 'proved (recursion by contract, structural decrease)'
    ctx.functions[f'{SC}.NamespaceTree.fqn_member_name'] = 'proved'
    ctx.functions[f'{SC}.sum_namespaceids_items'] = 'proved'
    parent_acc = I.sorts.accessor(e.NT, 'parent')
    state = {'active': None, 'decr': []}

    def fqn_contract(interp, path, args, kw):
        selfv = args[0]
        if state['active'] is None:
            state['active'] = selfv
            try:
                return interp.call_function(fqn_fn, args, kw, path, bypass_override=True)
            finally:
                state['active'] = None
        outer = state['active']
        ok = isinstance(selfv, DtV) and isinstance(outer, DtV) and selfv.expr.eq(parent_acc(outer.expr))
        state['decr'].append(ok)
        r = ObjV(e.NS, {'items': SeqV(interp.seq_of_base(FQN(selfv.expr), TypeDesc('str'), path))})
        e.assume_inv(path, FQN(selfv.expr), 'contract:fqn ensures inv_ids')
        return r

    def tree_fqn_contract(interp, path, args, kw):
        t = args[0]
        if interp.call_stack.count('specs.scoping.tree_fqn') >= 1 or state.get('spec_active'):
            return SeqV(interp.seq_of_base(FQN(t.expr), TypeDesc('str'), path))
        state['spec_active'] = True
        try:
            return interp.call_function(e.spec.globals['tree_fqn'], args, kw, path, bypass_override=True)
        finally:
            state['spec_active'] = False

    I.overrides[qn] = fqn_contract
    I.overrides['specs.scoping.tree_fqn'] = tree_fqn_contract
    try:
        def mk(p):
            t = e.I.fresh_dt(e.NT, 'in_tree', p)
            return [t], [t]

        def impl(i, p, a, k):
            state['decr'].clear()
            r = i.getattr_(a[0], 'fqn', p)
            p.decr = list(state['decr'])
            return i.getattr_(r, 'items', p)

        res = refines(ctx, 'scoping.NamespaceTree.fqn', qn, impl,
                      lambda i, p, a, k: i.call_function(e.spec.globals['tree_fqn'], a, k, p), mk, witness=None,
                      text='fqn.items == tree_fqn(self)')
        for i_, (p, r) in enumerate(res):
            if r[0] == 'return' and isinstance(r[1], SeqV):
                z = I.to_zseq(r[1].term) if r[1].term.blocks else z3.Empty(STR_SEQ)
                if z is not None:
                    ctx.prove(f'scoping.NamespaceTree.fqn:path{i_}:ensures.inv', 'ensures', qn, p, e.goal_inv(p, z),
                              'fqn hands out valid identifiers only (inv_ids)')
            for d in getattr(p, 'decr', []):
                o = ctx.new(f'scoping.NamespaceTree.fqn:path{i_}:decreases', 'decreases', qn,
                            'recursive call is made on self.parent (structurally smaller)')
                ctx.settle(o, PROVED if d else REFUTED, 'syntactic',
                           '' if d else 'recursive call on something else than self.parent')
        # fqn_member_name uses the contract of fqn for its calls
        fmn = I.get_function(f'{SC}.NamespaceTree.fqn_member_name')

        def fqn_by_contract(interp, path, args, kw):
            e.assume_inv(path, FQN(args[0].expr), 'contract:fqn ensures inv_ids')
            return ObjV(e.NS, {'items': SeqV(interp.seq_of_base(FQN(args[0].expr), TypeDesc('str'), path))})
        I.overrides[qn] = fqn_by_contract

        def mk2(p):
            t = e.I.fresh_dt(e.NT, 'in_tree', p)
            mname = e.ns_dt('in_member', p)
            return [t, mname], [t, mname]

        def impl2(i, p, a, k):
            r = i.call_function(fmn, a, k, p)
            return i.getattr_(r, 'items', p)

        def spec2(i, p, a, k):
            return SeqV(i.seq_of_base(z3.Concat(FQN(a[0].expr), e.items_z(a[1])), TypeDesc('str'), p))
        refines(ctx, 'scoping.NamespaceTree.fqn_member_name', f'{SC}.NamespaceTree.fqn_member_name', impl2, spec2,
                mk2, witness=None, text='fqn_member_name(m).items == tree_fqn(self) ++ m.items')
    finally:
        I.overrides.pop(qn, None)
        I.overrides.pop('specs.scoping.tree_fqn', None)
    e.FQN = FQN

    # sum_namespaceids_items on a list of three symbolic values (the loop is over the caller's list: literal here,
    # arbitrary length is covered by the accumulate-loop summary used in NamespaceTree.fqn above)
    sni = I.get_function(f'{SC}.sum_namespaceids_items')

    def mk3(p):
        xs = [e.ns_dt(f'in_x{i}', p) for i in range(3)]
        return [SeqV(SeqT([LitB(xs)]))], xs

    refines(ctx, 'scoping.sum_namespaceids_items', f'{SC}.sum_namespaceids_items',
            lambda i, p, a, k: i.getattr_(i.call_function(sni, a, k, p), 'items', p),
            lambda i, p, a, k: SeqV(i.seq_of_base(z3.Concat(*[e.items_z(x) for x in a]), TypeDesc('str'), p)),
            mk3, witness=None, text='sum of [a, b, c] has items a ++ b ++ c (left to right), operands unmodified')


# ---------------------------------------------------------------------------------------------------------------
def chain_value(e, I, p, zscope, zname):
    """[NamespaceIds(prefix(scope, n-j) ++ name) for j in range(n+1)] as an executor value"""
    n = z3.Length(zscope)
    j = z3.Int(fresh_name('j'))
    item = ObjV(e.NS, {'items': SeqV(I.seq_of_base(z3.Concat(z3.SubSeq(zscope, z3.IntVal(0), n - j), zname),
                                                  TypeDesc('str'), p))})
    return SeqV(SeqT([CompB(j, RangeB(0, n + 1), True, SeqT([LitB([item])]), None)]))


def c_sro(ctx, e):
    I = e.I
    fn = f'{SC}.scope_resolution_order'
    ctx.functions[fn] = 'proved'
    f = I.get_function(fn)
    loops = [n for n in pyast.walk(f.node) if isinstance(n, (pyast.For, pyast.While))]
    if len(loops) != 1 or not isinstance(loops[0], pyast.While):
        raise Unsupported(f'drift: {fn} is expected to contain exactly one while-loop (invariant#1)')
    loop = loops[0]
    # the names of the loop state are read off the code (a renamed local is not a reason to stop): the scope being
    # stripped is the object whose `.items` the loop tests, the accumulator is the list the body appends to, the searched
    # name is the first parameter
    try:
        v_cur = loop.test.value.id if isinstance(loop.test, pyast.Attribute) else None
        apps = [n.func.value.id for n in pyast.walk(loop) if isinstance(n, pyast.Call) and
                isinstance(n.func, pyast.Attribute) and n.func.attr == 'append' and isinstance(n.func.value, pyast.Name)]
        v_acc = apps[0] if len(set(apps)) == 1 else None
        v_name = f.node.args.args[0].arg
    except (AttributeError, IndexError):
        v_cur = v_acc = v_name = None
    if not (v_cur and v_acc and v_name):
        raise Unsupported(f'drift: {fn}: the while-loop is expected to test <scope>.items and to append to one list')

    def handler(interp, node, env, path):
        try:
            cur = env.lookup(v_cur)
            result = env.lookup(v_acc)
            name = env.lookup(v_name)
        except KeyError as ke:
            raise Unsupported(f'drift: {fn}: loop state variable {ke} not found')
        if not (isinstance(cur, ObjV) and isinstance(result, SeqV)):
            raise FrameViolation('pop on the caller\'s scope', interp.call_stack) if isinstance(cur, DtV) else \
                Unsupported('drift: scope_resolution_order: unexpected loop state')
        tag = path.__dict__.get('oid_tag', 'scoping.scope_resolution_order')
        T0 = e.items_z(cur)
        zname = e.items_z(name)
        n = z3.Length(T0)

        def body_item(jv):
            return z3.Concat(z3.SubSeq(T0, z3.IntVal(0), n - jv), zname)
        # ---- initiation: result == [NS(T0 ++ name)]  is the j = 0 element
        t = ops.mkseq(result.term.blocks)
        pi = path.child()
        if not (ops.seq_is_lit(t) and len(ops.seq_lit_items(t)) == 1):
            ctx.prove(f'{tag}:inv#1.init', 'inv-init', fn, pi, False, 'result holds exactly one candidate before the loop')
        else:
            first = ops.seq_lit_items(t)[0]
            ctx.prove(f'{tag}:inv#1.init', 'inv-init', fn, pi, e.items_z(first) == body_item(z3.IntVal(0)),
                      'the first candidate is calling_scope ++ searchable')
        # ---- preservation for an arbitrary m with 1 <= m <= n
        m = z3.Int(fresh_name('m'))
        pp = path.child()
        pp.assume(z3.And(m >= 0, m <= n))
        jv = z3.Int(fresh_name('j'))
        inv_result = SeqT([CompB(jv, RangeB(0, n - m + 1), True,
                                 SeqT([LitB([ObjV(e.NS, {'items': SeqV(interp.seq_of_base(body_item(jv),
                                                                                         TypeDesc('str'), pp))})])]),
                                 None)])

        def body(p):
            env_c = copy.deepcopy(env)
            c2 = env_c.lookup(v_cur)
            r2 = env_c.lookup(v_acc)
            c2.fields['items'] = SeqV(interp.seq_of_base(z3.SubSeq(T0, z3.IntVal(0), m), TypeDesc('str'), p))
            r2.term = inv_result
            g = interp.truthy(interp.eval(node.test, env_c, p), p)
            if not p.branch(g):
                return ('exit', c2, r2)
            try:
                interp.exec_block(node.body, env_c, p)
            except RaiseSignal as rs:
                return ('raise', rs.exc, None)
            return ('iter', c2, r2)

        for k, (p, (kind, c2, r2)) in enumerate(explore(pp, body)):
            if kind == 'raise':
                ctx.prove(f'{tag}:inv#1.body:no_raise:path{k}', 'safety', fn, p, False,
                          f'the loop body does not raise (got {c2.cls.name})')
                continue
            if kind == 'exit':
                ctx.prove(f'{tag}:inv#1.exit:path{k}', 'inv-exit', fn, p, m == 0,
                          'the loop ends only when every enclosing scope has been listed')
                continue
            z2 = e.items_z(c2)
            ctx.prove(f'{tag}:inv#1.preserve.scope:path{k}', 'inv-preserve', fn, p,
                      z3.And(m >= 1, z2 == z3.SubSeq(T0, z3.IntVal(0), m - 1)),
                      'one identifier is popped from the end of the current scope (decreases m)')
            t2 = r2.term
            ok = len(t2.blocks) == 2 and t2.blocks[0] is inv_result.blocks[0] and isinstance(t2.blocks[1], LitB) \
                and len(t2.blocks[1].items) == 1
            if not ok:
                ctx.prove(f'{tag}:inv#1.preserve.result:path{k}', 'inv-preserve', fn, p, False,
                          'exactly one candidate is appended per iteration')
            else:
                new = t2.blocks[1].items[0]
                ctx.prove(f'{tag}:inv#1.preserve.result:path{k}', 'inv-preserve', fn, p,
                          e.items_z(new) == body_item(n - m + 1),
                          'the appended candidate is the next shorter prefix ++ searchable')
        # ---- after the loop: m == 0
        cur.fields['items'] = SeqV(SeqT())
        result.term = chain_value(e, interp, path, T0, zname).term

    I.loop_invariants = getattr(I, 'loop_invariants', {})
    I.loop_invariants[id(loop)] = handler

    for variant in ('scope', 'none'):
        def mk(p, variant=variant):
            p.oid_tag = f'scoping.scope_resolution_order[{variant}]'
            name = e.ns_dt('in_name', p)
            scope = e.ns_dt('in_scope', p) if variant == 'scope' else None
            return [name, scope], [name, scope]

        def spec(i, p, a, k):
            zs = e.items_z(a[1]) if a[1] is not None else z3.Empty(STR_SEQ)
            return chain_value(e, i, p, zs, e.items_z(a[0]))

        def w(m, a):
            return {'function': 'scope_resolution_order', 'name': seq_value(m, e.items_z(a[0])),
                    'scope': seq_value(m, e.items_z(a[1])) if a[1] is not None else None}
        refines(ctx, f'scoping.scope_resolution_order[{variant}]', fn, lambda i, p, a, k: i.call_function(f, a, k, p),
                spec, mk, witness=w, text='result == chain(searchable, calling_scope), innermost first; '
                                          'calling_scope unmodified')
    e.sro_contract = lambda i, p, a, k: chain_value(
        e, i, p, e.items_z(a[1]) if (len(a) > 1 and a[1] is not None) else z3.Empty(STR_SEQ), e.items_z(a[0]))


# ---------------------------------------------------------------------------------------------------------------
def c_find(ctx, e):
    I = e.I
    FC = e.ast.globals['FileContents']
    ff = I.get_function(f'{AV}.find_fqn')
    fa = I.get_function(f'{AV}.find_any')
    ctx.functions[f'{AV}.find_fqn'] = 'proved (scope_resolution_order by contract)'
    ctx.functions[f'{AV}.find_any'] = 'proved'
    ctx.functions['dznpy.ast.assert_filecontents_t'] = 'inlined'
    ctx.functions['dznpy.misc_utils.assert_t'] = 'inlined'
    I.overrides[f'{SC}.scope_resolution_order'] = lambda i, p, a, k: e.sro_contract(i, p, a, k)
    try:
        for variant in ('scope', 'none'):
            def mk(p, variant=variant):
                fct = I.fresh_dt(FC, 'in_fct', p)
                name = e.ns_dt('in_name', p)
                scope = e.ns_dt('in_scope', p) if variant == 'scope' else None
                return [fct, name, scope], [fct, name, scope]

            def impl(i, p, a, k):
                r = i.call_function(ff, a, k, p)
                return i.getattr_(r, 'items', p)

            def spec(i, p, a, k):
                zs = e.items_z(a[2]) if a[2] is not None else z3.Empty(STR_SEQ)
                scope_items = SeqV(i.seq_of_base(zs, TypeDesc('str'), p)) if a[2] is not None else SeqV()
                return i.call_function(e.spec.globals['lookup'],
                                       [a[0], i.getattr_(a[1], 'items', p), scope_items], {}, p)
            refines(ctx, f'ast_view.find_fqn[{variant}]', f'{AV}.find_fqn', impl, spec, mk, witness=None,
                    text='find_fqn(...).items == lookup(fct, name, scope): the declarations on the scope chain, each '
                         'once, seven containers')
    finally:
        del I.overrides[f'{SC}.scope_resolution_order']

    def mk_any(p):
        fct = I.fresh_dt(FC, 'in_fct', p)
        tail = e.ns_dt('in_tail', p)
        p.assume(z3.Length(e.items_z(tail)) >= 1)
        return [fct, tail], [fct, tail]

    refines(ctx, 'ast_view.find_any', f'{AV}.find_any',
            lambda i, p, a, k: i.getattr_(i.call_function(fa, a, k, p), 'items', p),
            lambda i, p, a, k: i.call_function(e.spec.globals['suffix_search'],
                                               [a[0], i.getattr_(a[1], 'items', p)], {}, p),
            mk_any, witness=None, text='find_any(...).items == suffix_search(fct, tail)')


def c_findresult(ctx, e):
    """get_single_instance / has_one_instance on a result of any length and any declaration kinds"""
    I = e.I
    FR = e.av.globals['FindResult']
    FindError = e.av.globals['FindError']
    kinds = [e.ast.globals[n] for n in ('Component', 'Enum', 'Extern', 'Foreign', 'Interface', 'SubInt', 'System')]
    uni = I.make_union('Decl', kinds)
    gsi = I.get_function(f'{AV}.FindResult.get_single_instance')
    hoi = I.get_function(f'{AV}.FindResult.has_one_instance')
    ctx.functions[f'{AV}.FindResult.get_single_instance'] = 'proved'
    ctx.functions[f'{AV}.FindResult.has_one_instance'] = 'proved'
    items_z = z3.Const('in_found', z3.SeqSort(uni['sort']))
    for hint in [None] + kinds:
        tag = hint.name if hint else 'None'

        def mk(p, hint=hint):
            fr = ObjV(FR, {'items': SeqV(I.seq_of_base(items_z, TypeDesc('union', uni), p), frozen=True)})
            return [fr, hint], [fr, hint]
        for k, (p, (kind, val, args)) in enumerate(I.run_function(
                lambda i, p, a, kw: i.call_function(gsi, a, kw, p), lambda p, mk=mk: (mk(p)[0], {}))):
            oid = f'ast_view.FindResult.get_single_instance[{tag}]:path{k}'
            one = z3.Length(items_z) == 1
            right = one if hint is None else z3.And(one, uni['recognizer'][hint](items_z[0]))
            if kind == 'return':
                ctx.prove(oid + ':ensures', 'ensures', f'{AV}.FindResult.get_single_instance', p,
                          z3.And(right, I.to_z3(val) == items_z[0]) if I.to_z3(val) is not None else False,
                          'normal => exactly one item, of the requested kind, and it is returned')
            elif kind == 'raise':
                ok_cls = val.cls is FindError
                ctx.prove(oid + ':raises', 'raises', f'{AV}.FindResult.get_single_instance', p,
                          z3.Not(right) if ok_cls else False,
                          'raises FindError => zero, several, or an item of another kind')
            else:
                ctx.prove(oid + ':outcome', 'ensures', f'{AV}.FindResult.get_single_instance', p, False, str(val))
        for k, (p, (kind, val, args)) in enumerate(I.run_function(
                lambda i, p, a, kw: i.call_function(hoi, a, kw, p), lambda p, mk=mk: (mk(p)[0], {}))):
            oid = f'ast_view.FindResult.has_one_instance[{tag}]:path{k}'
            one = z3.Length(items_z) == 1
            right = one if hint is None else z3.And(one, uni['recognizer'][hint](items_z[0]))
            if kind == 'return':
                ctx.prove(oid + ':ensures', 'ensures', f'{AV}.FindResult.has_one_instance', p,
                          I.zbool(I.truthy(val, p)) == right, 'result <=> exactly one item of the requested kind')
            else:
                ctx.prove(oid + ':outcome', 'ensures', f'{AV}.FindResult.has_one_instance', p, False,
                          f'unexpected {kind}: {val}')


def make_replay(ctx, o):
    if getattr(o, 'replay', None):
        return {'script': 'native/replay_C14.py', 'input': o.replay}
    return None


def native_search(ctx, o):
    """bounded replay corpus for obligations the solver left open / refuted without a reproducing model"""
    idsets = [[], ['a'], ['A', 'b'], ['My', 'Project'], ['x1', '_y', 'Z9'], ['a', 'a']]
    bad = [['a-b'], ['1a'], [''], ['a b'], ['ok', 'a.b'], ['a\n'], ['b', 'x\n'], ['é']]
    inputs = []
    everything = o.id.split(':', 1)[-1].startswith('engine:')
    if everything or 'NamespaceIds.__post_init__' in o.id or 'namespaceids_t' in o.id:
        for ids in idsets + bad:
            inputs.append({'function': 'NamespaceIds', 'items': ids})
        for ids in idsets:
            inputs.append({'function': 'namespaceids_t', 'kind': 'list', 'ids': ids})
            if len(ids) == 1:
                inputs.append({'function': 'namespaceids_t', 'kind': 'single', 'ids': ids})
            for sep in ('.', '::'):
                inputs.append({'function': 'namespaceids_t', 'kind': 'roundtrip', 'sep': sep, 'ids': ids})
    if everything or 'scope_resolution_order' in o.id or 'find_fqn' in o.id:
        pairs = [(['Seconds'], ['My', 'Project']), (['Project', 'Seconds'], ['My']), (['X'], []), (['X'], None),
                 (['A', 'B'], ['A', 'B', 'C']), (['a'], ['a'])]
        for (n, sc) in pairs:
            inputs.append({'function': 'scope_resolution_order', 'name': n, 'scope': sc, 'repeat': 2,
                           'interleave': [[p[0], p[1] or []] for p in pairs]})
    if everything or 'find_' in o.id or 'scope_resolution_order' in o.id:
        decls = [['interface', ['My', 'Project', 'Seconds']], ['interface', ['My', 'Seconds']],
                 ['extern', ['Seconds']], ['enum', ['Other', 'Seconds']], ['component', ['My', 'Project', 'C']],
                 ['system', ['My', 'S']], ['subint', ['My', 'Project', 'Sub', 'Seconds']], ['foreign', ['F']],
                 ['interface', ['Project', 'Seconds']], ['enum', ['My', 'Project', 'Project', 'Seconds']]]
        for (n, sc) in [(['Seconds'], ['My', 'Project']), (['Project', 'Seconds'], ['My']), (['Seconds'], None),
                        (['Seconds'], []), (['C'], ['My', 'Project', 'Deep']), (['S'], ['My']), (['F'], ['Q']),
                        (['Sub', 'Seconds'], ['My', 'Project'])]:
            inputs.append({'function': 'find_fqn', 'decls': decls, 'name': n, 'scope': sc,
                           'interleave': [[['Project', 'Seconds'], ['My']], [['Seconds'], ['My', 'Project']]]})
        for tail in (['Seconds'], ['Project', 'Seconds'], ['My', 'Project', 'Seconds'], ['C'], ['nope'],
                     ['A', 'My', 'Project', 'Seconds']):
            inputs.append({'function': 'find_any', 'decls': decls, 'tail': tail})
    return {'script': 'native/replay_C14.py', 'input': {'search': inputs}} if inputs else None
