"""C04 - generator property; obligations in props/gen_props.py over symbolic Builder.build runs (props/gen_common.py)."""
import os
from props import gen_props


def run(ctx):
    from props import gen_unbounded
    gen_unbounded.run_reroute(ctx, ('reroute_multiclient_out_events',))   # unbounded part: out-events to the claim holder
    gen_unbounded.run_claim_release(ctx)                                  # unbounded part: InitializePort<Port>()
    gen_unbounded.run_multiclient_cfg(ctx)   # the claim / release events are the configured ones, whatever they are called
    ctx.interp.model_strings_break_free = True
    only = os.environ.get('PYVC_SHAPES')
    gen_props.run_property(ctx, 'C04', only.split(',') if only else None)


def make_replay(ctx, o):
    if getattr(o, 'replay', None):
        return {'script': 'native/replay_gen.py', 'input': dict(o.replay, property='C04')}
    return None


def native_search(ctx, o):
    return gen_props.native_search(ctx, o, 'C04')
