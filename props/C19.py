"""C19 - user text rendered as a comment can never become code.

Contracts:
  cpp_gen.Comment.__str__   == comment_text(self.lines) (specs/text.py) for ANY buffer of lines; every rendered line
                            provably starts with '//'; rendering leaves the comment object unchanged (frame)
  cpp_gen.Comment.__init__  the buffer holds one entry per physical line of the text (TextBlock contract, C17)
  generated files           the copyright / creator text reaches the header and the source only inside lines that
                            start with '//' (generator harness, all shapes) - so changing only these inputs changes
                            nothing but comment lines
"""
from __future__ import annotations

import os

import z3

from pyvc import ops, ghostlib
from pyvc.builtins_ import forall_items
from pyvc.harness import Ctx, refines, PROVED, UNDECIDED, REFUTED
from pyvc.path import Path
from pyvc.sorts import TypeDesc
from pyvc.values import ObjV, SeqV, SeqT, LitB, StrT, JoinT, Unsupported
from props import gen_props

CG = 'dznpy.cpp_gen'


def run(ctx: Ctx):
    I = ctx.interp
    ghostlib.install(I)
    cg = I.load_module(CG)
    spec = I.load_module('specs.text')
    Comment = cg.globals['Comment']
    f_str = I.get_function(f'{CG}.Comment.__str__')
    ctx.functions[f'{CG}.Comment.__str__'] = 'proved'
    ctx.functions[f'{CG}.Comment.__init__'] = 'proved'
    STR_SEQ = z3.SeqSort(z3.StringSort())

    def mk(p):
        x = ops.mkstr([z3.String('in_text')])
        c = I.call(Comment, [x], {}, p)          # the real constructor: splits the user text into lines
        return [c], [SeqV(c.fields['_lines'].term, frozen=True)]

    snap = {}

    def impl(i, p, a, k):
        before = (ops.canon(a[0].fields['_lines'].term), ops.canon(a[0].fields['_header'].term),
                  ops.canon(a[0].fields['_indentizer']))
        r = i.call_function(f_str, a, k, p)
        after = (ops.canon(a[0].fields['_lines'].term), ops.canon(a[0].fields['_header'].term),
                 ops.canon(a[0].fields['_indentizer']))
        p.unchanged = before == after
        return r
    res = refines(ctx, 'cpp_gen.Comment.__str__', f'{CG}.Comment.__str__', impl,
                  lambda i, p, a, k: i.call_function(spec.globals['comment_text'], a, k, p), mk, witness=None,
                  text="str(Comment(text)) == comment_text(lines of text)")
    for k_, (p, (kind, val)) in enumerate(res):
        o = ctx.new(f'cpp_gen.Comment.__str__:path{k_}:frame', 'frame', f'{CG}.Comment.__str__',
                    'rendering leaves the comment object unchanged (it can be rendered or extended again)')
        ctx.settle(o, PROVED if getattr(p, 'unchanged', False) else REFUTED, 'syntactic',
                   '' if getattr(p, 'unchanged', False) else 'the line buffer / indentizer of the comment was modified')
        if getattr(p, 'unchanged', False) is False:
            o.replay = {'function': 'Comment.frame'}
        # the comment can be extended after rendering and stays a comment
        if kind == 'return':
            from pyvc.values import RaiseSignal
            a0 = p.impl_args[0]
            try:
                r = I.call(I.getattr_(a0, '__iadd__', p), [ops.mkstr([z3.String('in_more')])], {}, p)
                same = r is a0 and r.cls is Comment
            except RaiseSignal:
                same = False
            o3 = ctx.new(f'cpp_gen.Comment.__str__:path{k_}:extend', 'ensures', 'dznpy.text_gen.TextBlock.__iadd__',
                         'comment += text after rendering extends the same Comment object')
            ctx.settle(o3, PROVED if same else REFUTED, 'syntactic',
                       '' if same else '+= returned another object than the comment itself')
            if not same:
                o3.replay = {'function': 'Comment', 'text': 'a'}
        if kind != 'return' or isinstance(val, str):
            continue
        # every rendered line starts with '//'
        ok = True
        if os.environ.get('PYVC_DEBUG_C19'):
            print('VAL', ops.canon(val)[:1500])
            print('HYPS', [(h.origin, str(h.body)[:300]) for h in p.hyps])
        for part in val.parts:
            if isinstance(part, JoinT):
                ok = ok and forall_items(I, p, part.seq, lambda it, pp: True if (
                    isinstance(it, str) and it.startswith('//')) else z3.PrefixOf(z3.StringVal('//'), ops.to_zstr(it)))
            elif isinstance(part, str):
                if part.strip('\n'):
                    ok = ok and all(x.startswith('//') for x in part.split('\n') if x)
            else:
                ok = ok and p.entails(z3.PrefixOf(z3.StringVal('//'), part))
        o2 = ctx.new(f'cpp_gen.Comment.__str__:path{k_}:prefix', 'ensures', f'{CG}.Comment.__str__',
                     "every rendered line starts with '//'")
        ctx.settle(o2, PROVED if ok else UNDECIDED, 'z3', '' if ok else 'could not prove the // prefix of every line')
    gen_props.run_property(ctx, 'C19', os.environ.get('PYVC_SHAPES', '').split(',') if os.environ.get('PYVC_SHAPES') else None)


def make_replay(ctx, o):
    if getattr(o, 'replay', None):
        if o.replay.get('function') == 'Comment':
            return {'script': 'native/replay_text.py', 'input': o.replay}
        if 'shape' in o.replay:
            return {'script': 'native/replay_gen.py', 'input': dict(o.replay, property='C19')}
    return None


def native_search(ctx, o):
    if ':path' in o.id and 'cpp_gen.' not in o.id:
        return gen_props.native_search(ctx, o, 'C19')
    if 'engine:' in o.id:
        # the run itself ended undecided: both corpora (comment texts, then generated files)
        class _C:
            id = 'cpp_gen.Comment'
        return [native_search(ctx, _C), gen_props.native_search(ctx, o, 'C19')]
    return {'script': 'native/replay_text.py', 'input': {'search': [{'function': 'Comment', 'text': t} for t in (
        'a', '', 'a\nb', ' lead', 'x\r\ny', 'p\x0bq', 'u v', '\n\n', 'tab\t\nz ', 'a\x85b', 'l1\x1cl2', '\n x \n')]}}
