"""C05 - parsing preserves every declaration of the Dezyne JSON AST with correct names.

Contract of DznJsonAst.process (and of everything below it: parse_element, the 33 parse_* functions, ElementHelper,
NamespaceTree.fqn_member_name): for every document  to_json(D)  of the corpus specs/docs.py the returned FileContents
equals  expected(D) : one entry per declaration (nested interface types included), in source order, fully qualified
by the enclosing namespaces, all details as written; unknown classes and non-dict elements are skipped without
affecting siblings.  BOUND: document STRUCTURE from the corpus; every name / value / number is symbolic."""
from __future__ import annotations

import z3

from pyvc import ops
from pyvc.compare import equal, Mismatch
from pyvc.harness import Ctx, PROVED, parallel_jobs
from pyvc.path import Path, explore
from pyvc.values import Unsupported
from props import parser_common as PC
from specs import docs as D

FN = 'dznpy.json_ast.DznJsonAst.process'


def check_doc(ctx: Ctx, name, nodes):
    I = ctx.interp

    def run(p):
        N = PC.SymNames(p)
        doc = PC.to_value(D.to_json(nodes, N))
        PC.freeze(doc)
        parser = PC.new_parser(I, p, doc)
        p.N = N
        return PC.run_process(I, p, parser)

    for k, (p, (kind, val)) in enumerate(explore(Path(), run, 256)):
        oid = f'{name}:path{k}'
        wit = lambda m, p=p: {'doc': name, 'names': p.N.witness(m)}
        if kind != 'return':
            ctx.prove(f'{oid}:outcome', 'raises' if kind == 'raise' else kind, FN, p.child(), False,
                      f'a well-formed document is rejected / mishandled: {kind} '
                      f'{val.cls.name if kind == "raise" else val}', witness=wit)
            continue
        got, extra = PC.describe_fc(I, p, val)
        want = D.expected(nodes, p.N)
        for cont in D.KINDS:
            w = tuple(want[cont])
            try:
                leaves = equal(I, p, got[cont], w, cont)
            except Mismatch as mm:
                ctx.prove(f'{oid}:{cont}', 'ensures', FN, p.child(), False,
                          f'FileContents.{cont} differs from the declarations of the document: {mm}', witness=wit)
                continue
            if not leaves:
                o = ctx.new(f'{oid}:{cont}', 'ensures', FN, f'FileContents.{cont} == declarations of the document '
                                                            f'({len(w)} entries, source order, fully qualified)')
                ctx.settle(o, PROVED, 'syntactic')
            for i, lf in enumerate(leaves):
                ctx.prove(f'{oid}:{cont}.{i}', 'ensures', FN, lf.path, lf.goal, f'FileContents.{cont} @ {lf.where}',
                          witness=wit)
        ok = all(ops.canon(a) == ops.canon(b) for a, b in extra)
        o = ctx.new(f'{oid}:parent-ns', 'ensures', FN, 'fqn == namespace trail of parent_ns ++ own name, for every '
                                                       'declaration')
        ctx.settle(o, PROVED if ok else 'refuted', 'syntactic',
                   '' if ok else 'fqn and parent_ns/name disagree')


def run(ctx: Ctx):
    ctx.level = 'other'
    ctx.bounded = getattr(ctx, 'bounded', []) + [{
        'function': 'dznpy.json_ast.DznJsonAst.process (corpus part)',
        'bound': 'document STRUCTURE: the 5 documents of specs/docs.py; every name / value / number symbolic',
        'result': 'obligations <document>:path*; the unbounded contracts (json_ast.* obligations) carry no such bound'}]
    ctx.level_explanation = ('Parser harness: every obligation is proved for ALL leaf contents (names, values, numbers) of one document STRUCTURE; the structures are the enumerated document corpus and its single-point malformations (bound stated under assumptions): bounded in structure, unbounded in content.')
    ctx.trusted += ['orjson.loads (the JSON text -> python value step is outside the contract)',
                    'z3 theory of strings']
    ctx.assumptions += ['BOUND: document structure from the corpus specs/docs.py (5 documents: every declaration kind, '
                        'nested / re-opened / same-named namespaces, nested interface types, unknown classes, non-dict '
                        'elements); all names, values and numbers are symbolic',
                        'well-formedness: names are identifiers (C15 covers everything else)']
    for f in ('DznJsonAst.process', 'DznJsonAst.parse_element', 'ElementHelper.*', 'get_class_value', 'parse_* (33)'):
        ctx.functions[f'dznpy.json_ast.{f}'] = 'executed symbolically on every document of the corpus'
    jobs = list(D.documents().items())
    status, msg = parallel_jobs(ctx, jobs, lambda sub, j: check_doc(sub, j[0], j[1]), lambda j: j[0])
    # unbounded part: element parsers, parse_element, process for well-formed documents of any size / nesting (8.7)
    from props import parse_unbounded
    from props.gen_unbounded import guarded
    guarded(ctx, 'element-parsers', parse_unbounded.run)
    guarded(ctx, 'documents', parse_unbounded.run_documents)
    if status == 'crash':
        raise RuntimeError(msg)
    if status == 'undecided':
        raise Unsupported(msg)


def make_replay(ctx, o):
    if getattr(o, 'replay', None):
        return {'script': 'native/replay_parser.py', 'input': dict(o.replay, property='C05')}
    return None


def native_search(ctx, o):
    import re
    m = re.match(r'[^:]*:json_ast\.(parse_[a-z_]+|process)', o.id)
    if m:
        return {'script': 'native/replay_parse.py', 'input': {'function': m.group(1)}}
    return {'script': 'native/replay_parser.py', 'input': {'search': [
        {'doc': d, 'names': n, 'property': 'C05'} for d in D.documents() for n in ({}, {'T': 'T', 'St': 'St'},
                                                                                  {'A': 'B', 'B': 'A', 'Z': 'A'})]}}
