"""C02 - generator property; obligations in props/gen_props.py over symbolic Builder.build runs (props/gen_common.py)."""
import os
from props import gen_props


def run(ctx):
    from props import gen_unbounded
    gen_unbounded.run_reroute(ctx, ('reroute_in_events', 'reroute_out_events'))   # unbounded part: dispatcher handlers
    gen_unbounded.run_portitf(ctx)     # any exposed port: strict-port type of the accessor follows the semantics
    ctx.interp.model_strings_break_free = True
    only = os.environ.get('PYVC_SHAPES')
    gen_props.run_property(ctx, 'C02', only.split(',') if only else None)


def make_replay(ctx, o):
    if getattr(o, 'replay', None):
        return {'script': 'native/replay_gen.py', 'input': dict(o.replay, property='C02')}
    return None


def native_search(ctx, o):
    return gen_props.native_search(ctx, o, 'C02')
