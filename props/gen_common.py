"""Shared harness for the generator properties (C01 C02 C04 C07 C09 C10 C12 C13 C03b C08 C19c).

The real `Builder.build` (and everything below it: create_dzn_elements, create_cpp_portitf, reroute_*,
create_constructor, cpp_gen, text_gen, support_files) is executed SYMBOLICALLY on models whose STRUCTURE is
concrete (number of ports / events / formals, directions, configuration kinds - enumerated by `shapes()`)
and whose CONTENT is symbolic: every port, event, formal, interface, extern, enum and field name, every extern
data value, the file name, suffix, copyright and creator text are unconstrained strings (identifiers resp.
break-free strings by model validity).  The obligations of the individual properties are stated over the
resulting symbolic texts, i.e. they hold for ALL names and values of each shape.

Bound (stated in every evidence file that uses this harness): structure <= 3 ports, <= 3 events per
interface, <= 2 formals per event, the shape list below; unbounded in every string.
"""
from __future__ import annotations

import copy
import itertools

import z3

from pyvc import ops, ghostlib
from pyvc.interp import Interp, EnumSym, TerminationViolation
from pyvc.path import Path, explore
from pyvc.values import (ObjV, DtV, SeqV, SeqT, LitB, SetV, DictV, StrT, EnumV, RaiseSignal, Unsupported, ExcV,
                         ClassV, FrameViolation)


from specs.shapes import shapes, ev  # noqa: E402,F401  (pure python, shared with the native replay)


# ---------------------------------------------------------------------------------------------------- world
class World:
    """One symbolic model + configuration of a shape, built from the REAL dataclasses through the interpreter."""

    def __init__(self, interp: Interp, shape, path: Path):
        self.I, self.shape, self.p = interp, shape, path
        I = interp
        self.ast = I.load_module('dznpy.ast')
        self.sc = I.load_module('dznpy.scoping')
        self.adv = I.load_module('dznpy.adv_shell')
        self.common = I.load_module('dznpy.adv_shell.common')
        self.ps = I.load_module('dznpy.adv_shell.port_selection')
        self.types = I.load_module('dznpy.adv_shell.types')
        self.syms = {}
        self.names = []          # identifier symbols (distinctness groups are added separately)
        self.build()

    # -- symbols
    def ident(self, name):
        if name not in self.syms:
            z = z3.String('in_' + name)
            self.syms[name] = z
            self.I.break_free_syms.add(z.get_id())
            self.p.assume(ops.with_facts(ops.is_ident(z)))
        return ops.mkstr([self.syms[name]])

    def text(self, name, break_free=True, nonempty=True):
        if name not in self.syms:
            z = z3.String('in_' + name)
            self.syms[name] = z
            if break_free:
                self.I.break_free_syms.add(z.get_id())
                self.p.assume(ops.no_break(z, self.p))
            if nonempty:
                self.p.assume(z3.Length(z) > 0)
        return ops.mkstr([self.syms[name]])

    def distinct(self, values):
        zs = [ops.to_zstr(v) for v in values if not isinstance(v, str)]
        lits = [v for v in values if isinstance(v, str)]
        if len(zs) > 1:
            self.p.assume(z3.Distinct(*zs))
        for z in zs:
            for l in lits:
                self.p.assume(z != z3.StringVal(l))

    # -- dataclass construction through the interpreter (runs the real __post_init__ validation)
    def new(self, mod, cls, **kw):
        return self.I.call(mod.globals[cls], [], kw, self.p)

    def lst(self, items):
        return SeqV(SeqT([LitB(list(items))]) if items else SeqT())

    def ns(self, items):
        return self.new(self.sc, 'NamespaceIds', items=self.lst(items))

    def scope_name(self, items):
        return self.new(self.ast, 'ScopeName', value=self.ns(items))

    def tree(self, ns_items):
        t = self.new(self.sc, 'NamespaceTree')
        for x in ns_items:
            t = self.new(self.sc, 'NamespaceTree', parent=t, scope_name=self.ns([x]))
        return t

    def enum_member(self, mod, cls, name):
        return mod.globals[cls].members[name]

    def build(self):
        sh = self.shape
        A = self.ast
        ex = sh['extra']
        comp_ns = [self.ident(f'ns{i}') for i, _ in enumerate(sh['comp_ns'])]
        # namespaces of interfaces share the identifiers of the component namespace where the shape says so
        ns_syms = {}

        def ns_of(path_names):
            res = []
            for k, nm in enumerate(path_names):
                key = tuple(path_names[:k + 1])
                if key not in ns_syms:
                    if list(key) == sh['comp_ns'][:k + 1]:
                        ns_syms[key] = comp_ns[k]
                    else:
                        ns_syms[key] = self.ident('ns_' + '_'.join(key))
                res.append(ns_syms[key])
            return res
        for k in range(len(sh['comp_ns'])):
            ns_syms[tuple(sh['comp_ns'][:k + 1])] = comp_ns[k]

        self.externs, self.enums, self.interfaces, self.decls = [], [], [], []
        self.itf_info = []
        ext_names = []
        all_decl_names = []
        for ii, events in enumerate(sh['itfs']):
            ins = ns_of(sh['itf_ns'][ii])
            iname = self.ident(f'itf{ii}')
            ifqn = ins + [iname]
            all_decl_names.append(iname)
            # one extern type per formal position (declared next to the interface), one reply enum
            ext_sym = self.ident(f'itf{ii}_T')
            ext_val = self.text(f'itf{ii}_T_value')
            enum_sym = self.ident(f'itf{ii}_Reply')
            enum_fields = [self.ident(f'itf{ii}_Reply_f0'), self.ident(f'itf{ii}_Reply_f1')]
            self.distinct(enum_fields)
            all_decl_names += [ext_sym, enum_sym]
            ptree = self.tree(ins)
            extern = self.new(A, 'Extern', fqn=self.ns(ins + [ext_sym]), parent_ns=ptree,
                              name=self.scope_name([ext_sym]), value=self.new(A, 'Data', value=ext_val))
            enum = self.new(A, 'Enum', fqn=self.ns(ins + [enum_sym]), parent_ns=ptree,
                            name=self.scope_name([enum_sym]),
                            fields=self.new(A, 'Fields', elements=self.lst(enum_fields)))
            evs = []
            ev_names = []
            for ei, e in enumerate(events):
                en = self.ident(f'itf{ii}_ev{ei}')
                ev_names.append(en)
                fs = []
                fnames = []
                for fi, fdir in enumerate(e['formals']):
                    fnm = self.ident(f'itf{ii}_ev{ei}_arg{fi}')
                    fnames.append(fnm)
                    tname = [ext_sym]
                    if ex.get('formal_type') == 'enum':
                        tname = [enum_sym]
                    fs.append(self.new(A, 'Formal', name=fnm, type_name=self.scope_name(tname),
                                       direction=self.enum_member(A, 'FormalDirection',
                                                                  {'in': 'IN', 'out': 'OUT', 'inout': 'INOUT'}[fdir])))
                self.distinct(fnames)
                ret = ['void'] if e['ret'] == 'void' else [enum_sym]
                if ex.get('claim_ret') == 'extern' and e['ret'] != 'void':
                    ret = [ext_sym]        # a declared type that is not an enum
                sig = self.new(A, 'Signature', type_name=self.scope_name(ret),
                               formals=self.new(A, 'Formals', elements=self.lst(fs)))
                evs.append(self.new(A, 'Event', name=en, signature=sig,
                                    direction=self.enum_member(A, 'EventDirection', e['dir'].upper())))
            self.distinct(ev_names)
            itf = self.new(A, 'Interface', fqn=self.ns(ifqn), parent_ns=ptree,
                           ns_trail=self.new(self.sc, 'NamespaceTree', parent=ptree, scope_name=self.ns([iname])),
                           name=self.scope_name([iname]),
                           types=self.new(A, 'Types', elements=self.lst([])),
                           events=self.new(A, 'Events', elements=self.lst(evs)))
            self.interfaces.append(itf)
            self.externs.append(extern)
            self.enums.append(enum)
            self.itf_info.append({'fqn': ifqn, 'name': iname, 'events': events, 'ev_names': ev_names, 'evs': evs,
                                  'extern': extern, 'ext_val': ext_val, 'ext_sym': ext_sym, 'enum': enum,
                                  'enum_sym': enum_sym, 'enum_fields': enum_fields, 'ns': ins})
            if ex.get('formal_type') == 'shadowed' and ii == 0:
                # an ENUM with the extern's name declared nearer on the scope chain: two declarations of different
                # kinds are found -> the build must fail instead of picking the one of the wanted kind
                self.enums.append(self.new(A, 'Enum', fqn=self.ns(ins + [ext_sym]), parent_ns=ptree,
                                           name=self.scope_name([ext_sym]),
                                           fields=self.new(A, 'Fields', elements=self.lst([self.ident('shadow_f0')]))))
                # the extern itself lives one namespace further out
                self.externs[-1] = self.new(A, 'Extern', fqn=self.ns(ins[:-1] + [ext_sym]),
                                            parent_ns=self.tree(ins[:-1]), name=self.scope_name([ext_sym]),
                                            value=self.new(A, 'Data', value=ext_val))
            if ex.get('formal_type') == 'ambiguous' and ii == 0:
                # a second extern with the same name one namespace further out: both are on the scope chain
                outer = ins[:-1]
                dup = self.new(A, 'Extern', fqn=self.ns(outer + [ext_sym]), parent_ns=self.tree(outer),
                               name=self.scope_name([ext_sym]),
                               value=self.new(A, 'Data', value=self.text('dup_T_value')))
                self.externs.append(dup)
        # decoys in an unrelated namespace (same simple names, different namespace)
        if ex.get('decoy'):
            dns = [self.ident('ns_unrelated')]
            self.distinct([dns[0]] + list(ns_syms.values()))
            info = self.itf_info[0]
            if ex['decoy'] == 'extern':
                # declared in the COMPONENT's namespace: unrelated to the interface's own scope chain
                where = comp_ns
                self.externs.insert(0, self.new(A, 'Extern', fqn=self.ns(where + [info['ext_sym']]),
                                                parent_ns=self.tree(where), name=self.scope_name([info['ext_sym']]),
                                                value=self.new(A, 'Data', value=self.text('decoy_T_value'))))
                self.decoy_value = self.text('decoy_T_value')
            else:
                self.interfaces.insert(0, self.new(
                    A, 'Interface', fqn=self.ns(dns + [info['name']]), parent_ns=self.tree(dns),
                    ns_trail=self.tree(dns + [info['name']]), name=self.scope_name([info['name']]),
                    types=self.new(A, 'Types', elements=self.lst([])),
                    events=self.new(A, 'Events', elements=self.lst([]))))
        self.distinct(all_decl_names + ['void'])
        if len(ns_syms) > 1:
            self.distinct(list({canon_s(v): v for v in ns_syms.values()}.values()))
        # ---- ports / encapsulee
        ports = []
        self.port_names = []
        self.port_info = []
        for pi, pdesc in enumerate(sh['ports']):
            ii, pdir = pdesc[0], pdesc[1]
            injected = len(pdesc) > 2 and pdesc[2] == 'injected'
            pn = self.ident(f'port{pi}')
            self.port_names.append(pn)
            info = self.itf_info[ii]
            # the written type name: simple name when the interface is on the component's scope chain
            tn = [info['name']]
            if sh['itf_ns'][ii] != sh['comp_ns'][:len(sh['itf_ns'][ii])]:
                tn = list(info['fqn'])      # not on the component's scope chain: written fully qualified
            if ex.get('port_type') == 'missing' and pi == 0:
                tn = [self.ident('no_such_interface')]
                self.distinct([tn[0]] + all_decl_names)
            if ex.get('port_type') == 'enum' and pi == 0:
                tn = [info['enum_sym']]
            ports.append(self.new(A, 'Port', name=pn, type_name=self.scope_name(tn),
                                  direction=self.enum_member(A, 'PortDirection', pdir.upper()),
                                  formals=self.new(A, 'Formals', elements=self.lst([])),
                                  injected=self.new(A, 'Injected', value=injected)))
            self.port_info.append({'name': pn, 'itf': ii, 'dir': pdir, 'injected': injected})
        self.distinct(self.port_names)
        cname = self.ident('encapsulee')
        self.distinct([cname] + all_decl_names + ['void'])      # 'void' is a keyword, never a declared name
        cfqn = comp_ns + [cname]
        ctree = self.tree(comp_ns)
        pobj = self.new(A, 'Ports', elements=self.lst(ports))
        self.components, self.systems = [], []
        if sh['kind'] == 'component':
            enc = self.new(A, 'Component', fqn=self.ns(cfqn), parent_ns=ctree, name=self.scope_name([cname]),
                           ports=pobj)
            self.components.append(enc)
        else:
            enc = self.new(A, 'System', fqn=self.ns(cfqn), parent_ns=ctree, name=self.scope_name([cname]), ports=pobj,
                           instances=self.new(A, 'Instances', elements=self.lst([])),
                           bindings=self.new(A, 'Bindings', elements=self.lst([])))
            self.systems.append(enc)
        self.encapsulee = enc
        self.enc_fqn = cfqn
        self.comp_ns = comp_ns
        self.fct = self.new(A, 'FileContents', components=self.lst(self.components), enums=self.lst(self.enums),
                            externs=self.lst(self.externs), interfaces=self.lst(self.interfaces),
                            systems=self.lst(self.systems))
        # ---- configuration
        W = self.ps.globals['PortWildcard'].members

        def select(kind, side_names):
            if kind in ('ALL', 'NONE', 'REMAINING'):
                return self.new(self.ps, 'PortSelect', value=W[kind])
            if kind == 'SETX':
                x = self.ident('not_a_port')
                self.distinct([x] + self.port_names)
                return self.new(self.ps, 'PortSelect', value=self.I.make_set([x], self.p))
            idxs = [int(c) for c in kind[3:]]
            return self.new(self.ps, 'PortSelect', value=self.I.make_set([side_names[i] for i in idxs], self.p))
        prov_names = [i['name'] for i in self.port_info if i['dir'] == 'provides']
        req_names = [i['name'] for i in self.port_info if i['dir'] == 'requires' and not i['injected']]
        pk = {'ALL_MTS': ('NONE', 'ALL'), 'ALL_STS': ('ALL', 'NONE')}[sh['prov']]
        provides = self.new(self.ps, 'PortsSemanticsCfg', sts=select(pk[0], prov_names), mts=select(pk[1], prov_names))
        requires = self.new(self.ps, 'PortsSemanticsCfg', sts=select(sh['req'][0], req_names),
                            mts=select(sh['req'][1], req_names))
        self.mc = None
        mc_cfg = None
        if sh['mc'] is not None:
            if sh['mc'] == 'missing':
                mport = self.ident('no_such_port')
                self.distinct([mport] + self.port_names)
                info = self.itf_info[0]
            else:
                mport = self.port_info[sh['mc']]['name']
                info = self.itf_info[self.port_info[sh['mc']]['itf']]
            claim = info['ev_names'][0]
            release = info['ev_names'][1]
            reply = info['enum_fields'][0]
            if ex.get('mc_claim') == 'missing':
                claim = self.ident('no_such_event')
                self.distinct([claim] + info['ev_names'])
            if ex.get('mc_claim') == 'event1':
                claim = info['ev_names'][1]
            if ex.get('mc_release') == 'missing':
                release = self.ident('no_such_release')
                self.distinct([release] + info['ev_names'])
            if ex.get('mc_reply') == 'missing':
                reply = self.ident('no_such_field')
                self.distinct([reply] + info['enum_fields'])
            mc_cfg = self.new(self.ps, 'MultiClientPortCfg', port_name=mport, claim_event_name=claim,
                              claim_granting_reply_value=self.ns([reply]), release_event_name=release)
            self.mc = {'port': mport, 'claim': claim, 'release': release, 'reply': reply, 'info': info}
        self.ports_cfg = self.new(self.ps, 'PortsCfg', provides=provides, requires=requires, multiclient=mc_cfg)
        FO = self.common.globals['FacilitiesOrigin'].members
        enc_name = list(cfqn)
        if ex.get('encapsulee') == 'missing':
            enc_name = [self.ident('no_such_component')]
            self.distinct(enc_name + all_decl_names + [cname])
        if ex.get('encapsulee') == 'interface':
            enc_name = list(self.itf_info[0]['fqn'])
        self.filename = self.text('dezyne_filename')
        if not ex.get('empty_shell_name'):
            # the shell name (basename of the model file + suffix) is non-empty; the shape 'empty-shell-name'
            # covers the other case (CppGenError)
            fz = ops.to_zstr(self.filename)
            base = z3.Function('os.path.basename', z3.StringSort(), z3.StringSort())
            root = z3.Function('os.path.splitext.root', z3.StringSort(), z3.StringSort())
            self.p.assume(z3.Length(root(base(fz))) > 0)
        self.suffix = self.text('suffix', nonempty=False)
        if ex.get('empty_shell_name'):
            fz = ops.to_zstr(self.filename)
            base = z3.Function('os.path.basename', z3.StringSort(), z3.StringSort())
            root = z3.Function('os.path.splitext.root', z3.StringSort(), z3.StringSort())
            self.p.assume(z3.Length(root(base(fz))) == 0)
            self.p.assume(z3.Length(ops.to_zstr(self.suffix)) == 0)
        self.copyright = self.text('copyright', break_free=False, nonempty=True)
        self.creator = self.text('creator_info', break_free=False) if sh['creator'] else None
        prefix = self.ns([self.ident(f'prefix{i}') for i, _ in enumerate(sh['prefix'])]) if sh['prefix'] else None
        self.prefix_items = [self.ident(f'prefix{i}') for i, _ in enumerate(sh['prefix'])] if sh['prefix'] else []
        self.cfg = self.new(self.common, 'Configuration', dezyne_filename=self.filename, ast_fc=self.fct,
                            output_basename_suffix=self.suffix, fqn_encapsulee_name=self.ns(enc_name),
                            ports_cfg=self.ports_cfg, facilities_origin=FO[sh['fac']], copyright=self.copyright,
                            support_files_ns_prefix=prefix, creator_info=self.creator)

    # ---- semantics of each exposed port according to the SPECIFICATION (C03's sem/covered, computed concretely
    #      from the shape description - never from the code)
    def port_semantics(self, pi):
        info = self.port_info[pi]
        sh = self.shape
        if info['dir'] == 'provides':
            return 'MTS' if sh['prov'] == 'ALL_MTS' else 'STS'
        if info['injected']:
            return None
        req_idx = [k for k, i in enumerate(self.port_info) if i['dir'] == 'requires' and not i['injected']].index(pi)
        sts, mts = sh['req']
        if sts.startswith('SET') and str(req_idx) in sts[3:]:
            return 'STS'
        if mts.startswith('SET') and str(req_idx) in mts[3:]:
            return 'MTS'
        if sts in ('ALL', 'REMAINING'):
            return 'STS'
        if mts in ('ALL', 'REMAINING'):
            return 'MTS'
        return 'UNCOVERED'


def canon_s(v):
    return ops.canon(v)


# ---------------------------------------------------------------------------------------------------- running
class BuildRun:
    """outcome of one symbolic Builder.build on one shape"""

    def __init__(self, world, path, kind, value, builder):
        self.w, self.p, self.kind, self.value, self.builder = world, path, kind, value, builder


def freeze_inputs(interp, v, label, seen=None, depth=0):
    """mark everything reachable from the inputs as owned by the caller: any mutation is a frame violation"""
    seen = set() if seen is None else seen
    if id(v) in seen or depth > 12:
        return
    seen.add(id(v))
    if isinstance(v, SeqV):
        v.frozen = True
        v.module_owned = v.__dict__.get('module_owned') or label
        for b in v.term.blocks:
            if isinstance(b, LitB):
                for x in b.items:
                    freeze_inputs(interp, x, label, seen, depth + 1)
    elif isinstance(v, ObjV) and not isinstance(v, ExcV):
        v.module_owned = v.__dict__.get('module_owned') or label
        for x in v.fields.values():
            freeze_inputs(interp, x, label, seen, depth + 1)
    elif isinstance(v, (SetV, DictV)):
        v.module_owned = v.__dict__.get('module_owned') or label
        if isinstance(v, DictV) and v.dom is None:
            for x in v.concrete.values():
                freeze_inputs(interp, x, label, seen, depth + 1)


def run_shape(interp: Interp, shape, max_paths=64):
    """All paths of Builder().build(cfg) on the symbolic world of `shape`."""
    adv = interp.load_module('dznpy.adv_shell')
    interp.model_strings_break_free = True
    from pyvc import path as _pm
    _pm.FEAS_MODE[0] = 'strings'
    results = []

    def run(p):
        w = World(interp, shape, p)
        freeze_inputs(interp, w.cfg, 'the configuration / parsed model passed to Builder.build')
        builder = interp.call(adv.globals['Builder'], [], {}, p)
        p.world = w
        try:
            r = interp.call(interp.getattr_(builder, 'build', p), [w.cfg], {}, p)
            return BuildRun(w, p, 'return', r, builder)
        except RaiseSignal as rs:
            return BuildRun(w, p, 'raise', rs.exc, builder)
        except FrameViolation as fv:
            return BuildRun(w, p, 'frame', fv, builder)
        except TerminationViolation as tv:
            return BuildRun(w, p, 'diverge', tv, builder)

    for (p, br) in explore(Path(), run, max_paths):
        results.append(br)
    return results
