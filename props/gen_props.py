"""Obligations of the generator properties over symbolic Builder.build runs (see gen_common.py)."""
from __future__ import annotations

import json
import os
import re
import signal
import sys
import time

import z3

from pyvc import ops
from pyvc.builtins_ import split_lines_syntactic, py_str
from pyvc.harness import Ctx, PROVED, REFUTED, UNDECIDED, ERROR, eval_model, zstr_value
from pyvc.interp import Interp
from pyvc.path import Path
from pyvc.values import ObjV, SeqV, SeqT, LitB, StrT, JoinT, CompB, Unsupported, ExcV, ClassV, BuiltinClass
from props import gen_common as G
from specs import wiring as W

LIB_ERRORS = ('AdvShellError', 'MultiClientCfgError', 'FindError', 'NamespaceIdsTypeError', 'CppGenError')
SUPPORT = ['StrictPort', 'ILog', 'MiscUtils', 'MetaHelpers', 'MultiClientSelector', 'MutexWrapped']


class SymAlgebra:
    """string algebra of specs/wiring.py over executor strings (same operations the executor applies)"""

    def __init__(self, interp, path):
        self.I, self.p = interp, path

    def cat(self, *parts):
        return ops.mkstr(list(parts))

    def cap(self, s):
        # the same terms the executor builds for  name[0].upper() + name[1:]  (identifiers are non-empty)
        from pyvc.builtins_ import _s_upper
        if isinstance(s, str):
            return s[0].upper() + s[1:]
        z = ops.to_zstr(s)
        first = ops.mkstr([z3.SubString(z, z3.IntVal(0), 1)])
        return ops.mkstr([_s_upper(self.I, self.p, [first], {}), z3.SubString(z, z3.IntVal(1), z3.Length(z) - 1)])

    def join(self, sep, items):
        parts = []
        for i, x in enumerate(items):
            if i:
                parts.append(sep)
            parts.append(x)
        return ops.mkstr(parts)


# ---------------------------------------------------------------------------------------------- line utilities
def norm(line):
    """alpha: leading/trailing literal whitespace dropped, literal whitespace runs collapsed"""
    parts = [line] if isinstance(line, str) else list(line.parts)
    out = []
    for p in parts:
        out.append(re.sub(r'\s+', ' ', p) if isinstance(p, str) else p)
    if out and isinstance(out[0], str):
        out[0] = out[0].lstrip()
    if out and isinstance(out[-1], str):
        out[-1] = out[-1].rstrip()
    return ops.mkstr(out)


def skeleton(line):
    if isinstance(line, str):
        return line
    return '\x00'.join(p for p in line.parts if isinstance(p, str))


def is_blank(line):
    return isinstance(line, str) and line.strip() == ''


def is_comment(line):
    parts = [line] if isinstance(line, str) else list(line.parts)
    return bool(parts) and isinstance(parts[0], str) and parts[0].lstrip().startswith('//')


def code_lines(interp, path, text):
    """normalised non-blank, non-comment lines of a generated text, or None if it cannot be split syntactically"""
    if text is None:
        return []
    if isinstance(text, ObjV):       # a TextBlock
        text = py_str(interp, text, path)
    t = split_lines_syntactic(interp, path, text)
    if t is None or not ops.seq_is_lit(t):
        # a whole file: '\n'.join(lines) + '\n' where the lines of the user's copyright / creator text form
        # comprehension blocks (comment lines, checked by C19); the literal lines are what is looked at here
        if isinstance(text, StrT) and len(text.parts) == 2 and isinstance(text.parts[0], JoinT) and \
                text.parts[0].sep == '\n' and text.parts[1] == '\n':
            items = []
            for b in text.parts[0].seq.blocks:
                if isinstance(b, LitB):
                    items.extend(b.items)
            return [norm(x) for x in items if not is_blank(x) and not is_comment(x)]
        return None
    return [norm(x) for x in ops.seq_lit_items(t) if not is_blank(x) and not is_comment(x)]


def statements(lines):
    """group lines into statements: a line ending in '{' opens a lambda that ends at the line '};'"""
    res, cur = [], None
    for ln in lines:
        sk = skeleton(ln)
        if cur is not None:
            cur.append(ln)
            if isinstance(ln, str) and ln == '};':
                res.append(cur)
                cur = None
            continue
        if sk.endswith('{') and '= [&' in sk:
            cur = [ln]
        else:
            res.append([ln])
    if cur is not None:
        res.append(cur)
    return res


def touches_event_slot(stmt):
    sk = ' '.join(skeleton(l) for l in stmt)
    return '.in.' in sk or '.out.' in sk


def canon_stmt(stmt):
    return '\n'.join(ops.canon(norm(l)) for l in stmt)


def show(v):
    s = ops.canon(v) if not isinstance(v, str) else v
    s = re.sub(r'z3:\(let[^)]*\)+', '<expr>', s)
    return s if len(s) < 300 else s[:300] + '...'


# ---------------------------------------------------------------------------------------------- description
def describe(w: G.World, A):
    """the plain-data description of the world for specs/wiring.py (from the SHAPE and the symbols, not from code)"""
    sh = w.shape
    ports = []
    for pi, info in enumerate(w.port_info):
        if info['injected']:
            continue
        sem = w.port_semantics(pi)
        ports.append({'name': info['name'], 'dir': info['dir'], 'sem': sem, 'itf': info['itf'],
                      'mc': sh['mc'] == pi})
    itfs = []
    for ii, info in enumerate(w.itf_info):
        evs = []
        for ei, e in enumerate(info['events']):
            fs = [{'name': w.ident(f'itf{ii}_ev{ei}_arg{fi}'), 'dir': fdir, 'type': info['ext_val']}
                  for fi, fdir in enumerate(e['formals'])]
            evs.append({'name': info['ev_names'][ei], 'dir': e['dir'], 'formals': fs})
        itfs.append({'fqn': info['fqn'], 'events': evs})
    mc = None
    if w.mc is not None and sh['mc'] != 'missing':
        info = w.mc['info']
        mc = {'claim': w.mc['claim'], 'release': w.mc['release'],
              'reply_fqn': info['ns'] + [info['enum_sym'], w.mc['reply']]}
    from pyvc.builtins_ import _ospath
    base = _ospath('basename')(w.I, w.p, [w.filename], {})
    root = _ospath('splitext')(w.I, w.p, [base], {})[0]
    shell = ops.mkstr([root, w.suffix])
    return {'ports': ports, 'itfs': itfs, 'mc': mc, 'fac': sh['fac'], 'shell': shell,
            'sf_ns': list(w.prefix_items) + ['Dzn']}


def witness_of(w: G.World):
    def wit(m):
        names = {}
        for k, z in w.syms.items():
            v = zstr_value(m, z)
            names[k] = v
        return {'shape': w.shape['name'], 'names': names}
    return wit


# ---------------------------------------------------------------------------------------------- obligations
class ShapeCheck:
    def __init__(self, ctx: Ctx, prop, br: G.BuildRun, k):
        self.ctx, self.prop, self.br, self.k = ctx, prop, br, k
        self.I = ctx.interp
        self.w, self.p = br.w, br.p
        self.A = SymAlgebra(self.I, self.p)
        self.tag = f'{br.w.shape["name"]}:path{k}'
        self.wit = witness_of(br.w)
        self.fn = 'dznpy.adv_shell.Builder.build'

    def ok(self, oid, text, fn=None):
        o = self.ctx.new(f'{self.tag}:{oid}', 'ensures', fn or self.fn, text)
        self.ctx.settle(o, PROVED, 'syntactic')

    def fail(self, oid, text, fn=None, kind='ensures'):
        """a structural mismatch (holds for every content of this path).  It is reported as a violation only with
        a failing input: the native replay of this shape (default names, then the name corpus) must reproduce it;
        otherwise it stays undecided (the path may be infeasible)."""
        o = self.ctx.new(f'{self.tag}:{oid}', kind, fn or self.fn, text)
        o.replay = {'shape': self.w.shape['name'], 'names': {}}
        o.structural = True
        self.ctx.settle(o, UNDECIDED, 'syntactic', 'structural mismatch; to be confirmed by native replay')

    def prove_eq(self, oid, a, b, text, fn=None):
        a, b = norm(a) if isinstance(a, (str, StrT)) else a, norm(b) if isinstance(b, (str, StrT)) else b
        if ops.canon(a) == ops.canon(b):
            return self.ok(oid, text, fn)
        if skeleton(a) != skeleton(b) and isinstance(a, str) and isinstance(b, str):
            return self.fail(oid, f'{text}: {a!r} instead of {b!r}', fn)
        self.ctx.prove(f'{self.tag}:{oid}', 'ensures', fn or self.fn, self.p.child(),
                       ops.to_zstr(a) == ops.to_zstr(b), f'{text}: {show(a)} == {show(b)}', witness=self.wit)

    def seq_equal(self, oid, got, want, text, fn=None):
        """two line lists are equal line by line"""
        if got is None:
            return self.fail(oid, f'{text}: generated text could not be split into lines', fn)
        if len(got) != len(want):
            return self.fail(oid, f'{text}: {len(got)} lines instead of {len(want)}: got {[show(x) for x in got]} '
                                  f'want {[show(x) for x in want]}', fn)
        for i, (a, b) in enumerate(zip(got, want)):
            self.prove_eq(f'{oid}.{i}', a, b, text, fn)

    def multiset_equal(self, oid, got, want, text, fn=None):
        """two statement multisets are equal (order-insensitive, multiplicity-exact)"""
        got = list(got)
        missing = []
        for st in want:
            key = canon_stmt(st)
            hit = next((g for g in got if canon_stmt(g) == key), None)
            if hit is None:
                missing.append(st)
            else:
                got.remove(hit)
        # second chance: same literal skeleton, equality by the solver
        still = []
        n = 0
        for st in missing:
            sk = [skeleton(norm(l)) for l in st]
            hit = next((g for g in got if [skeleton(norm(l)) for l in g] == sk), None)
            if hit is None:
                still.append(st)
                continue
            got.remove(hit)
            for i, (a, b) in enumerate(zip(hit, st)):
                self.prove_eq(f'{oid}.eq{n}.{i}', a, b, text, fn)
            n += 1
        if still or got:
            msg = f'{text}: '
            if still:
                msg += f'MISSING {[[show(l) for l in s] for s in still[:2]]} '
            if got:
                msg += f'UNEXPECTED {[[show(l) for l in s] for s in got[:2]]}'
            return self.fail(oid, msg, fn)
        self.ok(oid, text, fn)

    # ---- helpers to reach the generated pieces -----------------------------------------------------------
    def cpp(self):
        return self.br.builder.fields['_recipe'].fields['cpp_elements']

    def lines(self, v):
        return code_lines(self.I, self.p, v)

    def contents_of(self, fn_obj):
        c = fn_obj.fields['contents']
        return c

    # ---- C13 (and the expected outcome of every shape) -------------------------------------------------------
    def outcome(self):
        br, sh = self.br, self.w.shape
        exp = sh['expect']
        if br.kind == 'frame':
            return self.fail('outcome', f'build mutates its inputs: {br.value}', kind='frame')
        if br.kind == 'diverge':
            return self.fail('outcome', f'build does not terminate: {br.value}', kind='decreases')
        if br.kind == 'raise':
            cls = br.value.cls.name
            msg = br.value.fields.get('args', ('',))
            lib = cls in LIB_ERRORS
            if exp == 'ok':
                return self.fail('outcome', f'a valid model/configuration is rejected with {cls}: '
                                            f'{show(msg[0]) if msg else ""}', kind='raises')
            if not lib:
                return self.fail('outcome', f'internal error {cls} instead of a library error ({exp} expected): '
                                            f'{show(msg[0]) if msg else ""}', kind='raises')
            mro = [c.name for c in br.value.cls.mro()] if isinstance(br.value.cls, ClassV) else [cls]
            if exp not in mro:
                return self.fail('outcome', f'rejected with {cls}, the specification says {exp}', kind='raises')
            return self.ok('outcome', f'invalid input is rejected with the library error {cls}')
        if exp != 'ok':
            return self.fail('outcome', f'an invalid model/configuration ({sh["name"]}) is accepted; {exp} expected',
                             kind='raises')
        files = br.value.fields['files']
        items = ops.seq_lit_items(files.term) if ops.seq_is_lit(files.term) else None
        if items is None or len(items) != 8:
            return self.fail('outcome', f'result does not hold the 8 files (header, source, 6 support files)')
        d = describe(self.w, self.A)
        self.prove_eq('files.0.name', items[0].fields['filename'], ops.mkstr([d['shell'], '.hh']),
                      'first file is <shell>.hh')
        self.prove_eq('files.1.name', items[1].fields['filename'], ops.mkstr([d['shell'], '.cc']),
                      'second file is <shell>.cc')
        pre = ops.mkstr([x for pair in [(i, '_') for i in d['sf_ns']] for x in pair])
        for i, nm in enumerate(SUPPORT):
            self.prove_eq(f'files.{i + 2}.name', items[i + 2].fields['filename'], ops.mkstr([pre, nm, '.hh']),
                          f'support file {nm}')
        return True

    # ---- C01 / C02: constructor body --------------------------------------------------------------------------
    def constructor(self):
        d = describe(self.w, self.A)
        cons = self.cpp().fields['constructor']
        lines = self.lines(cons.fields['contents'])
        if lines is None:
            return self.fail('ctor.lines', 'constructor body cannot be split into lines')
        got = [s for s in statements(lines) if touches_event_slot(s)]
        want = W.constructor_statements(self.A, d)
        self.multiset_equal('ctor.event-statements', got, want,
                            'constructor: exactly one routing statement per (exposed MTS port, event), none else',
                            'dznpy.adv_shell.core.processing.create_constructor')
        mil = cons.fields['member_initlist']
        items = ops.seq_lit_items(mil.term) if ops.seq_is_lit(mil.term) else None
        fac = W.facilities(self.A, d)
        if items is None:
            return self.fail('ctor.mil', 'member initialiser list is not a list')
        self.seq_equal('ctor.mil.ports', [norm(x) for x in items[len(fac['init']):]],
                       [norm(x) for x in W.member_init_ports(self.A, d)],
                       'boundary ports are initialised from the same-named port of the wrapped component',
                       'dznpy.adv_shell.core.processing.create_constructor')
        # the definition placed in the source file and the declaration in the header are those of this object
        files = ops.seq_lit_items(self.br.value.fields['files'].term)
        src = self.lines(files[1].fields['contents'])
        if src is None:
            return self.fail('ctor.placement', 'source file cannot be split into lines')
        src_stmts = [s for s in statements(src) if touches_event_slot(s) and not any(
            'port.in.' in skeleton(l) or 'port(' in skeleton(l) for l in s)]
        self.multiset_equal('source.event-statements', src_stmts, want,
                            'source file: the routing statements of the constructor, and no other, are emitted',
                            'dznpy.adv_shell.Builder._create_sourcefile')

    # ---- C02: accessors --------------------------------------------------------------------------------------------
    def accessors(self):
        d = describe(self.w, self.A)
        cpp = self.cpp()
        for side in ('provides', 'requires'):
            got_ports = ops.seq_lit_items(cpp.fields[f'{side}_ports'].fields['ports'].term)
            want_ports = [p for p in d['ports'] if p['dir'] == side]
            if len(got_ports) != len(want_ports):
                self.fail(f'accessors.{side}.count', f'{len(got_ports)} {side} ports exposed, specification: '
                                                     f'{len(want_ports)} (injected ports are never exposed)')
                continue
            for i, (g, p) in enumerate(zip(got_ports, want_ports)):
                name, rtype, params, body, member = W.accessor(self.A, d, p)
                fn = g.fields['accessor_fn']
                oid = f'accessor.{side}{i}'
                f = 'dznpy.adv_shell.core.processing.create_cpp_portitf'
                self.prove_eq(f'{oid}.name', fn.fields['name'], name, 'accessor name', f)
                self.prove_eq(f'{oid}.type', py_str(self.I, fn.fields['return_type'], self.p), rtype,
                              'accessor returns the strict-port type of the configured semantics', f)
                self.prove_eq(f'{oid}.body', fn.fields['contents'], body,
                              'accessor hands out the wrapped port (STS) / the boundary port (MTS)', f)
                ps = ops.seq_lit_items(fn.fields['params'].term) if fn.fields['params'].term.blocks else []
                got_params = self.A.join(', ', [self.I.getattr_(x, 'as_decl', self.p) for x in ps])
                self.prove_eq(f'{oid}.params', got_params, params, 'accessor parameters', f)
                mv = g.fields['member_var']
                if member is None:
                    if mv is not None:
                        self.fail(f'{oid}.member', 'a single-threaded port must not get a boundary member', f)
                    else:
                        self.ok(f'{oid}.member', 'no boundary member for a single-threaded port', f)
                else:
                    if mv is None:
                        self.fail(f'{oid}.member', 'a multi-threaded port needs a boundary member', f)
                    else:
                        self.prove_eq(f'{oid}.member', py_str(self.I, mv, self.p), member, 'boundary member', f)

    # ---- C04: per-client port initialisation ------------------------------------------------------------------------
    def multiclient(self):
        d = describe(self.w, self.A)
        helpers = self.cpp().fields['provides_port_helpers']
        priv = ops.seq_lit_items(helpers.fields['private'].term) if helpers.fields['private'].term.blocks else []
        pub = ops.seq_lit_items(helpers.fields['public'].term) if helpers.fields['public'].term.blocks else []
        mcp = [p for p in d['ports'] if p['mc']]
        f = 'dznpy.adv_shell.core.processing.initialize_port_impl'
        if len(priv) != len(mcp) or len(pub) != len(mcp):
            return self.fail('mc.helpers', f'{len(priv)} InitializePort helpers for {len(mcp)} multi-client ports', f)
        for i, (fnobj, p) in enumerate(zip(priv, mcp)):
            self.prove_eq(f'mc{i}.name', fnobj.fields['name'], self.A.cat('InitializePort', self.A.cap(p['name'])),
                          'name of the per-client initialiser', f)
            got = self.lines(fnobj.fields['contents'])
            want = [norm(x) for x in W.initialize_port_body(self.A, d, p)]
            self.seq_equal(f'mc{i}.body', got, want,
                           'InitializePort: claim forwards + selects on the granting reply only, release forwards + '
                           'deselects, every other in-event is referenced to the arbitered port; the events are the '
                           'configured ones', f)
        if not mcp:
            self.ok('mc.none', 'no multi-client port: no per-client helpers')

    # ---- C10: final construction -------------------------------------------------------------------------------------
    def final_construct(self):
        d = describe(self.w, self.A)
        fn = self.cpp().fields['final_construct_fn']
        got = self.lines(fn.fields['contents'])
        want = [norm(x) for x in W.final_construct_lines(self.A, d)]
        self.seq_equal('final.body', got, want,
                       'FinalConstruct: FinalConstruct() of every multi-client port, check_bindings() of every other '
                       'exposed port and of the wrapped component, parent recorded',
                       'dznpy.adv_shell.core.processing.create_final_construct_fn')
        ps = ops.seq_lit_items(fn.fields['params'].term)
        self.prove_eq('final.param', self.A.join(', ', [self.I.getattr_(x, 'as_decl', self.p) for x in ps]),
                      'const dzn::meta* parentComponentMeta = nullptr', 'FinalConstruct takes the parent meta')

    # ---- C09: facilities ------------------------------------------------------------------------------------------------
    def facilities(self):
        d = describe(self.w, self.A)
        want = W.facilities(self.A, d)
        cpp = self.cpp()
        fac = cpp.fields['facilities']
        f1 = 'dznpy.adv_shell.core.processing.create_facilities'
        self.seq_equal('fac.members', self.lines(self.I.getattr_(fac, 'member_variables', self.p)),
                       [norm(x) for x in want['members']],
                       'facility members in declaration (= initialisation) order', 'dznpy.adv_shell.common.Facilities.'
                                                                                   'member_variables')
        mil = ops.seq_lit_items(cpp.fields['constructor'].fields['member_initlist'].term)
        self.seq_equal('fac.init', [norm(x) for x in mil[:len(want['init'])]], [norm(x) for x in want['init']],
                       'facility part of the member initialiser list', 'dznpy.adv_shell.core.processing.create_constructor')
        ps = ops.seq_lit_items(cpp.fields['constructor'].fields['params'].term)
        first = self.I.getattr_(ps[0], 'as_decl', self.p)
        self.prove_eq('fac.param', first, want['locator_param'], 'constructor takes the (prototype) locator')
        acc = fac.fields['locator_accessor_fn']
        if want['accessor'] is None:
            if acc is not None:
                self.fail('fac.accessor', 'import: the shell must not offer a locator accessor', f1)
            else:
                self.ok('fac.accessor', 'import: no locator accessor', f1)
        elif acc is None:
            self.fail('fac.accessor', 'create: the locator accessor is missing', f1)
        else:
            self.prove_eq('fac.accessor.decl', self.I.getattr_(acc, 'as_decl', self.p).rstrip('\n') if isinstance(
                self.I.getattr_(acc, 'as_decl', self.p), str) else self.I.getattr_(acc, 'as_decl', self.p),
                want['accessor'][0], 'locator accessor declaration', f1)
            self.prove_eq('fac.accessor.body', acc.fields['contents'], want['accessor'][1], 'locator accessor body', f1)
        chk = cpp.fields['facilities_check_fn']
        self.seq_equal('fac.check', self.lines(chk.fields['contents']), [norm(x) for x in want['check']],
                       'FacilitiesCheck throws exactly when the locator content contradicts the configured origin',
                       'dznpy.adv_shell.core.processing.create_facilities_check_fn')
        # header: facilities are declared before the wrapped component, which is declared before the boundary ports
        files = ops.seq_lit_items(self.br.value.fields['files'].term)
        hdr = self.lines(files[0].fields['contents'])
        if hdr is None:
            return self.fail('fac.order', 'header cannot be split into lines')
        keys = [ops.canon(norm(x)) for x in hdr]

        def pos(line):
            k = ops.canon(norm(line))
            return keys.index(k) if k in keys else None
        p_fac = [pos(x) for x in want['members']]
        enc_fqn = W.cpp_fqn(self.A, self.w.enc_fqn)
        p_enc = pos(self.A.cat(enc_fqn, ' m_encapsulee;'))
        p_ports = [pos(W.accessor(self.A, d, p)[4]) for p in d['ports'] if W.accessor(self.A, d, p)[4] is not None]
        good = all(x is not None for x in p_fac) and p_enc is not None and all(x is not None for x in p_ports) and \
            p_fac == sorted(p_fac) and all(x < p_enc for x in p_fac) and all(p_enc < x for x in p_ports)
        if good:
            self.ok('fac.order', 'header declares facilities < wrapped component < boundary ports',
                    'dznpy.adv_shell.Builder._create_headerfile')
        else:
            self.fail('fac.order', f'header member order: facilities {p_fac}, encapsulee {p_enc}, ports {p_ports}',
                      'dznpy.adv_shell.Builder._create_headerfile')

    # ---- C12: support files equal stand-alone generation; C08: hash; C19c: user text only in comment lines -------------
    def support_and_hash(self, want_hash=True, want_support=True, want_comments=True):
        I, p = self.I, self.p
        files = ops.seq_lit_items(self.br.value.fields['files'].term)
        if want_support:
            sf = I.load_module('dznpy.support_files')
            mods = ['strict_port', 'ilog', 'misc_utils', 'meta_helpers', 'multi_client_selector', 'mutex_wrapped']
            prefix = self.w.cfg.fields['support_files_ns_prefix']
            for i, mn in enumerate(mods):
                m = I.load_module(f'dznpy.support_files.{mn}')
                alone = I.call(m.globals['create_header'], [prefix], {}, p)
                same = ops.canon(alone.fields['contents']) == ops.canon(files[i + 2].fields['contents']) and \
                    ops.canon(alone.fields['filename']) == ops.canon(files[i + 2].fields['filename'])
                if same:
                    self.ok(f'support.{mn}', 'support file equals the stand-alone generation with the same prefix',
                            f'dznpy.support_files.{mn}.create_header')
                else:
                    self.prove_eq(f'support.{mn}', files[i + 2].fields['contents'], alone.fields['contents'],
                                  'support file equals the stand-alone generation',
                                  f'dznpy.support_files.{mn}.create_header')
        if want_hash:
            for i, gc in enumerate(files[:2]):
                h = I.getattr_(gc, 'hash', p)
                from pyvc.builtins_ import uf
                g = uf(I, 'hashlib.md5.hexdigest.of.utf-8', z3.StringSort(), z3.StringSort())
                want = ops.mkstr([g(ops.to_zstr(gc.fields['contents']))])
                self.ctx.prove(f'{self.tag}:hash.{i}', 'ensures', 'dznpy.text_gen.GeneratedContent.hash', p.child(),
                               ops.to_zstr(h) == ops.to_zstr(want), 'hash == MD5 hex digest of the UTF-8 contents',
                               witness=self.wit)
        if want_comments:
            user = [self.w.syms[k] for k in ('copyright', 'creator_info') if k in self.w.syms]
            for i, gc in enumerate(files[:2]):
                bad = user_text_outside_comments(I, p, gc.fields['contents'], user)
                if bad is None:
                    self.ok(f'comments.{i}', 'copyright / creator text occurs only in lines that start with //',
                            'dznpy.adv_shell.Builder._create_headerfile' if i == 0 else
                            'dznpy.adv_shell.Builder._create_sourcefile')
                else:
                    self.fail(f'comments.{i}', f'user text reaches a non-comment line: {bad}',
                              'dznpy.adv_shell.Builder._create_headerfile' if i == 0 else
                              'dznpy.adv_shell.Builder._create_sourcefile')


def _mentions_any(e, syms):
    from pyvc.interp import _occurs
    return any(_occurs(s, e) for s in syms)


def user_text_outside_comments(interp, path, text, user_syms):
    """None if every occurrence of the user's copyright / creator text lies in a comment line, else a description.
    The file text is  join('\\n', lines) + '\\n'; lines are literal/templated strings or comprehensions over the
    lines of the user text (TextBlock splits on every line boundary, Comment prefixes every line)."""
    if isinstance(text, str):
        return None
    for part in text.parts:
        if isinstance(part, str):
            continue
        if isinstance(part, JoinT):
            r = _check_join(interp, path, part, user_syms)
            if r is not None:
                return r
            continue
        if _mentions_any(part, user_syms):
            return f'raw occurrence outside any line structure: {str(part)[:120]}'
    return None


def _check_join(interp, path, j: JoinT, user_syms):
    from pyvc.builtins_ import forall_items

    def comment_or_clean(item, pp):
        if isinstance(item, str):
            return True
        mentions = any((not isinstance(x, (str, JoinT)) and _mentions_any(x, user_syms)) or
                       (isinstance(x, JoinT)) for x in item.parts)
        if not mentions:
            return True
        first = item.parts[0]
        if isinstance(first, str) and first.lstrip().startswith('//'):
            return True
        return z3.PrefixOf(z3.StringVal('//'), ops.to_zstr(item))
    ok = forall_items(interp, path, j.seq, comment_or_clean)
    return None if ok else f'a line built from the user text is not provably a // comment line (sep={j.sep!r})'


# ---------------------------------------------------------------------------------------------- driver
CHECKS = {
    'C01': ['outcome', 'constructor'],
    'C02': ['outcome', 'constructor', 'accessors'],
    'C04': ['outcome', 'multiclient', 'constructor'],
    'C07': ['outcome', 'constructor', 'accessors', 'multiclient'],
    'C09': ['outcome', 'facilities'],
    'C10': ['outcome', 'final_construct', 'constructor'],
    'C13': ['outcome'],
    'C12': ['outcome', 'support'],
    'C08': ['outcome', 'hash'],
    'C19': ['outcome', 'comments'],
    'C03': ['outcome', 'accessors'],
}


def run_one_shape(ctx: Ctx, prop, shape):
    I = ctx.interp
    I.set_iteration_sites = []
    runs = G.run_shape(I, shape)
    todo = CHECKS[prop]
    for k, br in enumerate(runs):
        sc = ShapeCheck(ctx, prop, br, k)
        good = sc.outcome()
        if br.kind != 'return' or good is not True:
            continue
        if 'constructor' in todo:
            sc.constructor()
        if 'accessors' in todo:
            sc.accessors()
        if 'multiclient' in todo:
            sc.multiclient()
        if 'final_construct' in todo:
            sc.final_construct()
        if 'facilities' in todo:
            sc.facilities()
        if 'support' in todo or 'hash' in todo or 'comments' in todo:
            sc.support_and_hash(want_hash='hash' in todo, want_support='support' in todo,
                                want_comments='comments' in todo)
        if 'hash' in todo:
            # omega-independence (2-safety): the same symbolic build under another set-iteration oracle must
            # produce the same files
            sites = sorted({s[0] + '@' + (s[1][-1] if s[1] else '?') for s in I.set_iteration_sites})
            orders = (1,) if ctx.tier == 'quick' else (1, 2, 3, 4, 5)
            for om in orders:
                I.omega = om
                try:
                    runs2 = G.run_shape(I, shape)
                finally:
                    I.omega = 0
                other = [r for r in runs2 if r.kind == 'return' and tuple(r.p.decisions) == tuple(br.p.decisions)]
                if not other:
                    if all(r.kind != 'return' for r in runs2):
                        sc.fail(f'omega{om}', f'under another set iteration order the build fails (sites: {sites})',
                                kind='frame')
                    continue
                f1 = ops.seq_lit_items(br.value.fields['files'].term)
                f2 = ops.seq_lit_items(other[0].value.fields['files'].term)
                for i, (a, b) in enumerate(zip(f1, f2)):
                    same = ops.canon(a.fields['contents']) == ops.canon(b.fields['contents']) and \
                        ops.canon(a.fields['filename']) == ops.canon(b.fields['filename'])
                    if same:
                        sc.ok(f'omega{om}.file{i}', f'file {i} is independent of the set iteration order '
                                                    f'(sites observed: {len(sites)})')
                    else:
                        sc.fail(f'omega{om}.file{i}', f'file {i} depends on the iteration order of a set '
                                                      f'(sites: {sites})', kind='frame')
    if not runs:
        o = ctx.new(f'{shape["name"]}:no-path', 'vacuity', 'dznpy.adv_shell.Builder.build', 'at least one feasible path')
        ctx.settle(o, ERROR, 'z3', 'no feasible path: the world of this shape is contradictory')


def run_shapes_parallel(ctx: Ctx, prop, shapes, workers=14, hard_s=900):
    from pyvc.harness import parallel_jobs
    return parallel_jobs(ctx, shapes, lambda sub, sh: run_one_shape(sub, prop, sh), lambda sh: sh['name'],
                         workers=workers, hard_s=hard_s)


def common_setup(ctx: Ctx, prop):
    if prop not in ('C03', 'C19'):
        ctx.level = 'other'
    ctx.level_explanation = "Generator harness: every obligation is proved for ALL string contents (names, types, texts) of one model/configuration STRUCTURE; the structures are the enumerated shape corpus (bound stated under assumptions), so this is bounded in structure and unbounded in content - reported as level 'other', not as a proof for all models."
    ctx.trusted += ['C++ idiom semantics (S): what each emitted statement kind does at run time (DESIGN.md section 3, table)',
                    'the constant C++ text of the six support headers',
                    'assumption MV-1: no string stored in the model contains a line boundary',
                    'z3 theory of strings; str.upper / os.path.basename / splitext / md5 as uninterpreted functions']
    ctx.assumptions += [
        'BOUND: model STRUCTURE is taken from the shape corpus of props/gen_common.py (<= 3 ports, <= 5 events per '
        'interface, <= 2 parameters per event, the listed configuration kinds); every name, type text, file name, '
        'copyright and creator text is an unconstrained symbolic string, so each obligation holds for ALL contents of '
        'its shape',
        'model validity: names are identifiers, pairwise distinct within their scope; extern data values are non-empty '
        'and free of line boundaries; the shell name is non-empty (one shape covers the empty name)']
    ctx.bounded = [{'function': 'dznpy.adv_shell.Builder.build (whole cone)', 'bound': 'structure: shape corpus; '
                    'content: unbounded (symbolic)', 'result': 'see obligations'}]


def run_property(ctx: Ctx, prop, only=None):
    common_setup(ctx, prop)
    sh = G.shapes(ctx.tier)
    if only:
        sh = [s for s in sh if s['name'] in only]
    if prop in ('C09', 'C10', 'C19', 'C08', 'C12'):
        pass
    status, msg = run_shapes_parallel(ctx, prop, sh)
    for fn in ('dznpy.adv_shell.Builder.build', 'dznpy.adv_shell.core.processing.create_dzn_elements',
               'dznpy.adv_shell.core.processing.check_multiclient_cfg',
               'dznpy.adv_shell.core.processing.create_cpp_portitf',
               'dznpy.adv_shell.core.processing.create_constructor',
               'dznpy.adv_shell.core.processing.reroute_in_events',
               'dznpy.adv_shell.core.processing.reroute_out_events',
               'dznpy.adv_shell.core.processing.stdref_provides_out_events',
               'dznpy.adv_shell.core.processing.stdref_requires_in_events',
               'dznpy.adv_shell.core.processing.reroute_multiclient_out_events',
               'dznpy.adv_shell.core.processing.initialize_port_impl',
               'dznpy.adv_shell.core.processing.create_final_construct_fn',
               'dznpy.adv_shell.core.processing.create_facilities',
               'dznpy.adv_shell.core.processing.create_facilities_check_fn',
               'dznpy.adv_shell.Builder._create_headerfile', 'dznpy.adv_shell.Builder._create_sourcefile'):
        ctx.functions[fn] = 'executed symbolically on every shape (content unbounded, structure bounded)'
    if status == 'crash':
        raise RuntimeError(msg)
    if status == 'undecided':
        raise Unsupported(msg)


# ---------------------------------------------------------------------------------------------- native corpus
def name_variants(shape):
    """name assignments for the bounded native corpus: defaults plus names with the relations that string bugs need
    (one name a substring / prefix of another, names differing in case only, one-character names)"""
    variants = [{}]
    v = {}
    for ii, events in enumerate(shape['itfs']):
        evn = ['claim', 'unclaim', 'claimed', 'Release', 'release']
        for ei, e in enumerate(events):
            v[f'itf{ii}_ev{ei}'] = evn[ei % len(evn)] + (str(ii) if ii else '')
            argn = ['timeout', 'time', 'out']
            for fi, _ in enumerate(e['formals']):
                v[f'itf{ii}_ev{ei}_arg{fi}'] = argn[fi % len(argn)]
        v[f'itf{ii}_T'] = 'T' if ii == 0 else f'T{ii}'
        v[f'itf{ii}_T_value'] = 'unsigned int' if ii == 0 else f'std::vector<int>'
    for pi, _ in enumerate(shape['ports']):
        v[f'port{pi}'] = ['api', 'Ctl', 'apiExt', 'a'][pi % 4]
    variants.append(v)
    v2 = dict(v)
    for ii, events in enumerate(shape['itfs']):
        for ei, e in enumerate(events):
            argn = ['a', 'ab', 'b']
            for fi, _ in enumerate(e['formals']):
                v2[f'itf{ii}_ev{ei}_arg{fi}'] = argn[(fi + 1) % len(argn)]
            v2[f'itf{ii}_ev{ei}'] = ['x', 'xx', 'X', 'x_', '_x'][ei % 5] + (str(ii) if ii else '')
    v2['copyright'] = 'line one\r\nline two\x0bthree\u2028four'
    v2['creator_info'] = '\n  indented\x0c\nlast'
    variants.append(v2)
    v3 = {}
    for pi, _ in enumerate(shape['ports']):
        v3[f'port{pi}'] = ['power', 'Power', 'pOwer', 'POWER'][pi % 4]
    variants.append(v3)
    # the reverse containment: a THIRD event whose name is contained in the names of the first two (the claim / release
    # events of the multi-client shapes) - needed by seeded change C04-m3 (`name in (claim_name)` on strings)
    v4 = {}
    for ii, events in enumerate(shape['itfs']):
        evn = ['claimed', 'unclaimed', 'claim', 'release', 'Release']
        for ei, e in enumerate(events):
            v4[f'itf{ii}_ev{ei}'] = evn[ei % len(evn)] + (str(ii) if ii else '')
    variants.append(v4)
    return variants


def native_search(ctx, o, prop):
    m = re.match(r'[^:]*:processing\.([A-Za-z_]+)', o.id)
    if m:
        # obligation of an unbounded function contract: differential run of the real function against the (plain
        # Python) specification on a small concrete corpus
        return {'script': 'native/replay_unbounded.py', 'input': {'function': m.group(1)}}
    m = re.match(r'[^:]*:([^:]+):path', o.id)
    names = [m.group(1)] if m else [s['name'] for s in G.shapes(ctx.tier)]
    by_name = {s['name']: s for s in G.shapes('thorough')}
    inputs = []
    for n in names:
        if n not in by_name:
            continue
        for vi, v in enumerate(name_variants(by_name[n])):
            if vi == 3 and prop not in ('C08', 'C12', 'C13'):
                continue        # case-only differences make boundary member names collide: only for text-level props
            inputs.append({'shape': n, 'names': v, 'property': prop})
    return {'script': 'native/replay_gen.py', 'input': {'search': inputs}} if inputs else None
