"""C20 - C++ building blocks render matching declarations and definitions.

Contracts: every as_decl / as_def / __str__ of cpp_gen refines its ghost specification in specs/cpp_gen.py, for
ALL names, type texts, qualifiers, initialisers and body texts (symbolic strings, body text with arbitrary line
breaks); parameter lists are taken with 0, 1 and 2 parameters (bounded list length, symbolic content); enum and
boolean fields are case split exhaustively.  "Accepted by a C++ compiler" is not claimed (DESIGN.md, C20).
"""
from __future__ import annotations

import itertools

import z3

from pyvc import ops, ghostlib
from pyvc.harness import Ctx, refines, zstr_value, eval_model
from pyvc.path import Path
from pyvc.sorts import TypeDesc
from pyvc.values import ObjV, SeqV, SeqT, LitB, Unsupported

CG = 'dznpy.cpp_gen'


def run(ctx: Ctx):
    I = ctx.interp
    ghostlib.install(I)
    I.model_strings_break_free = True
    cg = I.load_module(CG)
    sc = I.load_module('dznpy.scoping')
    tg = I.load_module('dznpy.text_gen')
    spec = I.load_module('specs.cpp_gen')
    G = cg.globals
    ctx.bounded = getattr(ctx, 'bounded', []) + [{
        'function': 'cpp_gen Function / Constructor / Namespace rendering',
        'bound': 'parameter lists, member-initialiser lists and namespace identifier lists have 0-2 entries (quick) / up '
                 'to 3-4 entries (thorough); every name, type text, qualifier and body symbolic',
        'result': 'proved per list length'}]
    ctx.trusted += ['z3 theory of strings; str.splitlines as an uninterpreted function with the law '
                    "splitlines('\\n'.join(L) + '\\n') == L for non-empty L of break-free strings",
                    'text_gen.TextBlock / Indentizer are executed as they are (their own contracts: C17, C18)']
    ctx.assumptions += ['BOUND: parameter lists and member-initialiser lists have 0, 1 or 2 entries (content symbolic); '
                        'namespace identifiers lists have 1 or 2 entries',
                        'names and type identifiers are identifiers; default values, qualifiers and initialisers are '
                        'non-empty-or-empty strings without line boundaries; body texts are arbitrary strings',
                        'NOT claimed: that any composition of the blocks is accepted by a C++ compiler']

    def ident(p, name):
        z = z3.String('in_' + name)
        I.break_free_syms.add(z.get_id())
        p.assume(ops.with_facts(ops.is_ident(z)))
        return ops.mkstr([z])

    def line(p, name, nonempty=None):
        z = z3.String('in_' + name)
        I.break_free_syms.add(z.get_id())
        p.assume(ops.no_break(z, p))
        if nonempty is True:
            p.assume(z3.Length(z) > 0)
        return ops.mkstr([z])

    def text(p, name):
        return ops.mkstr([z3.String('in_' + name)])

    def new(cls, **kw):
        return lambda p: I.call(G[cls], [], {k: (v(p) if callable(v) else v) for k, v in kw.items()}, p)

    def ns(p, name, n):
        items = [ident(p, f'{name}_id{i}') for i in range(n)]
        return I.call(sc.globals['NamespaceIds'], [], {'items': SeqV(SeqT([LitB(items)]) if items else SeqT())}, p)

    def fqn(p, name, n=1, root=None):
        r = z3.Bool(f'in_{name}_root') if root is None else root
        return I.call(G['Fqn'], [ns(p, name, n), r], {}, p)

    def typedesc(p, name, tpl=False, with_default=True):
        post = G['TypePostfix']
        from pyvc.interp import EnumSym
        pf = EnumSym(post, z3.Const(f'in_{name}_postfix', I.sorts.sort_of_enum(post)[0]))
        dflt = None
        choice = z3.Int(f'in_{name}_has_default')
        # default value: absent / present (decided by a symbolic flag so that both are covered on separate paths)
        if with_default and p.branch(choice == 1):
            dflt = line(p, f'{name}_default')
        targ = I.call(G['TemplateArg'], [fqn(p, name + '_tpl', 1)], {}, p) if tpl else None
        return I.call(G['TypeDesc'], [], {'fqn': fqn(p, name, 1), 'template_arg': targ, 'postfix': pf,
                                           'const': z3.Bool(f'in_{name}_const'), 'default_value': dflt}, p)

    def params(p, n):
        ps = [I.call(G['Param'], [], {'type_desc': typedesc(p, f'p{i}'), 'name': ident(p, f'p{i}_name')}, p)
              for i in range(n)]
        return SeqV(SeqT([LitB(ps)]) if ps else SeqT())

    def witness(m, args):
        vals = {}
        for d in m.decls():
            if d.name().startswith('in_'):
                v = m[d]
                vals[d.name()[3:]] = str(v)[:80]
        return {'function': 'cpp_gen', 'model': vals}

    def check(name, qual, mk, impl_attr, spec_fn):
        f_spec = spec.globals[spec_fn]
        ctx.functions[qual] = 'proved'

        def impl(i, p, a, k):
            return i.getattr_(a[0], impl_attr, p) if impl_attr != '__str__' else i.to_str(a[0], p)

        refines(ctx, name, qual, impl, lambda i, p, a, k: i.call_function(f_spec, a, k, p),
                lambda p: ((lambda o: ([o], [o]))(mk(p))), witness=witness,
                text=f'{impl_attr} == specs.cpp_gen.{spec_fn}')

    # ---- Param / TypeDesc ----------------------------------------------------------------------------------------
    for tpl in (False, True):
        mk_td = lambda p, tpl=tpl: typedesc(p, 't', tpl)
        check(f'cpp_gen.TypeDesc.__str__[tpl={tpl}]', f'{CG}.TypeDesc.__str__', mk_td, '__str__', 'type_text')
    mk_param = lambda p: I.call(G['Param'], [], {'type_desc': typedesc(p, 'p0'), 'name': ident(p, 'p0_name')}, p)
    check('cpp_gen.Param.as_def', f'{CG}.Param.as_def', mk_param, 'as_def', 'param_def')
    check('cpp_gen.Param.as_decl', f'{CG}.Param.as_decl', mk_param, 'as_decl', 'param_decl')
    ctx.functions[f'{CG}.Fqn.__str__'] = 'proved (part of TypeDesc.__str__)'
    ctx.functions[f'{CG}.TemplateArg.__str__'] = 'proved (part of TypeDesc.__str__)'

    # ---- Function -------------------------------------------------------------------------------------------------
    prefix_cls = G['FunctionPrefix']
    M_ = prefix_cls.members
    fn_cases = [(0, M_['MEMBER_FUNCTION'], True), (1, M_['MEMBER_FUNCTION'], True), (2, M_['MEMBER_FUNCTION'], True),
                (1, M_['STATIC'], True), (1, M_['VIRTUAL'], True), (1, M_['MEMBER_FUNCTION'], False),
                (0, M_['STATIC'], False)]
    for (n, pref, has_scope) in fn_cases:
        for _once in (0,):
            for _once2 in (0,):
                tag = f'{n} params,{pref.name},{"scoped" if has_scope else "free"}'

                def mk_fn(p, n=n, pref=pref, has_scope=has_scope):
                    scope = I.call(G['Struct'], [ident(p, 'scope')], {}, p) if has_scope else None
                    init = line(p, 'init')
                    if pref.name != 'VIRTUAL':
                        p.assume(z3.Not(z3.PrefixOf(z3.StringVal('0'), ops.to_zstr(init))))
                    return I.call(G['Function'], [], {
                        'return_type': typedesc(p, 'ret', with_default=False), 'name': ident(p, 'fname'), 'params': params(p, n),
                        'prefix': pref, 'cav': line(p, 'cav'), 'override': z3.Bool('in_override'),
                        'initialization': init, 'contents': text(p, 'contents'), 'scope': scope}, p)
                check(f'cpp_gen.Function.as_decl[{tag}]', f'{CG}.Function.as_decl', mk_fn, 'as_decl', 'function_decl')
                check(f'cpp_gen.Function.as_def[{tag}]', f'{CG}.Function.as_def', mk_fn, 'as_def', 'function_def')

    # ---- Constructor / Destructor --------------------------------------------------------------------------------
    for (n, nm) in (((0, 0), (1, 1), (2, 2), (0, 2)) if ctx.tier == 'quick' else
                    ((0, 0), (1, 1), (2, 2), (0, 2), (3, 3), (1, 3), (3, 0))):
        for _once in (0,):
            tag = f'{n} params,{nm} member inits'

            def mk_ctor(p, n=n, nm=nm):
                scope = I.call(G['Struct'], [ident(p, 'scope')], {}, p)
                mil = [line(p, f'mil{i}', nonempty=True) for i in range(nm)]
                init = '' if nm else line(p, 'init')
                return I.call(G['Constructor'], [scope], {
                    'explicit': z3.Bool('in_explicit'), 'params': params(p, n), 'initialization': init,
                    'member_initlist': SeqV(SeqT([LitB(mil)]) if mil else SeqT()), 'contents': text(p, 'contents')}, p)
            check(f'cpp_gen.Constructor.as_decl[{tag}]', f'{CG}.Constructor.as_decl', mk_ctor, 'as_decl',
                  'constructor_decl')
            check(f'cpp_gen.Constructor.as_def[{tag}]', f'{CG}.Constructor.as_def', mk_ctor, 'as_def',
                  'constructor_def')

    def mk_dtor(p):
        scope = I.call(G['Class'], [ident(p, 'scope')], {}, p)
        return I.call(G['Destructor'], [scope], {'override': z3.Bool('in_override'), 'initialization': line(p, 'init'),
                                                 'contents': text(p, 'contents')}, p)
    check('cpp_gen.Destructor.as_decl', f'{CG}.Destructor.as_decl', mk_dtor, 'as_decl', 'destructor_decl')
    check('cpp_gen.Destructor.as_def', f'{CG}.Destructor.as_def', mk_dtor, 'as_def', 'destructor_def')

    # ---- Struct / Class / Namespace: balanced, correctly named pairs around unchanged contents -----------------------
    L = z3.Const('in_content_lines', z3.SeqSort(z3.StringSort()))

    def content_tb(p):
        q = z3.Int('q!c20')
        p.add_hyp([q], z3.Implies(z3.And(q >= 0, q < z3.Length(L)), ops.with_facts(ops.no_break(L[q]))), 'inv_TextBlock')
        lines = SeqV(I.seq_of_base(L, TypeDesc('str'), p))
        tb = ObjV(tg.globals['TextBlock'], {'_header': SeqV(), '_lines': lines,
                                            '_indentizer': I.call(tg.globals['Indentizer'], [], {}, p)})
        return tb, SeqV(I.seq_of_base(L, TypeDesc('str'), p), frozen=True)

    for cls, kw in (('Struct', 'struct'), ('Class', 'class')):
        def mk_s(p, cls=cls):
            tb, lines = content_tb(p)
            o = I.call(G[cls], [ident(p, 'sname'), tb], {}, p)
            return o, lines
        ctx.functions[f'{CG}.{cls}.__str__'] = 'proved'
        refines(ctx, f'cpp_gen.{cls}.__str__', f'{CG}.{cls}.__str__',
                lambda i, p, a, k: i.to_str(a[0], p),
                lambda i, p, a, k, kw=kw: i.call_function(spec.globals['struct_text'], [kw, a[0].fields['_name'], a[1]],
                                                          {}, p),
                lambda p, mk_s=mk_s: ((lambda t: ([t[0]], [t[0], t[1]]))(mk_s(p))), witness=witness,
                text='str(struct/class) == keyword name { contents };')

    for n in ((0, 1, 2) if ctx.tier == 'quick' else (0, 1, 2, 3, 4)):
        def mk_n(p, n=n):
            tb, lines = content_tb(p)
            ids = [ident(p, f'ns_id{i}') for i in range(n)]
            nsv = I.call(sc.globals['NamespaceIds'], [], {'items': SeqV(SeqT([LitB(ids)]) if ids else SeqT())}, p)
            o = I.call(G['Namespace'], [nsv, tb], {}, p)
            return o, SeqV(SeqT([LitB(ids)]) if ids else SeqT()), lines
        ctx.functions[f'{CG}.Namespace.__str__'] = 'proved'
        refines(ctx, f'cpp_gen.Namespace.__str__[{n} ids]', f'{CG}.Namespace.__str__',
                lambda i, p, a, k: i.to_str(a[0], p),
                lambda i, p, a, k: i.call_function(spec.globals['namespace_text'], [a[1], a[2]], {}, p),
                lambda p, mk_n=mk_n: ((lambda t: ([t[0]], [t[0], t[1], t[2]]))(mk_n(p))), witness=witness,
                text='str(namespace) == namespace A::B { contents } // namespace A::B')

    def mk_mv(p):
        return I.call(G['MemberVariable'], [typedesc(p, 'mv'), ident(p, 'mv_name')], {}, p)
    check('cpp_gen.MemberVariable.__str__', f'{CG}.MemberVariable.__str__', mk_mv, '__str__', 'member_variable_text')

    # canary
    p = Path()
    a, b = z3.Strings('in_c1 in_c2')
    ctx.expect_refuted('cpp_gen:canary', f'{CG}.Function.as_decl', p, a == b, 'canary: any two names are equal')


def make_replay(ctx, o):
    return None


def native_search(ctx, o):
    import itertools
    inputs = []
    for n, defaults, prefix, scoped, cav, override, init, contents in itertools.product(
            (0, 2), (False, True), ('MEMBER_FUNCTION', 'STATIC', 'VIRTUAL'), (True, False), ('', 'const'),
            (False, True), ('', 'default', '0'), ('', 'a;\n\n  b;\r\nc')):
        inputs.append({'kind': 'function', 'n': n, 'defaults': defaults, 'prefix': prefix, 'scoped': scoped, 'cav': cav,
                       'override': override, 'init': init, 'contents': contents})
    for n, defaults, explicit, init, mil, contents in itertools.product(
            (0, 2), (False, True), (False, True), ('', 'default'), ([], ['a(1)'], ['a(1)', 'b{2}']), ('', 'x;\ny;')):
        inputs.append({'kind': 'constructor', 'n': n, 'defaults': defaults, 'explicit': explicit, 'init': init,
                       'mil': mil, 'contents': contents})
    for override, init, contents in itertools.product((False, True), ('', 'default'), ('', 'x;')):
        inputs.append({'kind': 'destructor', 'override': override, 'init': init, 'contents': contents})
    for lines in ([], ['a'], ['a', '', 'b']):
        inputs.append({'kind': 'blocks', 'lines': lines})
    return {'script': 'native/replay_cpp.py', 'input': {'search': inputs}}
