"""C15 - the parser rejects malformed input only with its documented errors.

For every document of the corpus (specs/docs.py) and EVERY single-point malformation of it - each key of each JSON
object deleted; each value replaced by a value of every other JSON kind (null, bool, number, string, list, object, the
replacement contents being symbolic); every <class> tag replaced by another known tag and by an unknown one; identifier
lists emptied; identifiers replaced by an arbitrary non-identifier string; direction words replaced by an arbitrary
other string - `DznJsonAst.process()` either returns or raises DznJsonError / NamespaceIdsTypeError.  Out events with a
non-void reply or with an out parameter are always refused, valid out events are accepted.
BOUND: one malformation per document (structure from the corpus), replacement contents symbolic."""
from __future__ import annotations

import copy

import z3

from pyvc import ops
from pyvc.harness import Ctx, PROVED, parallel_jobs
from pyvc.path import Path, explore
from pyvc.values import Unsupported, ClassV
from props import parser_common as PC
from specs import docs as D

FN = 'dznpy.json_ast.DznJsonAst.process'
DOCUMENTED = ('DznJsonError', 'NamespaceIdsTypeError')


class Hole:
    """a symbolic replacement value (instantiated per path)"""

    def __init__(self, kind):
        self.kind = kind


def mutations(doc):
    """[(path, op, value-description)] for every object key / list element of the document"""
    res = []

    def walk(node, path):
        if isinstance(node, dict):
            for k, v in list(node.items()):
                res.append((path + [k], 'delete', None))
                for kind in ('null', 'bool', 'int', 'str', 'list', 'dict', 'list-of-junk'):
                    if (kind == 'str' and isinstance(v, str) and k not in ('<class>', 'direction')) or \
                            (kind == 'dict' and isinstance(v, dict)) or (kind == 'list' and isinstance(v, list) and not v):
                        continue
                    res.append((path + [k], 'set', kind))
                if k == '<class>':
                    res.append((path + [k], 'set', 'other-class'))
                if k == 'ids':
                    res.append((path + [k], 'set', 'empty-list'))
                    res.append((path + [k], 'set', 'non-identifier'))
                walk(v, path + [k])
        elif isinstance(node, list):
            for i, v in enumerate(node):
                if isinstance(v, (dict, list)):
                    walk(v, path + [i])
                else:
                    res.append((path + [i], 'set', 'non-identifier') if isinstance(v, str) or hasattr(v, 'parts')
                               else (path + [i], 'set', 'null'))
    walk(doc, [])
    return res


def value_for(kind, p, N, old):
    if kind == 'null':
        return None
    if kind == 'bool':
        return True
    if kind == 'int':
        return z3.Int('in_mut_int')
    if kind == 'str':
        return ops.mkstr([z3.String('in_mut_str')])
    if kind == 'list':
        return []
    if kind == 'dict':
        return {}
    if kind == 'list-of-junk':
        return [None, 5, {'<class>': ops.mkstr([z3.String('in_mut_cls')])}, ops.mkstr([z3.String('in_mut_str')])]
    if kind == 'empty-list':
        return []
    if kind == 'non-identifier':
        z = z3.String('in_mut_nonid')
        p.assume(z3.Not(ops.is_ident(z, p)))
        return [ops.mkstr([z])] if isinstance(old, list) else ops.mkstr([z])
    if kind == 'other-class':
        z = z3.String('in_mut_cls')
        if isinstance(old, str):
            p.assume(z != z3.StringVal(old))
        return ops.mkstr([z])
    raise ValueError(kind)


def check_mutation(ctx, docname, nodes, idx, mut):
    I = ctx.interp
    path_, op, kind = mut

    def run(p):
        N = PC.SymNames(p)
        doc = D.to_json(nodes, N)
        node = doc
        for k in path_[:-1]:
            node = node[k]
        if op == 'delete':
            del node[path_[-1]]
        else:
            node[path_[-1]] = value_for(kind, p, N, node[path_[-1]])
        val = PC.to_value(doc)
        PC.freeze(val)
        parser = PC.new_parser(I, p, val)
        p.N = N
        return PC.run_process(I, p, parser)

    for k, (p, (okind, val)) in enumerate(explore(Path(), run, 512)):
        oid = f'{docname}:mut{idx}:path{k}'
        text = f'{docname}: {op} {"/".join(map(str, path_))}' + (f' := <{kind}>' if kind else '')

        def wit(m, p=p):
            v = None
            if kind in ('str',):
                v = PC.zstr_value(m, z3.String('in_mut_str')) if hasattr(PC, 'zstr_value') else 'x'
            return {'doc': docname, 'names': p.N.witness(m), 'mutation': {'path': path_, 'op': op, 'kind': kind}}
        if okind == 'return':
            o = ctx.new(oid, 'raises', FN, text + ' -> accepted')
            ctx.settle(o, PROVED, 'syntactic')
        elif okind == 'raise' and val.cls.name in DOCUMENTED:
            o = ctx.new(oid, 'raises', FN, text + f' -> {val.cls.name}')
            ctx.settle(o, PROVED, 'syntactic')
        else:
            what = val.cls.name if okind == 'raise' else str(val)
            ctx.prove(oid, 'raises', FN, p.child(), False, text + f' -> INTERNAL {okind} {what}', witness=wit)


def out_event_rules(ctx):
    """an out event with a non-void reply or an out parameter is always refused; valid out events are accepted"""
    I = ctx.interp
    cases = [('reply', 'void-reply-in-param', True), ('reply', 'valued-reply', False),
             ('param', 'out-param', False), ('param', 'inout-param', True), ('param', 'no-param', True)]
    for what, name, accept in cases:
        def run(p, name=name):
            N = PC.SymNames(p)
            ret = ['void']
            formals = []
            if name == 'valued-reply':
                t = N('R')
                p.assume(ops.to_zstr(t) != z3.StringVal('void'))
                ret = [t]
            if name in ('out-param', 'inout-param', 'void-reply-in-param'):
                formals = [{'<class>': 'formal', 'name': N('f'), 'type_name': D.scope_name([N('T')]),
                            'direction': {'out-param': 'out', 'inout-param': 'inout', 'void-reply-in-param': 'in'}[name]}]
            ev = {'<class>': 'event', 'name': N('e'), 'direction': 'out',
                  'signature': {'<class>': 'signature', 'type_name': D.scope_name(ret),
                                'formals': {'<class>': 'formals', 'elements': formals}}}
            doc = {'<class>': 'root', 'working-directory': N('wd'), 'elements': [
                {'<class>': 'interface', 'name': D.scope_name([N('I')]),
                 'types': {'<class>': 'types', 'elements': []}, 'events': {'<class>': 'events', 'elements': [ev]}}]}
            parser = PC.new_parser(I, p, PC.to_value(doc))
            p.N = N
            return PC.run_process(I, p, parser)
        for k, (p, (okind, val)) in enumerate(explore(Path(), run, 64)):
            oid = f'out-event:{name}:path{k}'
            good = (okind == 'return') if accept else (okind == 'raise' and val.cls.name == 'DznJsonError')
            if good:
                o = ctx.new(oid, 'raises', 'dznpy.json_ast.parse_event',
                            f'out event, {name}: {"accepted" if accept else "refused with DznJsonError"}')
                ctx.settle(o, PROVED, 'syntactic')
            else:
                ctx.prove(oid, 'raises', 'dznpy.json_ast.parse_event', p.child(), False,
                          f'out event, {name}: must be {"accepted" if accept else "refused"}, got {okind} '
                          f'{val.cls.name if okind == "raise" else ""}',
                          witness=lambda m, p=p, name=name: {'doc': 'out-event', 'case': name, 'names': p.N.witness(m)})


def run(ctx: Ctx):
    ctx.level = 'other'
    ctx.bounded = getattr(ctx, 'bounded', []) + [{
        'function': 'dznpy.json_ast.DznJsonAst.process (corpus part)',
        'bound': 'single-point malformations of the corpus documents (quick: 2 documents, thorough: all 5); replacement '
                 'contents symbolic',
        'result': 'obligations <document>:mut*; the any-JSON contracts (any-json.* obligations) carry no such bound'}]
    ctx.level_explanation = ('Parser harness: every obligation is proved for ALL leaf contents (names, values, numbers) of one document STRUCTURE; the structures are the enumerated document corpus and its single-point malformations (bound stated under assumptions): bounded in structure, unbounded in content.')
    ctx.trusted += ['orjson.loads (non-JSON bytes are outside "JSON document")']
    ctx.assumptions += ['BOUND: single-point malformations of the corpus documents; replacement contents symbolic',
                        'recursion depth unbounded (a document with ~500 nested namespaces exhausts the CPython stack: '
                        'outside the model, DESIGN.md D8)']
    for f in ('DznJsonAst.process', 'DznJsonAst.parse_element', 'ElementHelper.*', 'get_class_value', 'parse_* (33)'):
        ctx.functions[f'dznpy.json_ast.{f}'] = 'executed symbolically on every malformed document'
    # unbounded part: ANY JSON value (any shape / size / nesting) on every parser function, parse_element, process;
    # the out-event rule for events with any number of parameters
    from props import parse_unbounded
    from props.gen_unbounded import guarded
    guarded(ctx, 'any-json', parse_unbounded.run_any_json)
    guarded(ctx, 'out-event-rule', parse_unbounded.run_out_event_rule)
    jobs = []
    Nplain = lambda k: k
    docs = D.documents()
    pick = ['flat-all-kinds', 'nested-namespaces'] if ctx.tier == 'quick' else list(docs)
    for dn in pick:
        muts = mutations(D.to_json(docs[dn], Nplain))
        # batches of malformations per worker
        for b in range(0, len(muts), 40):
            jobs.append((dn, b, muts[b:b + 40]))

    def job(sub, j):
        dn, b, ms = j
        for i, m in enumerate(ms):
            check_mutation(sub, dn, docs[dn], b + i, m)
    jobs.append(('out-event-rules', 0, None))

    def job2(sub, j):
        if j[2] is None:
            return out_event_rules(sub)
        return job(sub, j)
    status, msg = parallel_jobs(ctx, jobs, job2, lambda j: f'{j[0]}#{j[1]}')
    if status == 'crash':
        raise RuntimeError(msg)
    if status == 'undecided':
        raise Unsupported(msg)


def make_replay(ctx, o):
    r = getattr(o, 'replay', None)
    if not r:
        return None
    if r.get('doc') == 'out-event':
        return None
    kind = r['mutation']['kind']
    value = {'null': None, 'bool': True, 'int': 5, 'str': 'some text', 'list': [], 'dict': {}, 'empty-list': [],
             'list-of-junk': [None, 5, {'<class>': 'zzz'}, 'text'], 'non-identifier': 'not-an identifier',
             'other-class': 'zzz', None: None}[kind]
    if kind == 'non-identifier' and r['mutation']['path'][-1] == 'ids':
        value = ['not-an identifier']
    return {'script': 'native/replay_parser.py',
            'input': {'doc': r['doc'], 'names': {}, 'property': 'C15',
                      'mutation': {'path': r['mutation']['path'], 'op': r['mutation']['op'], 'value': value}}}


def native_search(ctx, o):
    import re
    m = re.match(r'[^:]*:any-json\.([A-Za-z_]+)', o.id)
    if m:
        return {'script': 'native/replay_parse.py', 'input': {'function': m.group(1), 'mode': 'any'}}
    if ':json_ast.parse_event' in o.id:
        return {'script': 'native/replay_parse.py', 'input': {'function': 'parse_event'}}
    docs = D.documents()
    inputs = []
    for dn in docs:
        doc = D.to_json(docs[dn], lambda k: k)
        for (path_, op, kind) in mutations(doc):
            if kind in ('str', 'int', 'bool'):
                continue
            value = {'null': None, 'list': [], 'dict': {}, 'empty-list': [], 'list-of-junk': [None, 5, {'<class>': []},
                     {'<class>': {}}, 'text'], 'non-identifier': ['a\n'] if path_[-1] == 'ids' else 'a\n',
                     'other-class': ['x'], None: None}[kind]
            inputs.append({'doc': dn, 'names': {}, 'property': 'C15', 'mutation': {'path': path_, 'op': op, 'value': value}})
    inputs.append({'doc': 'flat-all-kinds', 'names': {}, 'property': 'C15', 'must_reject': True,
                   'mutation': {'path': ['elements', 5, 'events', 'elements', 1, 'signature', 'type_name', 'ids'],
                                'op': 'set', 'value': ['E']}})
    return {'script': 'native/replay_parser.py', 'input': {'search': inputs}}
