"""C17 - text blocks keep one line per entry and flatten content losslessly.

Contracts (ghost functions in specs/text.py):
  flatten_to_strlist(v, skip)       == flat(v, skip)                       content shapes below, leaves symbolic
  TextBlock(content).lines          == lines_of(content); every stored line is free of line boundaries
  TextBlock.append / += / +         lines == old lines ++ lines_of(content)   (appending is concatenation)
  TextBlock.__str__                 == text_of(header, lines)               arbitrary symbolic header / lines
  TextBlock(str(tb)).lines          == tb.header ++ tb.lines  for a non-empty block (round trip, law T1)
  trim_list / TextBlock.trim        == trimmed(lst, end_only)               lists of length <= 4, symbolic items
  chunk / cond_chunk                == chunk_lines / the three documented cases

BOUND: the NESTING STRUCTURE of contents is taken from the shape list `contents()` (depth <= 3, width <= 4); all
leaves (strings with arbitrary line breaks, integers, lines of nested blocks of any length) are symbolic.
"""
from __future__ import annotations

import z3

from pyvc import ops, ghostlib
from pyvc.builtins_ import forall_items, str_break_free
from pyvc.harness import Ctx, refines, PROVED
from pyvc.path import Path
from pyvc.sorts import TypeDesc
from pyvc.values import ObjV, SeqV, SeqT, LitB, DictV, Unsupported

TG = 'dznpy.text_gen'
MU = 'dznpy.misc_utils'


def run(ctx: Ctx):
    I = ctx.interp
    ghostlib.install(I)
    tg = I.load_module(TG)
    mu = I.load_module(MU)
    spec = I.load_module('specs.text')
    TB = tg.globals['TextBlock']
    ctx.trusted += ["str.splitlines as an uninterpreted function: no line contains a boundary; a string has no lines "
                    "iff it is empty; law T1 splitlines('\\n'.join(L) + '\\n') == L for non-empty break-free L",
                    'engine rules: comprehension extensionality, loop summarisation of accumulate loops']
    ctx.assumptions += ['BOUND: nesting structure of contents from the shape list of props/C17.py (depth <= 3, width '
                        '<= 4); trim lists of length <= 4; all leaves symbolic (strings may contain any line '
                        'boundary, nested blocks have any number of lines)',
                        'non-str leaves are integers (str() of other objects is their own contract)']
    STR_SEQ = z3.SeqSort(z3.StringSort())
    ctx.bounded = getattr(ctx, 'bounded', []) + [
        {'function': 'flatten_to_strlist / TextBlock.__init__ / append / __add__ / __iadd__ / chunk',
         'bound': 'NESTING structure of the content argument: the 12 shapes of contents() (depth <= 3, width <= 4); every '
                  'string leaf and every nested text block (any number of lines) symbolic',
         'result': 'proved per shape'},
        {'function': 'dznpy.misc_utils.trim_list', 'bound': 'list length <= 4 (quick) / <= 6 (thorough), items symbolic',
         'result': 'proved per length (loops unrolled)'}]

    def s(p, name):
        return ops.mkstr([z3.String('in_' + name)])

    def tb_sym(p, name):
        """a text block in an arbitrary valid state: any header / lines, all free of line boundaries"""
        H, L = z3.Const(f'in_{name}_header', STR_SEQ), z3.Const(f'in_{name}_lines', STR_SEQ)
        for z in (H, L):
            q = z3.Int(f'q!{name}{z}')
            p.add_hyp([q], z3.Implies(z3.And(q >= 0, q < z3.Length(z)), ops.with_facts(ops.no_break(z[q]))), 'inv_TextBlock')
        return ObjV(TB, {'_header': SeqV(I.seq_of_base(H, TypeDesc('str'), p)),
                         '_lines': SeqV(I.seq_of_base(L, TypeDesc('str'), p)),
                         '_indentizer': I.call(tg.globals['Indentizer'], [], {}, p)}), H, L

    def lst(*items):
        return SeqV(SeqT([LitB(list(items))]) if items else SeqT())

    def contents():
        """(name, builder(path) -> content value)"""
        return [
            ('str', lambda p: s(p, 'x')),
            ('empty-str', lambda p: ''),
            ('none', lambda p: None),
            ('int', lambda p: z3.Int('in_n')),
            ('empty-list', lambda p: lst()),
            ('flat-list', lambda p: lst(s(p, 'x'), '', s(p, 'y'))),
            ('nested', lambda p: lst(s(p, 'x'), lst(), None, lst(s(p, 'y'), lst('')), z3.Int('in_n'))),
            ('dict', lambda p: DictV(concrete={'a': s(p, 'x'), 'b': None, 'c': lst(s(p, 'y'), '')})),
            ('list-of-dict', lambda p: lst(DictV(concrete={1: '', 2: s(p, 'x')}), lst(lst(s(p, 'y'))))),
            ('block', lambda p: tb_sym(p, 'tb')[0]),
            ('list-with-block', lambda p: lst(s(p, 'x'), tb_sym(p, 'tb')[0], '')),
            ('deep', lambda p: lst(lst(lst(s(p, 'x'), None), ''), DictV(concrete={'k': lst(s(p, 'y'))}))),
        ]

    f_flat = I.get_function(f'{MU}.flatten_to_strlist')
    ctx.functions[f'{MU}.flatten_to_strlist'] = 'proved on the shape list (structure bounded, leaves symbolic)'
    for name, mk in contents():
        for skip in (True, False):
            refines(ctx, f'misc_utils.flatten_to_strlist[{name},skip={skip}]', f'{MU}.flatten_to_strlist',
                    lambda i, p, a, k: i.call_function(f_flat, a, k, p),
                    lambda i, p, a, k: i.call_function(spec.globals['flat'], a, k, p),
                    lambda p, mk=mk, skip=skip: ((lambda c: ([c, skip], [c, skip]))(mk(p))), witness=None,
                    text='flatten_to_strlist(v, skip) == flat(v, skip)')

    # ---- construction / append ---------------------------------------------------------------------------------
    for fname in ('__init__', 'append', '__iadd__', '__add__', '__str__', 'trim'):
        ctx.functions[f'{TG}.TextBlock.{fname}'] = 'proved'
    for name, mk in contents():
        def impl_new(i, p, a, k):
            tb = i.call(TB, [a[0]], {}, p)
            return tb.fields['_lines']
        res = refines(ctx, f'text_gen.TextBlock.__init__[{name}]', f'{TG}.TextBlock.__init__', impl_new,
                      lambda i, p, a, k: i.call_function(spec.globals['lines_of'], a, k, p),
                      lambda p, mk=mk: ((lambda c: ([c], [c]))(mk(p))), witness=None,
                      text='TextBlock(content).lines == lines_of(content)')
        # every stored line is free of line boundaries
        for k_, (p, (kind, val)) in enumerate(res):
            if kind != 'return':
                continue
            ok = forall_items(I, p, val.term, lambda it, pp: str_break_free(I, it, pp))
            o = ctx.new(f'text_gen.TextBlock.__init__[{name}]:path{k_}:inv', 'ensures', f'{TG}.TextBlock.append',
                        'no stored line contains a line boundary')
            ctx.settle(o, PROVED if ok else 'undecided', 'z3' if ok else 'z3',
                       '' if ok else 'could not prove break-freeness of every stored line')

        def mk_app(p, mk=mk):
            tb, H, L = tb_sym(p, 'self')
            c = mk(p)
            old = SeqV(I.seq_of_base(L, TypeDesc('str'), p), frozen=True)
            return [tb, c], [old, c]

        def impl_app(i, p, a, k):
            r = i.call(i.getattr_(a[0], 'append', p), [a[1]], {}, p)
            if r is not a[0]:
                raise Unsupported('append is expected to return self')
            return a[0].fields['_lines']

        def spec_app(i, p, a, k):
            more = i.call_function(spec.globals['lines_of'], [a[1]], {}, p)
            return SeqV(ops.mkseq(list(a[0].term.blocks) + list(more.term.blocks)))
        refines(ctx, f'text_gen.TextBlock.append[{name}]', f'{TG}.TextBlock.append', impl_app, spec_app, mk_app,
                witness=None, text='append: lines == old lines ++ lines_of(content)')

        def impl_iadd(i, p, a, k):
            f = i.get_function(f'{TG}.TextBlock.__iadd__')
            r = i.call_function(f, [a[0], a[1]], {}, p)
            return (r is a[0], a[0].fields['_lines'])

        refines(ctx, f'text_gen.TextBlock.__iadd__[{name}]', f'{TG}.TextBlock.__iadd__', impl_iadd,
                lambda i, p, a, k: (True, spec_app(i, p, a, k)), mk_app, witness=None,
                text='tb += content: the SAME object, lines == old lines ++ lines_of(content)')

        def impl_add(i, p, a, k):
            f = i.get_function(f'{TG}.TextBlock.__add__')
            before = ops.canon(a[0].fields['_lines'].term)
            r = i.call_function(f, [a[0], a[1]], {}, p)
            return (r is not a[0], ops.canon(a[0].fields['_lines'].term) == before, r.fields['_lines'])

        refines(ctx, f'text_gen.TextBlock.__add__[{name}]', f'{TG}.TextBlock.__add__', impl_add,
                lambda i, p, a, k: (True, True, spec_app(i, p, a, k)), mk_app, witness=None,
                text='tb + content: a NEW block, lines == tb.lines ++ lines_of(content), tb unchanged')

    # ---- string form and round trip --------------------------------------------------------------------------------
    f_str = I.get_function(f'{TG}.TextBlock.__str__')

    def mk_tb(p):
        tb, H, L = tb_sym(p, 'self')
        return [tb], [SeqV(I.seq_of_base(H, TypeDesc('str'), p), frozen=True),
                      SeqV(I.seq_of_base(L, TypeDesc('str'), p), frozen=True)]
    refines(ctx, 'text_gen.TextBlock.__str__', f'{TG}.TextBlock.__str__',
            lambda i, p, a, k: i.call_function(f_str, a, k, p),
            lambda i, p, a, k: i.call_function(spec.globals['text_of'], a, k, p), mk_tb, witness=None,
            text='str(tb) == every header and content line followed by exactly one newline')

    def mk_rt(p):
        tb, H, L = tb_sym(p, 'self')
        p.assume(z3.Length(H) + z3.Length(L) > 0)
        return [tb], [SeqV(I.seq_of_base(H, TypeDesc('str'), p), frozen=True),
                      SeqV(I.seq_of_base(L, TypeDesc('str'), p), frozen=True)]

    def impl_rt(i, p, a, k):
        txt = i.call_function(f_str, a, k, p)
        return i.call(TB, [txt], {}, p).fields['_lines']
    refines(ctx, 'text_gen.TextBlock.roundtrip', f'{TG}.TextBlock.__init__', impl_rt,
            lambda i, p, a, k: SeqV(ops.mkseq(list(a[0].term.blocks) + list(a[1].term.blocks))), mk_rt, witness=None,
            text='TextBlock(str(tb)).lines == tb.header ++ tb.lines for a non-empty block')

    # ---- trimming ------------------------------------------------------------------------------------------------------
    f_trim = I.get_function(f'{MU}.trim_list')
    trim_max = 4 if ctx.tier == 'quick' else 6
    ctx.functions[f'{MU}.trim_list'] = f'proved for lists of length <= {trim_max} (loops unrolled), items symbolic'
    for n in range(0, trim_max + 1):
        for end_only in (False, True):
            def mk_trim(p, n=n, end_only=end_only):
                items = [s(p, f't{i}') for i in range(n)]
                return [lst(*items), end_only], [lst(*items), end_only]
            refines(ctx, f'misc_utils.trim_list[{n},end_only={end_only}]', f'{MU}.trim_list',
                    lambda i, p, a, k: i.call_function(f_trim, a, k, p),
                    lambda i, p, a, k: i.call_function(spec.globals['trimmed'], a, k, p), mk_trim, witness=None,
                    text='trim_list == longest slice without leading/trailing empty items')

    # ---- chunking --------------------------------------------------------------------------------------------------------
    f_chunk = I.get_function(f'{TG}.chunk')
    ctx.functions[f'{TG}.chunk'] = 'proved on the shape list'
    apps = [('default', lambda p: '\n'), ('none', lambda p: None), ('custom', lambda p: lst(s(p, 'a1'), s(p, 'a2')))]
    for name, mk in contents():
        for an, amk in apps:
            def mk_chunk(p, mk=mk, amk=amk):
                c, a = mk(p), amk(p)
                return [c, a], [c, a]

            def impl_chunk(i, p, a, k):
                r = i.call_function(f_chunk, a, k, p)
                return None if r is None else r.fields['_lines']
            refines(ctx, f'text_gen.chunk[{name},{an}]', f'{TG}.chunk', impl_chunk,
                    lambda i, p, a, k: i.call_function(spec.globals['chunk_lines'], a, k, p), mk_chunk, witness=None,
                    text='chunk: nothing for empty content, content plus appendix otherwise')
    # canary
    p = Path()
    x = z3.String('in_canary')
    ctx.expect_refuted('text_gen:canary', f'{TG}.TextBlock.append', p, ops.no_break(x, p), 'canary: every string is one line')


def make_replay(ctx, o):
    return None


def native_search(ctx, o):
    contents = ['x', '', None, 7, [], ['a', '', 'b'], ['a\nb', '', [None, ['c\r\nd', ['']]], 0], {'k': 'v\x0bw', 'j': None},
                [{1: '', 2: 'x'}, [['y\u2028z']]], ['\n'], 'trail\n', '\n\nlead', ['a\x85b', 'c\x1cd'], [[], {}, None],
                ['x', 3.5, False]]
    inputs = [{'function': 'TextBlock', 'content': c} for c in contents]
    for lst in ([], [''], ['', 'a', ''], ['a', '', ''], ['', ''], ['', 'a', '', 'b', '']):
        for eo in (False, True):
            inputs.append({'function': 'trim_list', 'list': lst, 'end_only': eo})
    return {'script': 'native/replay_text.py', 'input': {'search': inputs}}
