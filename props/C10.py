"""C10 - generator property; obligations in props/gen_props.py over symbolic Builder.build runs (props/gen_common.py)."""
import os
from props import gen_props


def run(ctx):
    from props import gen_unbounded
    gen_unbounded.run_final_construct(ctx)     # unbounded part: FinalConstruct() for any number of exposed ports
    gen_unbounded.run_portitf(ctx)     # the accessor target that FinalConstruct() checks is the object handed out
    only = os.environ.get('PYVC_SHAPES')
    gen_props.run_property(ctx, 'C10', only.split(',') if only else None)


def make_replay(ctx, o):
    if getattr(o, 'replay', None):
        return {'script': 'native/replay_gen.py', 'input': dict(o.replay, property='C10')}
    return None


def native_search(ctx, o):
    return gen_props.native_search(ctx, o, 'C10')
