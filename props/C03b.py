"""C03 (second part): the look-up sites in create_dzn_elements - added with the builder-level contracts."""


def run(ctx, e):
    return
