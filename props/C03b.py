"""C03 (second part): the look-up sites in create_dzn_elements, on the generator harness: every exposed port gets the
semantics that specs/port_selection.sem assigns (accessor type Sts/Mts, boundary member), an uncovered exposed port
or an unknown configured name is rejected with AdvShellError and no file, injected requires ports are never
exposed and never need a semantics."""
from props import gen_props


def run(ctx, e):
    gen_props.run_property(ctx, 'C03')
